import PedalProofs.CaitLemmas
/-
C10 core: every map returned by the model's `deep` (deep_find_match) is a good embedding of the pattern
node at the student node (`Good`), by structural induction on the pattern.
-/
namespace Pedal.Cait

/-! ### paths -/

theorem prefix_snoc_inj {pp k : Path} {i i' : Nat} (h1 : (pp ++ [i]) <+: k) (h2 : (pp ++ [i']) <+: k) : i = i' := by
  obtain ⟨t1, e1⟩ := h1
  obtain ⟨t2, e2⟩ := h2
  rw [← e2, List.append_assoc, List.append_assoc] at e1
  have := List.append_cancel_left e1
  simp only [List.singleton_append, List.cons.injEq] at this
  exact this.1

theorem not_snoc_prefix_self (pp : Path) (i : Nat) : ¬ (pp ++ [i]) <+: pp := by
  intro h
  have := h.length_le
  simp at this
  omega

theorem prefix_of_snoc_prefix {pp k : Path} {i : Nat} (h : (pp ++ [i]) <+: k) : pp <+: k :=
  (List.prefix_append pp [i]).trans h

/-! ### small facts about the checker -/

theorem embAt_root {m : AstMap} {pp sp : Path} {p s : T} (h : embAt m pp p sp s = true) :
    dictGet pp m.mappings = some sp := by
  cases p with
  | mk k f fl ks =>
    rw [embAt] at h
    simp only [Bool.and_eq_true, decide_eq_true_eq] at h
    exact h.1

theorem embKids_used_irrel (m : AstMap) (pp sp : Path) (s : T) (kids : List T) :
    ∀ i mj u1 u2, embKids m pp i kids sp s true mj u1 = embKids m pp i kids sp s true mj u2 := by
  induction kids with
  | nil => intro i mj u1 u2; rw [embKids, embKids]
  | cons pc rest ih =>
    intro i mj u1 u2
    rw [embKids, embKids]
    cases dictGet (pp ++ [i]) m.mappings with
    | none => rfl
    | some q =>
      simp only
      cases q.getLast? with
      | none => rfl
      | some j =>
        simp only [if_true]
        rw [ih (i + 1) (j + 1) (j :: u1) (j :: u2)]

/-! ### the helpers of the child loop -/

theorem candsFrom_mem {f : Nat → T → List AstMap} {ys : Nat} :
    ∀ (l : List T) (j0 : Nat) (c : Nat × List AstMap), c ∈ candsFrom f ys j0 l →
      ∃ sj, l[c.1 - j0]? = some sj ∧ j0 ≤ c.1 ∧ c.2 = f c.1 sj := by
  intro l
  induction l with
  | nil => intro j0 c hc; simp [candsFrom] at hc
  | cons s ss ih =>
    intro j0 c hc
    rw [candsFrom] at hc
    rw [List.mem_append] at hc
    rcases hc with hc | hc
    · split at hc
      · cases hc
      · simp only at hc
        split at hc
        · cases hc
        · simp only [List.mem_singleton] at hc
          subst hc
          exact ⟨s, by simp, Nat.le_refl _, rfl⟩
    · obtain ⟨sj, h1, h2, h3⟩ := ih (j0 + 1) c hc
      refine ⟨sj, ?_, by omega, h3⟩
      have : c.1 - j0 = (c.1 - (j0 + 1)) + 1 := by omega
      rw [this, List.getElem?_cons_succ]
      exact h1

theorem extendOne_mem {b : AstMap} {mn : Nat} {cands : List (Nat × List AstMap)} {x : AstMap × Nat}
    (h : x ∈ extendOne b mn cands) :
    ∃ c ∈ cands, mn ≤ c.1 ∧ ∃ r ∈ c.2, x.1 = b.merged r ∧ x.1.hasConflicts = false ∧ x.2 = c.1 + 1 := by
  simp only [extendOne, List.mem_flatMap] at h
  obtain ⟨c, hc, hx⟩ := h
  split at hx
  · rename_i hge
    simp only [List.mem_filterMap] at hx
    obtain ⟨r, hr, hx⟩ := hx
    split at hx
    · cases hx
    · rename_i hcf
      cases hx
      exact ⟨c, hc, hge, r, hr, rfl, by simpa using hcf, rfl⟩
  · cases hx

theorem mapMerge_mem {st : List (AstMap × Nat)} {cands : List (Nat × List AstMap)}
    {st' : List (AstMap × Nat)} {y' : Nat} (h : mapMerge st cands = some (st', y')) :
    ∀ x' ∈ st', ∃ x ∈ st, ∃ c ∈ cands, x.2 ≤ c.1 ∧ ∃ r ∈ c.2,
      x'.1 = x.1.merged r ∧ x'.1.hasConflicts = false ∧ x'.2 = c.1 + 1 := by
  intro x' hx'
  cases cands with
  | nil => simp [mapMerge] at h
  | cons c0 cs =>
    simp only [mapMerge] at h
    split at h
    · cases h
    · simp only [Option.some.injEq, Prod.mk.injEq] at h
      obtain ⟨h1, _⟩ := h
      subst h1
      simp only [List.mem_flatMap] at hx'
      obtain ⟨x, hx, hx2⟩ := hx'
      obtain ⟨c, hc, h3⟩ := extendOne_mem hx2
      exact ⟨x, hx, c, hc, h3⟩

theorem binflexHelper_mem {base : AstMap} {L R : List AstMap} {m : AstMap} (h : m ∈ binflexHelper base L R) :
    ∃ lm ∈ L, ∃ rm ∈ R, m = (base.merged lm).merged rm ∧ m.hasConflicts = false := by
  simp only [binflexHelper, List.mem_flatMap, List.mem_filterMap] at h
  obtain ⟨lm, hl, rm, hr, hm⟩ := h
  split at hm
  · cases hm
  · rename_i hc
    cases hm
    exact ⟨lm, hl, rm, hr, rfl, by simpa using hc⟩

/-! ### what `deepPre` decides -/

theorem isVar_false_of_isExp {cs : List Char} (h : isExpChars cs = true) : isVarChars cs = false := by
  simp only [isExpChars, Bool.and_eq_true, decide_eq_true_eq] at h
  cases cs with
  | nil => simp at h
  | cons a t =>
    cases t with
    | nil => simp at h
    | cons b rest =>
      have h2 := h.1.2
      simp only [List.take_succ_cons, List.take_zero, List.cons.injEq, and_true] at h2
      obtain ⟨rfl, rfl⟩ := h2
      simp [isVarChars]

theorem nameClass_of_isExp {n : String} (h : isExpChars n.toList = true) : nameClass n = .exp := by
  simp [nameClass, isVar_false_of_isExp h, h]

theorem nameClass_of_isWild {n : String} (h : isWildChars n.toList = true) : nameClass n = .wild := by
  simp only [isWildChars, decide_eq_true_eq] at h
  simp [nameClass, h, isVarChars, isExpChars, isWildChars]

theorem isExp_of_nameClass {n : String} (h : nameClass n = .exp) : isExpChars n.toList = true := by
  simp only [nameClass] at h
  split at h
  · cases h
  · split at h
    · assumption
    · split at h <;> cases h

theorem isWild_of_nameClass {n : String} (h : nameClass n = .wild) :
    isWildChars n.toList = true ∧ isExpChars n.toList = false := by
  simp only [nameClass] at h
  split at h
  · cases h
  · split at h
    · cases h
    · rename_i h2
      split at h
      · exact ⟨by assumption, by simpa using h2⟩
      · cases h

def expMap (pp sp : Path) (name : String) : AstMap := { pairMap pp sp with exps := [(name, sp)] }

theorem deepPre_done {cm : Bool} {pf : String} {pp sp : Path} {p s : T} {r : List AstMap}
    (h : deepPre cm pf pp p sp s = .done r) : ∀ m ∈ r,
      (m = pairMap pp sp ∧ role p = .wildcard) ∨
      (∃ name, m = expMap pp sp name ∧ role p = .expPh name) := by
  intro m hm
  simp only [deepPre] at h
  split at h
  · rename_i hk
    cases hc : nameClass (p.strAttr "id") with
    | exp =>
      simp only [hc] at h
      split at h
      · cases h
        simp only [List.mem_singleton] at hm
        exact Or.inr ⟨_, hm, role_ne_concrete_of_name_exp hk hc⟩
      · cases h
    | wild =>
      simp only [hc] at h
      split at h
      · cases h
        simp only [List.mem_singleton] at hm
        exact Or.inl ⟨hm, role_of_name_wild hk hc⟩
      · cases h
    | var => simp only [hc] at h; cases h
    | plain => simp only [hc] at h; cases h
  · rename_i hnn
    split at h
    · split at h <;> cases h
    · split at h
      · rename_i hk
        split at h
        · cases h; cases hm
        · cases hv : p.kids.head? with
          | none => simp only [hv] at h; cases h
          | some v =>
            simp only [hv] at h
            split at h
            · rename_i hvk
              split at h
              · rename_i he
                cases h
                simp only [List.mem_singleton] at hm
                refine Or.inr ⟨_, hm, ?_⟩
                simp only [role, hk]
                simp only [show ("Expr" : String) ≠ "Pass" from by decide,
                  show ("Expr" : String) ≠ "Name" from by decide,
                  show ("Expr" : String) ≠ "arg" from by decide, if_false, if_true, hv, hvk,
                  nameClass_of_isExp he]
              · split at h
                · rename_i hw
                  cases h
                  simp only [List.mem_singleton] at hm
                  refine Or.inl ⟨hm, ?_⟩
                  simp only [role, hk]
                  simp only [show ("Expr" : String) ≠ "Pass" from by decide,
                    show ("Expr" : String) ≠ "Name" from by decide,
                    show ("Expr" : String) ≠ "arg" from by decide, if_false, if_true, hv, hvk,
                    nameClass_of_isWild hw]
                · cases h
            · cases h
      · cases h

theorem deepPre_generic {cm : Bool} {pf : String} {pp sp : Path} {p s : T} {ig : List String}
    (h : deepPre cm pf pp p sp s = .generic ig) :
    (ig = [] ∨ (ig = ["ctx"] ∧ p.kind = "Name")) ∧ flexOp p = false ∧
      (∀ k, role p = .expPh k → p.kind = "Name") := by
  simp only [deepPre] at h
  split at h
  · rename_i hk
    have hig : ig = ["ctx"] := by
      cases hc : nameClass (p.strAttr "id") <;> simp only [hc] at h
      · cases h; rfl
      · split at h <;> cases h; rfl
      · split at h <;> cases h; rfl
      · cases h; rfl
    refine ⟨Or.inr ⟨hig, hk⟩, ?_, fun _ _ => hk⟩
    simp [flexOp, hk]
  · rename_i hnn
    split at h
    · rename_i hk
      split at h
      · cases h
      · rename_i hop
        cases h
        refine ⟨Or.inl rfl, ?_, ?_⟩
        · simp only [flexOp, hk, decide_true, Bool.true_and]
          simpa using hop
        · intro k hr
          exact absurd hr (role_not_exp_of_kind hnn (by rw [hk]; decide) k)
    · rename_i hnb
      split at h
      · rename_i hk
        split at h
        · cases h
        · rename_i hmm
          have hflex : flexOp p = false := by simp [flexOp, hnb]
          cases hv : p.kids.head? with
          | none =>
            simp only [hv] at h; cases h
            refine ⟨Or.inl rfl, hflex, ?_⟩
            intro k hr
            simp only [role, hk] at hr
            simp only [show ("Expr" : String) ≠ "Pass" from by decide,
              show ("Expr" : String) ≠ "Name" from by decide,
              show ("Expr" : String) ≠ "arg" from by decide, if_false, if_true, hv] at hr
            cases hr
          | some v =>
            simp only [hv] at h
            have hrole : ∀ k, role p = .expPh k → v.kind = "Name" ∧ nameClass (v.strAttr "id") = .exp := by
              intro k hr
              simp only [role, hk] at hr
              simp only [show ("Expr" : String) ≠ "Pass" from by decide,
                show ("Expr" : String) ≠ "Name" from by decide,
                show ("Expr" : String) ≠ "arg" from by decide, if_false, if_true, hv] at hr
              split at hr
              · rename_i hvk
                refine ⟨hvk, ?_⟩
                cases hc : nameClass (v.strAttr "id") <;> simp only [hc] at hr <;> first | rfl | cases hr
              · cases hr
            split at h
            · rename_i hvk
              split at h
              · cases h
              · rename_i hne
                split at h
                · cases h
                · cases h
                  refine ⟨Or.inl rfl, hflex, ?_⟩
                  intro k hr
                  exfalso
                  exact hne (isExp_of_nameClass (hrole k hr).2)
            · rename_i hvk
              cases h
              refine ⟨Or.inl rfl, hflex, ?_⟩
              intro k hr
              exact absurd (hrole k hr).1 hvk
      · rename_i hne
        cases h
        refine ⟨Or.inl rfl, by simp [flexOp, hnb], ?_⟩
        intro k hr
        exact absurd hr (role_not_exp_of_kind hnn hne k)

theorem deepPre_binflex {cm : Bool} {pf : String} {pp sp : Path} {p s : T}
    (h : deepPre cm pf pp p sp s = .binflex) : p.kind = "BinOp" ∧ flexOp p = true := by
  simp only [deepPre] at h
  split at h
  · cases hc : nameClass (p.strAttr "id") <;> simp only [hc] at h
    · cases h
    · split at h <;> cases h
    · split at h <;> cases h
    · cases h
  · split at h
    · rename_i hk
      split at h
      · rename_i hop
        refine ⟨hk, ?_⟩
        simp only [flexOp, hk, decide_true, Bool.true_and]
        simpa using hop
      · cases h
    · split at h
      · split at h
        · cases h
        · cases hv : p.kids.head? with
          | none => simp only [hv] at h; cases h
          | some v =>
            simp only [hv] at h
            split at h
            · split at h
              · cases h
              · split at h <;> cases h
            · cases h
      · cases h

/-! ### the invariant of `deep` results -/

def Under (pp : Path) (m : AstMap) : Prop := ∀ k ∈ keysOf m.mappings, pp <+: k

/-- keys are the parent's own path or lie under one of its first `i` children -/
def KeysIn (m : AstMap) (pp : Path) (i : Nat) : Prop :=
  ∀ k ∈ keysOf m.mappings, k = pp ∨ ∃ i', i' < i ∧ (pp ++ [i']) <+: k

structure Good (m : AstMap) (pp : Path) (p : T) (sp : Path) (s : T) : Prop where
  under : Under pp m
  nodup : (keysOf m.mappings).Nodup
  emb : embAt m pp p sp s = true
  exps : ∀ kv ∈ m.exps, expSomewhere m kv.1 kv.2 pp p = true
  inv : ConfInv m
  noconf : m.conflicts = []

theorem KeysIn.under {m : AstMap} {pp : Path} {i : Nat} (h : KeysIn m pp i) : Under pp m := by
  intro k hk
  rcases h k hk with rfl | ⟨i', _, hp⟩
  · exact List.prefix_refl _
  · exact prefix_of_snoc_prefix hp

theorem KeysIn.mono {m : AstMap} {pp : Path} {i j : Nat} (h : KeysIn m pp i) (hij : i ≤ j) : KeysIn m pp j := by
  intro k hk
  rcases h k hk with rfl | ⟨i', hi, hp⟩
  · exact Or.inl rfl
  · exact Or.inr ⟨i', by omega, hp⟩

theorem noconf_of_hasConflicts {m : AstMap} (h : m.hasConflicts = false) : m.conflicts = [] := by
  simpa [AstMap.hasConflicts] using h

theorem hasConflicts_of_noconf {m : AstMap} (h : m.conflicts = []) : m.hasConflicts = false := by
  simp [AstMap.hasConflicts, h]

/-- merging a map whose keys are all new keeps every old answer -/
theorem ext_merged_left {a b : AstMap} (hdisj : ∀ k ∈ keysOf b.mappings, k ∉ keysOf a.mappings) :
    Ext a (a.merged b) := by
  refine ⟨?_, ?_, ?_⟩
  · intro k v hk
    rw [merged_mappings]
    have hka : k ∈ keysOf a.mappings := by
      have := dictGet_mem hk
      exact List.mem_map.2 ⟨(k, v), this, rfl⟩
    have hkb : k ∉ keysOf b.mappings := fun h => hdisj k h hka
    rw [dictGet_dictUpdate_of_not_key hkb]; exact hk
  · intro k hk; rw [merged_exps]; exact dictGet_isSome_dictUpdate hk
  · intro x hx; rw [merged_binds]; exact List.mem_append_left _ hx

theorem ext_merged_right {a b : AstMap} (hn : (keysOf b.mappings).Nodup) : Ext b (a.merged b) := by
  refine ⟨?_, ?_, ?_⟩
  · intro k v hk; rw [merged_mappings]; exact dictGet_dictUpdate_of_get hn hk
  · intro k hk; rw [merged_exps]; exact dictGet_isSome_dictUpdate_right hk
  · intro x hx; rw [merged_binds]; exact List.mem_append_right _ hx

theorem keys_merged {a b : AstMap} {k : Path} (h : k ∈ keysOf (a.merged b).mappings) :
    k ∈ keysOf a.mappings ∨ k ∈ keysOf b.mappings := by
  rw [merged_mappings] at h; exact keysOf_dictUpdate_subset h

theorem nodup_merged {a b : AstMap} (h : (keysOf a.mappings).Nodup) : (keysOf (a.merged b).mappings).Nodup := by
  rw [merged_mappings]; exact nodup_keysOf_dictUpdate h

theorem mem_exps_merged {a b : AstMap} {kv : String × Path} (h : kv ∈ (a.merged b).exps) :
    kv ∈ a.exps ∨ kv ∈ b.exps := by
  rw [merged_exps] at h; exact mem_dictUpdate h

/-- what the child loop guarantees for each of its results, relative to the base map it grew from -/
structure LoopRes (m : AstMap) (x : AstMap × Nat) (ig : List String) (pp : Path) (i : Nat) (rest : List T)
    (sp : Path) (s : T) : Prop where
  ext : Ext x.1 m
  under : Under pp m
  nodup : (keysOf m.mappings).Nodup
  inv : ConfInv m
  noconf : m.conflicts = []
  kids : ig = [] → embKids m pp i rest sp s true x.2 [] = true
  exps : ∀ kv ∈ m.exps, kv ∈ x.1.exps ∨ expSomewhereL m kv.1 kv.2 pp i rest = true

structure StGood (b : AstMap) (pp : Path) (i : Nat) : Prop where
  keys : KeysIn b pp i
  nodup : (keysOf b.mappings).Nodup
  inv : ConfInv b
  noconf : b.conflicts = []

theorem deepKids_good (cm : Bool) (ig : List String) (pp sp : Path) (s : T) (rest : List T)
    (hIH : ∀ c ∈ rest, ∀ cm pf pp sp s, ∀ m ∈ deep cm pf pp c sp s, Good m pp c sp s) :
    ∀ (i : Nat) (st : List (AstMap × Nat)) (y : Nat), (∀ x ∈ st, StGood x.1 pp i) →
      ∀ m ∈ deepKids cm ig pp i rest sp s st y, ∃ x ∈ st, LoopRes m x ig pp i rest sp s := by
  induction rest with
  | nil =>
    intro i st y hst m hm
    rw [deepKids] at hm
    simp only [List.mem_map] at hm
    obtain ⟨x, hx, rfl⟩ := hm
    have hg := hst x hx
    exact ⟨x, hx, Ext.refl _, hg.keys.under, hg.nodup, hg.inv, hg.noconf, fun _ => by rw [embKids],
      fun kv hkv => Or.inl hkv⟩
  | cons pc rest ih =>
    intro i st y hst m hm
    have ih' := ih (fun c hc => hIH c (List.mem_cons_of_mem _ hc))
    rw [deepKids] at hm
    split at hm
    · -- ignored child
      rename_i hign
      obtain ⟨x, hx, hr⟩ := ih' (i + 1) st y
        (fun x hx => ⟨(hst x hx).keys.mono (Nat.le_succ i), (hst x hx).nodup, (hst x hx).inv, (hst x hx).noconf⟩) m hm
      refine ⟨x, hx, hr.ext, hr.under, hr.nodup, hr.inv, hr.noconf, ?_, ?_⟩
      · intro hnil; subst hnil; simp at hign
      · intro kv hkv
        rcases hr.exps kv hkv with h | h
        · exact Or.inl h
        · right; rw [expSomewhereL]; simp [h]
    · cases hmm : mapMerge st (candsFrom (fun j sj => deep cm pc.field (pp ++ [i]) pc (sp ++ [j]) sj) y 0 s.kids) with
      | none => simp [hmm] at hm
      | some res =>
        obtain ⟨st', y'⟩ := res
        simp only [hmm] at hm
        have hmem := mapMerge_mem hmm
        -- every new state is a good extension of an old one by a good child match
        have hst' : ∀ x' ∈ st', StGood x'.1 pp (i + 1) := by
          intro x' hx'
          obtain ⟨x, hx, c, hc, _, r, hr, e1, e2, _⟩ := hmem x' hx'
          obtain ⟨sj, _, _, hc3⟩ := candsFrom_mem _ _ _ hc
          have hgr : Good r (pp ++ [i]) pc (sp ++ [c.1]) sj := by
            apply hIH pc List.mem_cons_self; rw [← hc3]; exact hr
          have hg := hst x hx
          rw [e1]
          refine ⟨?_, nodup_merged hg.nodup, confInv_merged _ _, ?_⟩
          · intro k hk
            rcases keys_merged hk with h | h
            · exact (hg.keys.mono (Nat.le_succ i)) k h
            · exact Or.inr ⟨i, Nat.lt_succ_self i, hgr.under k h⟩
          · rw [← e1]; exact noconf_of_hasConflicts e2
        obtain ⟨x', hx', hr'⟩ := ih' (i + 1) st' y' hst' m hm
        obtain ⟨x, hx, c, hc, hge, r, hr, e1, e2, e3⟩ := hmem x' hx'
        obtain ⟨sj, hsj, _, hc3⟩ := candsFrom_mem _ _ _ hc
        have hgr : Good r (pp ++ [i]) pc (sp ++ [c.1]) sj := by
          apply hIH pc List.mem_cons_self; rw [← hc3]; exact hr
        have hg := hst x hx
        have hdisj : ∀ k ∈ keysOf r.mappings, k ∉ keysOf x.1.mappings := by
          intro k hk1 hk2
          have hp := hgr.under k hk1
          rcases hg.keys k hk2 with rfl | ⟨i', hi', hp'⟩
          · exact not_snoc_prefix_self _ _ hp
          · have := prefix_snoc_inj hp hp'; omega
        have hxx' : Ext x.1 x'.1 := by rw [e1]; exact ext_merged_left hdisj
        have hrx' : Ext r x'.1 := by rw [e1]; exact ext_merged_right hgr.nodup
        have hrm : Ext r m := hrx'.trans hr'.ext
        refine ⟨x, hx, hxx'.trans hr'.ext, hr'.under, hr'.nodup, hr'.inv, hr'.noconf, ?_, ?_⟩
        · intro hnil
          have hk := hr'.kids hnil
          rw [embKids]
          have hroot : dictGet (pp ++ [i]) m.mappings = some (sp ++ [c.1]) := hrm.maps _ _ (embAt_root hgr.emb)
          rw [hroot]
          simp only [List.getLast?_append, List.getLast?_singleton, Option.some_or]
          have hsj' : s.kids[c.1]? = some sj := by simpa using hsj
          simp only [hsj', if_true, Bool.and_eq_true, decide_eq_true_eq]
          refine ⟨⟨⟨trivial, hge⟩, embAt_mono hrm _ _ _ _ hgr.emb⟩, ?_⟩
          rw [embKids_used_irrel m pp sp s rest (i + 1) (c.1 + 1) [c.1] []]
          rw [← e3]; exact hk
        · intro kv hkv
          rcases hr'.exps kv hkv with h | h
          · rw [e1] at h
            rcases mem_exps_merged h with h | h
            · exact Or.inl h
            · right
              rw [expSomewhereL]
              simp only [Bool.or_eq_true]
              exact Or.inl (expSomewhere_mono hrm _ _ _ _ (hgr.exps kv h))
          · right; rw [expSomewhereL]; simp [h]

/-! ### the main induction -/

theorem opLeavesL_mem {ks : List T} (h : opLeavesL ks = true) : ∀ c ∈ ks, opLeaves c = true := by
  induction ks with
  | nil => intro c hc; cases hc
  | cons t ts ih =>
    rw [opLeavesL] at h
    simp only [Bool.and_eq_true] at h
    intro c hc
    cases hc with
    | head => exact h.1
    | tail _ hc' => exact ih h.2 c hc'

theorem opLeaves_kids {k f : String} {fl : List Fld} {kids : List T} (h : opLeaves (.mk k f fl kids) = true) :
    ∀ c ∈ kids, opLeaves c = true := by
  rw [opLeaves] at h
  simp only [Bool.and_eq_true] at h
  exact opLeavesL_mem h.2

theorem opLeaves_leaf {t : T} (h : opLeaves t = true) (hk : t.kind = "Add" ∨ t.kind = "Mult") : t.kids = [] := by
  cases t with
  | mk k f fl kids =>
    rw [opLeaves] at h
    simp only [Bool.and_eq_true, Bool.or_eq_true, Bool.not_eq_true', decide_eq_true_eq] at h
    simp only [T.kind_mk] at hk
    rcases h.1 with h1 | h1
    · simp only [Bool.or_eq_false_iff, decide_eq_false_iff_not] at h1
      rcases hk with hk | hk
      · exact absurd hk h1.1
      · exact absurd hk h1.2
    · simpa using h1

theorem good_pairMap_wild {pp sp : Path} {p s : T} (hr : role p = .wildcard) : Good (pairMap pp sp) pp p sp s := by
  refine ⟨?_, by simp [keysOf, pairMap], ?_, ?_, confInv_pairMap _ _, rfl⟩
  · intro k hk; simp only [keysOf, pairMap, List.map_cons, List.map_nil, List.mem_singleton] at hk
    rw [hk]; exact List.prefix_refl _
  · cases p with
    | mk k f fl ks =>
      rw [embAt]; simp [hr, pairMap, dictGet]
  · intro kv hkv; simp [pairMap] at hkv

theorem good_expMap {pp sp : Path} {p s : T} {name : String} (hr : role p = .expPh name) :
    Good (expMap pp sp name) pp p sp s := by
  refine ⟨?_, by simp [keysOf, expMap, pairMap], ?_, ?_, confInv_of_no_binds rfl rfl, rfl⟩
  · intro k hk; simp only [keysOf, expMap, pairMap, List.map_cons, List.map_nil, List.mem_singleton] at hk
    rw [hk]; exact List.prefix_refl _
  · cases p with
    | mk k f fl ks =>
      rw [embAt]; simp [hr, expMap, pairMap, dictGet]
  · intro kv hkv
    simp only [expMap, List.mem_singleton] at hkv
    subst hkv
    cases p with
    | mk k f fl ks =>
      rw [expSomewhere]; simp [hr, expMap, pairMap, dictGet]

theorem good_generic {cm : Bool} {pf : String} {ig : List String} {pp sp : Path} {k f : String} {fl : List Fld}
    {kids : List T} {s : T} {b : AstMap}
    (hpre : deepPre cm pf pp (.mk k f fl kids) sp s = .generic ig)
    (hsh : shallowMatch cm pf pp (.mk k f fl kids) sp s = some b)
    (hIH : ∀ c ∈ kids, ∀ cm pf pp sp s, ∀ m ∈ deep cm pf pp c sp s, Good m pp c sp s) :
    ∀ m ∈ deepKids cm ig pp 0 kids sp s [(b, 0)] 0, Good m pp (.mk k f fl kids) sp s := by
  intro m hm
  have sg := shallowMatch_good hsh
  obtain ⟨hig, hflex, hexp⟩ := deepPre_generic hpre
  have hst : ∀ x ∈ [(b, 0)], StGood x.1 pp 0 := by
    intro x hx
    simp only [List.mem_singleton] at hx
    subst hx
    refine ⟨?_, by simp [keysOf, sg.maps], sg.inv, sg.noconf⟩
    intro k hk
    simp only [keysOf, sg.maps, List.map_cons, List.map_nil, List.mem_singleton] at hk
    exact Or.inl hk
  obtain ⟨x, hx, hr⟩ := deepKids_good cm ig pp sp s kids hIH 0 [(b, 0)] 0 hst m hm
  simp only [List.mem_singleton] at hx
  subst hx
  have hroot : dictGet pp m.mappings = some sp := by
    apply hr.ext.maps
    simp [sg.maps, dictGet]
  refine ⟨hr.under, hr.nodup, ?_, ?_, hr.inv, hr.noconf⟩
  · rw [embAt]
    simp only [hroot, decide_true, Bool.true_and]
    cases hrole : role (T.mk k f fl kids) with
    | wildcard => rfl
    | expPh key =>
      simp only
      have hk := hexp key hrole
      exact hr.ext.exps _ (sg.expKey key hrole hk)
    | wrapper =>
      simp only
      have hnn : (T.mk k f fl kids).kind ≠ "Name" := by
        intro hk
        simp only [role, hk] at hrole
        simp only [show ("Name" : String) ≠ "Pass" from by decide, if_false, if_true] at hrole
        cases hc : nameClass ((T.mk k f fl kids).strAttr "id") <;> simp [hc] at hrole
      rcases hig with hig | ⟨_, hk⟩
      · exact hr.kids hig
      · exact absurd hk hnn
    | concrete =>
      simp only [Bool.and_eq_true, Bool.or_eq_true, decide_eq_true_eq]
      refine ⟨nodeOk_mono hr.ext (sg.node hrole), ?_⟩
      rcases hig with hig | ⟨_, hk⟩
      · right
        rw [hflex]
        exact hr.kids hig
      · left; exact hk
  · intro kv hkv
    rw [expSomewhere]
    simp only [Bool.or_eq_true, Bool.and_eq_true, decide_eq_true_eq]
    rcases hr.exps kv hkv with h | h
    · obtain ⟨h1, h2, _⟩ := sg.exps kv h
      left
      exact ⟨h1, by rw [h2]; exact hroot⟩
    · exact Or.inr h

theorem good_binflex {pp sp : Path} {k f : String} {fl : List Fld} {l op r : T} {s sop sjl sjr : T}
    {b o lm rm m : AstMap} {jl jr : Nat} {cm : Bool} {pf pfo : String}
    (hkind : k = "BinOp") (hflex : flexOp (.mk k f fl [l, op, r]) = true)
    (hopk : op.kind = "Add" ∨ op.kind = "Mult") (hleaf : op.kids = [])
    (hb : ShallowGood b cm pf pp (.mk k f fl [l, op, r]) sp s)
    (ho : ShallowGood o true pfo (pp ++ [1]) op (sp ++ [1]) sop)
    (hs1 : s.kids[1]? = some sop) (hsl : s.kids[jl]? = some sjl) (hsr : s.kids[jr]? = some sjr)
    (hj : jl ≠ jr ∧ jl ≠ 1 ∧ jr ≠ 1)
    (hl : Good lm (pp ++ [0]) l (sp ++ [jl]) sjl) (hr : Good rm (pp ++ [2]) r (sp ++ [jr]) sjr)
    (hm : m = ((b.merged o).merged lm).merged rm) (hc : m.hasConflicts = false) :
    Good m pp (.mk k f fl [l, op, r]) sp s := by
  have hrole : role (T.mk k f fl [l, op, r]) = .concrete := by subst hkind; simp [role]
  have hopn : op.kind ≠ "Name" := by rcases hopk with h | h <;> rw [h] <;> decide
  have hoprole : role op = .concrete := by
    rcases hopk with h | h <;> simp [role, h]
  -- keys
  have kb : ∀ x ∈ keysOf b.mappings, x = pp := by
    intro x hx; simpa [keysOf, hb.maps] using hx
  have ko : ∀ x ∈ keysOf o.mappings, x = pp ++ [1] := by
    intro x hx; simpa [keysOf, ho.maps] using hx
  have k1 : ∀ x ∈ keysOf (b.merged o).mappings, x = pp ∨ x = pp ++ [1] := by
    intro x hx
    rcases keys_merged hx with h | h
    · exact Or.inl (kb x h)
    · exact Or.inr (ko x h)
  have k2 : ∀ x ∈ keysOf ((b.merged o).merged lm).mappings, x = pp ∨ x = pp ++ [1] ∨ (pp ++ [0]) <+: x := by
    intro x hx
    rcases keys_merged hx with h | h
    · rcases k1 x h with h | h
      · exact Or.inl h
      · exact Or.inr (Or.inl h)
    · exact Or.inr (Or.inr (hl.under x h))
  have e_b1 : Ext b (b.merged o) := by
    apply ext_merged_left
    intro x hx hx2
    rw [ko x hx] at hx2
    have := kb _ hx2
    have h2 := congrArg List.length this
    simp at h2
  have e_o1 : Ext o (b.merged o) := ext_merged_right (by simp [keysOf, ho.maps])
  have e_12 : Ext (b.merged o) ((b.merged o).merged lm) := by
    apply ext_merged_left
    intro x hx hx2
    have hp := hl.under x hx
    rcases k1 x hx2 with h | h
    · rw [h] at hp; exact not_snoc_prefix_self _ _ hp
    · rw [h] at hp
      have := prefix_snoc_inj hp (List.prefix_refl _)
      omega
  have e_l2 : Ext lm ((b.merged o).merged lm) := ext_merged_right hl.nodup
  have e_2m : Ext ((b.merged o).merged lm) m := by
    rw [hm]
    apply ext_merged_left
    intro x hx hx2
    have hp := hr.under x hx
    rcases k2 x hx2 with h | h | h
    · rw [h] at hp; exact not_snoc_prefix_self _ _ hp
    · rw [h] at hp
      have := prefix_snoc_inj hp (List.prefix_refl _)
      omega
    · have := prefix_snoc_inj hp h
      omega
  have e_rm : Ext rm m := by rw [hm]; exact ext_merged_right hr.nodup
  have e_bm : Ext b m := e_b1.trans (e_12.trans e_2m)
  have e_om : Ext o m := e_o1.trans (e_12.trans e_2m)
  have e_lm : Ext lm m := e_l2.trans e_2m
  have hroot : dictGet pp m.mappings = some sp := by
    apply e_bm.maps; simp [hb.maps, dictGet]
  have hrootl : dictGet (pp ++ [0]) m.mappings = some (sp ++ [jl]) := e_lm.maps _ _ (embAt_root hl.emb)
  have hrooto : dictGet (pp ++ [1]) m.mappings = some (sp ++ [1]) := by
    apply e_om.maps; simp [ho.maps, dictGet]
  have hrootr : dictGet (pp ++ [2]) m.mappings = some (sp ++ [jr]) := e_rm.maps _ _ (embAt_root hr.emb)
  have hopemb : embAt m (pp ++ [1]) op (sp ++ [1]) sop = true := by
    cases op with
    | mk ok of ofl oks =>
      simp only [T.kids_mk] at hleaf
      subst hleaf
      rw [embAt]
      simp only [hrooto, hoprole, decide_true, Bool.true_and, Bool.and_eq_true, Bool.or_eq_true,
        decide_eq_true_eq]
      refine ⟨nodeOk_mono e_om (ho.node hoprole), Or.inr ?_⟩
      rw [embKids]
  refine ⟨?_, ?_, ?_, ?_, ?_, noconf_of_hasConflicts hc⟩
  · -- all keys under pp
    intro x hx
    rw [hm] at hx
    rcases keys_merged hx with h | h
    · rcases k2 x h with h | h | h
      · rw [h]; exact List.prefix_refl _
      · rw [h]; exact List.prefix_append _ _
      · exact prefix_of_snoc_prefix h
    · exact prefix_of_snoc_prefix (hr.under x h)
  · rw [hm]
    exact nodup_merged (nodup_merged (nodup_merged (by simp [keysOf, hb.maps])))
  · rw [embAt]
    simp only [hroot, hrole, decide_true, Bool.true_and, Bool.and_eq_true, Bool.or_eq_true,
      decide_eq_true_eq]
    refine ⟨nodeOk_mono e_bm (hb.node hrole), Or.inr ?_⟩
    rw [hflex]
    simp only [Bool.not_true]
    rw [embKids]
    simp only [hrootl, List.getLast?_append, List.getLast?_singleton, Option.some_or, hsl,
      Bool.and_eq_true, decide_eq_true_eq]
    refine ⟨⟨⟨trivial, by simp⟩, embAt_mono e_lm _ _ _ _ hl.emb⟩, ?_⟩
    rw [embKids]
    simp only [Nat.zero_add, hrooto, List.getLast?_append, List.getLast?_singleton, Option.some_or, hs1,
      Bool.and_eq_true, decide_eq_true_eq]
    refine ⟨⟨⟨trivial, by simp [Ne.symm hj.2.1]⟩, hopemb⟩, ?_⟩
    rw [embKids]
    simp only [hrootr, List.getLast?_append, List.getLast?_singleton, Option.some_or, hsr,
      Bool.and_eq_true, decide_eq_true_eq]
    refine ⟨⟨⟨trivial, by simp [hj.2.2, Ne.symm hj.1]⟩, embAt_mono e_rm _ _ _ _ hr.emb⟩, ?_⟩
    rw [embKids]
  · intro kv hkv
    rw [expSomewhere]
    simp only [Bool.or_eq_true]
    right
    rw [hm] at hkv
    rcases mem_exps_merged hkv with h | h
    · rcases mem_exps_merged h with h | h
      · rcases mem_exps_merged h with h | h
        · have := (hb.exps kv h).1
          rw [hrole] at this; cases this
        · exact absurd (ho.exps kv h).2.2 hopn
      · rw [expSomewhereL]
        simp only [Bool.or_eq_true]
        exact Or.inl (expSomewhere_mono e_lm _ _ _ _ (hl.exps kv h))
    · rw [expSomewhereL, expSomewhereL, expSomewhereL]
      simp only [Bool.or_eq_true]
      exact Or.inr (Or.inr (Or.inl (expSomewhere_mono e_rm _ _ _ _ (hr.exps kv h))))
  · rw [hm]; exact confInv_merged _ _

theorem kidKind_one (l op r : T) : kidKind [l, op, r] 1 = op.kind := by
  simp [kidKind]

/-- **Core of C10**: every map `deep_find_match` returns embeds the pattern node at the student node. -/
theorem deep_good : ∀ (p : T), opLeaves p = true → ∀ (cm : Bool) (pf : String) (pp sp : Path) (s : T),
    ∀ m ∈ deep cm pf pp p sp s, Good m pp p sp s := by
  intro p
  induction p using T.induct' with
  | h k f fl kids ih =>
    intro hop cm pf pp sp s m hm
    have hIH : ∀ c ∈ kids, ∀ cm pf pp sp s, ∀ m ∈ deep cm pf pp c sp s, Good m pp c sp s :=
      fun c hc => ih c hc (opLeaves_kids hop c hc)
    rw [deep.eq_def] at hm
    simp only at hm
    cases hpre : deepPre cm pf pp (T.mk k f fl kids) sp s with
    | done r =>
      simp only [hpre] at hm
      rcases deepPre_done hpre m hm with ⟨rfl, hr⟩ | ⟨name, rfl, hr⟩
      · exact good_pairMap_wild hr
      · exact good_expMap hr
    | generic ig =>
      simp only [hpre] at hm
      cases hsh : shallowMatch cm pf pp (T.mk k f fl kids) sp s with
      | none => simp [hsh] at hm
      | some b =>
        simp only [hsh] at hm
        exact good_generic hpre hsh hIH m hm
    | binflex =>
      simp only [hpre] at hm
      obtain ⟨hkind, hflex⟩ := deepPre_binflex hpre
      simp only [T.kind_mk] at hkind
      match kids, hIH, hop, hpre, hflex, hm with
      | [l, op, r], hIH, hop, hpre, hflex, hm =>
        simp only at hm
        cases hsh : shallowMatch false pf pp (T.mk k f fl [l, op, r]) sp s with
        | none => simp [hsh] at hm
        | some b =>
          simp only [hsh] at hm
          have hopk : op.kind = "Add" ∨ op.kind = "Mult" := by
            simp only [flexOp, T.kids_mk, kidKind_one, Bool.and_eq_true, Bool.or_eq_true,
              decide_eq_true_eq] at hflex
            rcases hflex.2 with h | h
            · exact Or.inr h
            · exact Or.inl h
          have hleaf : op.kids = [] :=
            opLeaves_leaf (opLeaves_kids hop op (by simp)) hopk
          match hsk : s.kids, hm with
          | [sl, sop, sr], hm =>
            simp only at hm
            cases hso : shallowMatch true op.field (pp ++ [1]) op (sp ++ [1]) sop with
            | none => simp [hso] at hm
            | some o =>
              simp only [hso] at hm
              have sgb := shallowMatch_good hsh
              have sgo := shallowMatch_good hso
              rw [List.mem_append] at hm
              rcases hm with hm | hm
              · obtain ⟨lm, hlm, rm, hrm, e, hc⟩ := binflexHelper_mem hm
                exact good_binflex (jl := 0) (jr := 2) hkind hflex hopk hleaf sgb sgo
                  (by rw [hsk]; rfl) (by rw [hsk]; rfl) (by rw [hsk]; rfl) (by decide)
                  (hIH l (by simp) _ _ _ _ _ lm hlm) (hIH r (by simp) _ _ _ _ _ rm hrm) e hc
              · obtain ⟨lm, hlm, rm, hrm, e, hc⟩ := binflexHelper_mem hm
                exact good_binflex (jl := 2) (jr := 0) hkind hflex hopk hleaf sgb sgo
                  (by rw [hsk]; rfl) (by rw [hsk]; rfl) (by rw [hsk]; rfl) (by decide)
                  (hIH l (by simp) _ _ _ _ _ lm hlm) (hIH r (by simp) _ _ _ _ _ rm hrm) e hc
          | [], hm => simp at hm
          | [_], hm => simp at hm
          | [_, _], hm => simp at hm
          | _ :: _ :: _ :: _ :: _, hm => simp at hm
      | [], _, _, _, _, hm => simp at hm
      | [_], _, _, _, _, hm => simp at hm
      | [_, _], _, _, _, _, hm => simp at hm
      | _ :: _ :: _ :: _ :: _, _, _, _, _, hm => simp at hm

end Pedal.Cait

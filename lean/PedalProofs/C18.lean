import PedalModel.TifaWrapper
/-
C18 — TIFA analyses every parsable program, deterministically and idempotently.

Proved here: the wrapper (`process_code`), the cache (`tifa_analysis`), the node dispatch and the builtin
function/method table, for ANY behaviour `inner` of the parser + visitor.  "The visitor completes on the
introductory subset" is not a theorem (the visitor is the parameter); it is sampled by the harness.
-/
namespace Pedal.TifaWrapper
open Pedal.Gen.Tifa

/-! ### never raises -/

theorem processCode_contained {inner : Code → Inner} (h : Contained inner) (offset : Nat) (code : Code) :
    ∃ a fbs, processCode inner offset code = .ok (a, fbs) ∧
      (match inner code with
       | .ok _ => a.success = true ∧ (fbs.filter Fb.isSystem) = []
       | _ => a.success = false ∧ (fbs.filter Fb.isSystem).length = 1) := by
  have hc := h code
  unfold processCode
  cases hi : inner code with
  | ok raw =>
    refine ⟨_, _, rfl, rfl, ?_⟩
    simp [List.filter_map, Fb.isSystem, Function.comp_def]
  | parseFail e =>
    rw [hi] at hc
    simp only at hc
    refine ⟨⟨false, some e.cls, []⟩, [.system ("Could not parse code: " ++ e.cls)], ?_, rfl, ?_⟩
    · simp [hc.1, hc.2]
    · rfl
  | visitFail e raw =>
    rw [hi] at hc
    simp only at hc
    refine ⟨⟨false, some e.cls, raw.map (locate offset)⟩,
      (raw.map (locate offset)).map Fb.issue ++ [.system ("Successfully parsed but could not process AST: " ++ e.cls)],
      ?_, rfl, ?_⟩
    · simp [hc.1, hc.2]
    · have h0 : List.filter (fun _ : RawIssue => false) raw = [] := by simp
      simp [List.filter_append, List.filter_map, Fb.isSystem, Function.comp_def, h0]
      rfl

/-- C18 "returns a result instead of raising": whatever `Exception` the parser or the visitor raises on
    a code string (with a printable message), `tifa_analysis` returns; when the code was not analysed
    before and an inner step failed, the result has `success = False` and exactly ONE system feedback was
    added to the report; when nothing failed, `success = True` and no system feedback. -/
theorem c18_never_raises {inner : Code → Inner} (h : Contained inner) (r : Report) (code : Code) :
    ∃ a r', tifaAnalysis inner r code = .ok (a, r') ∧
      (lookup code r.analyses = none →
        ∃ fbs, r'.feedback = r.feedback ++ fbs ∧
          (match inner code with
           | .ok _ => a.success = true ∧ fbs.filter Fb.isSystem = []
           | _ => a.success = false ∧ (fbs.filter Fb.isSystem).length = 1)) := by
  unfold tifaAnalysis
  cases hl : lookup code r.analyses with
  | some a => exact ⟨a, r, rfl, fun hn => by cases hn⟩
  | none =>
    obtain ⟨a, fbs, hp, hq⟩ := processCode_contained h r.offset code
    refine ⟨a, _, by simp [hp]; rfl, fun _ => ⟨fbs, rfl, hq⟩⟩

/-- The hypothesis is needed: a `BaseException` that is not an `Exception` escapes. -/
theorem c18_non_exception_escapes (e : Exc) (he : e.isException = false) (r : Report) (code : Code)
    (hl : lookup code r.analyses = none) :
    tifaAnalysis (fun _ => .visitFail e []) r code = .error e := by
  simp [tifaAnalysis, hl, processCode, he]

/-! ### idempotence -/

theorem lookup_after {inner : Code → Inner} {r r' : Report} {code : Code} {a : Analysis}
    (h : tifaAnalysis inner r code = .ok (a, r')) : lookup code r'.analyses = some a := by
  unfold tifaAnalysis at h
  cases hl : lookup code r.analyses with
  | some b =>
    simp [hl] at h
    obtain ⟨rfl, rfl⟩ := h
    exact hl
  | none =>
    simp only [hl] at h
    cases hp : processCode inner r.offset code with
    | error e => simp [hp] at h
    | ok p =>
      obtain ⟨b, fbs⟩ := p
      simp [hp] at h
      obtain ⟨rfl, rfl⟩ := h
      simp [lookup]

theorem cached_call {inner : Code → Inner} {r : Report} {code : Code} {a : Analysis}
    (h : lookup code r.analyses = some a) : tifaAnalysis inner r code = .ok (a, r) := by
  simp [tifaAnalysis, h]

/-- C18 "analysing the same code again yields the same issues and attaches no additional feedback",
    for ANY repetition count: after one call returned `a` and left the report `r1`, `n` further calls all
    return `a` (the same labels, lines, success flag) and leave the report exactly `r1`. -/
theorem c18_idempotent {inner : Code → Inner} {r r1 : Report} {code : Code} {a : Analysis}
    (h : tifaAnalysis inner r code = .ok (a, r1)) (n : Nat) :
    repeatAnalysis inner code n r1 = .ok (List.replicate n a, r1) := by
  have hc := cached_call (inner := inner) (lookup_after h)
  induction n with
  | zero => rfl
  | succ n ih => simp [repeatAnalysis, hc, ih, List.replicate_succ]

/-- A call never changes what the cache holds for an already analysed code … -/
theorem lookup_preserved {inner : Code → Inner} {r r' : Report} {c code : Code} {a b : Analysis}
    (hl : lookup code r.analyses = some a) (h : tifaAnalysis inner r c = .ok (b, r')) :
    lookup code r'.analyses = some a := by
  unfold tifaAnalysis at h
  cases hc : lookup c r.analyses with
  | some x =>
    simp [hc] at h
    obtain ⟨_, rfl⟩ := h
    exact hl
  | none =>
    simp only [hc] at h
    cases hp : processCode inner r.offset c with
    | error e => simp [hp] at h
    | ok p =>
      obtain ⟨b', fbs⟩ := p
      simp [hp] at h
      obtain ⟨_, rfl⟩ := h
      have hne : ¬ c = code := by
        intro e; subst e; rw [hl] at hc; cases hc
      simp [lookup, hne, hl]

/-- … so after ANY history of analyses of other (or the same) programs on this report, analysing the code
    again still returns the first result and adds nothing. -/
theorem c18_idempotent_after_history {inner : Code → Inner} {code : Code} {a : Analysis} (cs : List Code) :
    ∀ {r r' : Report}, lookup code r.analyses = some a → runHistory inner cs r = .ok r' →
      tifaAnalysis inner r' code = .ok (a, r') := by
  induction cs with
  | nil =>
    intro r r' hl h
    simp [runHistory] at h
    subst h
    exact cached_call hl
  | cons c cs ih =>
    intro r r' hl h
    simp only [runHistory] at h
    cases hc : tifaAnalysis inner r c with
    | error e => simp [hc] at h
    | ok p =>
      obtain ⟨b, r1⟩ := p
      simp only [hc] at h
      exact ih (lookup_preserved hl hc) h

/-! ### line bounds -/

/-- C18 "every issue's line lies within the analysed source": given that the parser numbers nodes
    `1 … nlines` and that issues are located at AST nodes, every line of a returned issue is within
    `offset + 1 … offset + nlines` (offset = the submission's line offset, 0 for a plain file). -/
theorem tifaAnalysis_uncached {inner : Code → Inner} {r r' : Report} {code : Code} {a : Analysis}
    (hl : lookup code r.analyses = none) (h : tifaAnalysis inner r code = .ok (a, r')) :
    ∃ fbs, processCode inner r.offset code = .ok (a, fbs) := by
  unfold tifaAnalysis at h
  simp only [hl] at h
  cases hp : processCode inner r.offset code with
  | error e => simp [hp] at h
  | ok p =>
    obtain ⟨b, fbs⟩ := p
    simp [hp] at h
    exact ⟨fbs, by rw [h.1]⟩

theorem processCode_issue_origin {inner : Code → Inner} {offset : Nat} {code : Code} {a : Analysis} {fbs : List Fb}
    (h : processCode inner offset code = .ok (a, fbs)) :
    ∀ i ∈ a.issues, ∃ raw, (inner code = .ok raw ∨ ∃ e, inner code = .visitFail e raw) ∧
      ∃ j ∈ raw, i = locate offset j := by
  unfold processCode at h
  intro i hi
  cases hin : inner code with
  | ok raw =>
    simp [hin] at h
    obtain ⟨rfl, _⟩ := h
    obtain ⟨j, hj, rfl⟩ := List.mem_map.1 hi
    exact ⟨raw, Or.inl rfl, j, hj, rfl⟩
  | parseFail e =>
    simp only [hin] at h
    by_cases h1 : (!e.isException) = true
    · simp [h1] at h
    · by_cases h2 : e.strRaises = true
      · simp [h1, h2] at h
      · simp [h1, h2] at h
        obtain ⟨rfl, _⟩ := h
        simp at hi
  | visitFail e raw =>
    simp only [hin] at h
    by_cases h1 : (!e.isException) = true
    · simp [h1] at h
    · by_cases h2 : e.strRaises = true
      · simp [h1, h2] at h
      · simp [h1, h2] at h
        obtain ⟨rfl, _⟩ := h
        obtain ⟨j, hj, rfl⟩ := List.mem_map.1 hi
        exact ⟨raw, Or.inr ⟨e, rfl⟩, j, hj, rfl⟩

/-- C18 "every issue's line lies within the analysed source": given that the parser numbers nodes
    `1 … nlines` and that issues are located at AST nodes, every line of a returned issue is within
    `offset + 1 … offset + nlines` (offset = the submission's line offset, 0 for a plain file). -/
theorem c18_lines_within_source {inner : Code → Inner} (nlines : Nat) {r r' : Report} {code : Code} {a : Analysis}
    (hnode : ∀ raw, (inner code = .ok raw ∨ ∃ e, inner code = .visitFail e raw) →
        ∀ i ∈ raw, 1 ≤ i.nodeLine ∧ i.nodeLine ≤ nlines)
    (hl : lookup code r.analyses = none)
    (h : tifaAnalysis inner r code = .ok (a, r')) :
    ∀ i ∈ a.issues, r.offset + 1 ≤ i.line ∧ i.line ≤ r.offset + nlines := by
  obtain ⟨fbs, hp⟩ := tifaAnalysis_uncached hl h
  intro i hi
  obtain ⟨raw, horigin, j, hj, rfl⟩ := processCode_issue_origin hp i hi
  have := hnode raw horigin j hj
  simp only [locate]
  omega

/-! ### dispatch -/

/-- With a `generic_visit` fallback no node class can make `visit` fail to find a handler. -/
theorem dispatchWith_total (methods : List String) (cls : String) :
    (dispatchWith methods true cls).isSome = true := by
  unfold dispatchWith
  split <;> simp

/-- C18 dispatch: every concrete node class of the running interpreter's `ast` module (generated) has a
    handler in the generated method set of `Tifa` - its own `visit_<Class>` or `generic_visit`. -/
theorem c18_dispatch_total : ∀ c ∈ nodeClasses, (dispatch c.1).isSome = true := by
  have hg : hasGenericVisit = true := by decide
  intro c _
  unfold dispatch
  rw [hg]
  exact dispatchWith_total _ _

/-! ### builtin table -/

/-- C18 builtin table: for EVERY generated row of the builtin function table, the documented
    str/list/dict/int/float/bool/num/set/tuple/file method tables and the builtin modules, the model of
    `FunctionType.__init__` yields a definition `visit_Call` can call (a given `definition` is a callable
    with TIFA's six arguments; otherwise `returns` is None / 'void' / 'identity' / 'element' / a
    zero-argument callable). -/
theorem c18_builtin_table_callable : ∀ row ∈ builtinRows, row.usable = true := by
  have h : builtinRows.all Row.usable = true := by decide +kernel
  exact fun row hrow => List.all_eq_true.1 h row hrow

-- the derivation is not vacuous: the three shapes of defect it rejects
example : (Row.mk "builtins" "sorted" .str .none).usable = false := by decide
example : (Row.mk "builtins" "__import__" .none .needsArgs).usable = false := by decide
example : (Row.mk "IntType" "bit_length" .wrongArity .none).usable = false := by decide
example : (Row.mk "builtins" "max" .none .element).usable = true := by decide

/-! ### determinism across analyses: no attribute store reaches process-wide state -/

theorem addAttr_of_not_writes {row : TypeClassRow} (h : row.owner.writesClassLevel = false) (f : String)
    (cf : ClassFields) : addAttr row f cf = cf := by
  simp [addAttr, h]

theorem typeClassRows_own : ∀ row ∈ typeClassRows, row.owner.writesClassLevel = false := by
  have h : typeClassRows.all (fun r => !r.owner.writesClassLevel) = true := by decide
  intro row hrow
  have := List.all_eq_true.1 h row hrow
  simpa using this

/-- For EVERY sequence of attribute stores on instances of the (generated) Type classes, the class-level
    `fields` dictionaries are what they were: no analysis can leave anything behind through `add_attr`. -/
theorem c18_class_fields_stable (ops : List (TypeClassRow × String)) :
    (∀ op ∈ ops, op.1 ∈ typeClassRows) → ∀ cf, runStores ops cf = cf := by
  induction ops with
  | nil => intro _ cf; rfl
  | cons op ops ih =>
    intro h cf
    obtain ⟨row, f⟩ := op
    have hrow : row ∈ typeClassRows := h (row, f) (List.mem_cons_self ..)
    simp only [runStores]
    rw [addAttr_of_not_writes (typeClassRows_own row hrow)]
    exact ih (fun op hop => h op (List.mem_cons_of_mem _ hop)) cf

theorem afterHistory_stable (v : StatefulVisitor)
    (hv : ∀ cf code, ∀ op ∈ (v.run cf code).2, op.1 ∈ typeClassRows) (history : List Code) :
    ∀ cf, afterHistory v history cf = cf := by
  induction history with
  | nil => intro cf; rfl
  | cons c cs ih =>
    intro cf
    simp only [afterHistory, analyseWith]
    rw [c18_class_fields_stable _ (hv cf c) cf]
    exact ih cf

/-- C18 "deterministically": whatever the visitor reads from the class-level dictionaries, and whatever
    programs the same process analysed before (ANY history), a program's analysis is the analysis it gets
    in a new process - as long as the visitor's attribute stores are on instances of the generated Type
    classes (every one of which owns its `fields`). -/
theorem c18_deterministic_across_analyses (v : StatefulVisitor)
    (hv : ∀ cf code, ∀ op ∈ (v.run cf code).2, op.1 ∈ typeClassRows)
    (cf0 : ClassFields) (history : List Code) (code : Code) :
    (analyseWith v (afterHistory v history cf0) code).1 = (analyseWith v cf0 code).1 := by
  rw [afterHistory_stable v hv history cf0]

/-- The table hypothesis is what carries the theorem: with ONE class whose instances share the class-level
    dictionary (the pinned tree's `LiteralStr`), a visitor that reads what it stored differs on the second run. -/
theorem c18_shared_fields_counterexample :
    ∃ (v : StatefulVisitor) (cf0 : ClassFields) (code : Code),
      (analyseWith v (afterHistory v [code] cf0) code).1 ≠ (analyseWith v cf0 code).1 := by
  refine ⟨⟨fun cf _ => (if cf = [("LiteralStr", [])] then .ok [⟨"incompatible_types", 2⟩] else .ok [],
                        [(⟨"LiteralStr", .classLevel⟩, "tag")])⟩, [("LiteralStr", [])], "name.tag += '!'", ?_⟩
  simp [analyseWith, afterHistory, runStores, addAttr, FieldsOwner.writesClassLevel, insertField]

-- non-vacuity: the generated table is not empty and contains the literal classes
example : (typeClassRows.find? (·.name = "LiteralStr")).isSome = true := by decide

-- non-vacuity of `Contained` and of the idempotence premise
example : Contained (fun _ => .visitFail ⟨"RecursionError", true, false⟩ []) := by
  intro c; exact ⟨rfl, rfl⟩

end Pedal.TifaWrapper

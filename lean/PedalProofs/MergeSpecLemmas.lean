import PedalModel.ResolverSpec
/-
`merge_eq_spec`: the hand-written resolver model's `merge` (which the C01-C03 theorems are stated about) is
the effect reading `mergeTailSpec` applied effect by effect.  Proved once; does not depend on the tree under
test (the generated program is compared with `mergeTailSpec` in MergeIRLemmas.lean).
-/
namespace Pedal.Resolver
open Pedal.Gen.Resolver Pedal.MergeIR

/-- The hand model's `merge` is the hand-written reading applied effect by effect. -/
theorem merge_eq_spec (sups : List Sup) (st : Final) (f : Fb) :
    merge sups st f =
      if suppressed sups f then st else (mergeTailSpec (obsOf st f)).foldl (applyEffect f) st := by
  unfold merge
  by_cases hs : suppressed sups f = true
  · simp [hs]
  · simp only [hs, Bool.false_eq_true, if_false]
    have hne : complimentKind ≠ instructionalKind := by decide
    by_cases hcat : f.category = some systemCategory <;>
    by_cases hk : f.kind = some complimentKind <;>
    by_cases hi : f.kind = some instructionalKind <;>
    first
    | (exfalso; rw [hk] at hi; exact hne (Option.some.inj hi))
    | (cases htr : f.triggered <;> cases hel : f.elseMsg <;> cases hmu : f.muted <;>
       cases hun : f.unscored <;> cases hsc : f.score <;> cases hmsg : f.message <;>
       cases hsm : st.message <;>
       simp [mergeTailSpec, obsOf, applyEffect, scored, invertLogic, kindTag, htr, hel, hmu, hun, hsc, hmsg, hsm,
             hcat, hk, hi, hne, Ne.symm hne])

end Pedal.Resolver

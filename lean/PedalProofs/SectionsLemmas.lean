import PedalModel.Sections
/-
Text lemmas for C17: `split("\n")`/join round trip, how line numbers compose under concatenation,
and what `splitGo` (the model of re.split) produces.
-/
namespace Pedal.Sections

theorem splitLines_ne_nil (t : Text) : splitLines t ≠ [] := by
  cases t with
  | nil => simp [splitLines]
  | cons c cs =>
    unfold splitLines
    split
    · simp
    · split <;> simp

theorem joinLines_splitLines (t : Text) : joinLines (splitLines t) = t := by
  induction t with
  | nil => rfl
  | cons c cs ih =>
    unfold splitLines
    split
    · rename_i h
      subst h
      have hne := splitLines_ne_nil cs
      cases hs : splitLines cs with
      | nil => exact absurd hs hne
      | cons l ls => rw [hs] at ih; simp [joinLines, ih]
    · have hne := splitLines_ne_nil cs
      cases hs : splitLines cs with
      | nil => exact absurd hs hne
      | cons l ls =>
        rw [hs] at ih
        cases ls with
        | nil => simp [joinLines] at ih ⊢; exact ih
        | cons l2 ls2 => simp [joinLines] at ih ⊢; exact ih

theorem length_splitLines (t : Text) : (splitLines t).length = countNL t + 1 := by
  induction t with
  | nil => rfl
  | cons c cs ih =>
    unfold splitLines countNL
    split
    · simp [ih]; omega
    · have hne := splitLines_ne_nil cs
      cases hs : splitLines cs with
      | nil => exact absurd hs hne
      | cons l ls => rw [hs] at ih; simp at ih ⊢; omega

theorem splitLines_cons_nl (cs : Text) : splitLines ('\n' :: cs) = [] :: splitLines cs := by
  simp [splitLines]

theorem splitLines_cons_ne (c : Char) (cs : Text) (h : c ≠ '\n') :
    splitLines (c :: cs) = ((splitLines cs).headD [] |>.cons c) :: (splitLines cs).tail := by
  have hne := splitLines_ne_nil cs
  rw [splitLines]
  simp only [h, ↓reduceIte]
  cases hs : splitLines cs with
  | nil => exact absurd hs hne
  | cons l ls => simp

/-- Splitting distributes over a newline boundary. -/
theorem splitLines_append_nl (x y : Text) : splitLines (x ++ '\n' :: y) = splitLines x ++ splitLines y := by
  induction x with
  | nil => simp [splitLines_cons_nl, splitLines]
  | cons c cs ih =>
    simp only [List.cons_append]
    by_cases hc : c = '\n'
    · subst hc
      rw [splitLines_cons_nl, splitLines_cons_nl, ih]; simp
    · rw [splitLines_cons_ne c _ hc, splitLines_cons_ne c _ hc, ih]
      have hne := splitLines_ne_nil cs
      cases hs : splitLines cs with
      | nil => exact absurd hs hne
      | cons l ls => simp

/-- Lines that are terminated inside `x` are not affected by what follows `x`. -/
theorem splitLines_append_prefix (x y : Text) (i : Nat) (h : i < countNL x) :
    (splitLines (x ++ y))[i]? = (splitLines x)[i]? := by
  induction x generalizing i with
  | nil => simp [countNL] at h
  | cons c cs ih =>
    simp only [List.cons_append]
    unfold splitLines
    by_cases hc : c = '\n'
    · simp only [hc, ↓reduceIte]
      cases i with
      | zero => rfl
      | succ j =>
        simp only [List.getElem?_cons_succ]
        apply ih
        simp [countNL, hc] at h
        omega
    · simp only [hc, ↓reduceIte]
      have h' : i < countNL cs := by simpa [countNL, hc] using h
      have hne1 := splitLines_ne_nil (cs ++ y)
      have hne2 := splitLines_ne_nil cs
      cases hs1 : splitLines (cs ++ y) with
      | nil => exact absurd hs1 hne1
      | cons l1 ls1 =>
        cases hs2 : splitLines cs with
        | nil => exact absurd hs2 hne2
        | cons l2 ls2 =>
          have := ih i h'
          rw [hs1, hs2] at this
          cases i with
          | zero =>
            -- line 0 of cs is terminated inside cs, so it is the same line; prepend c
            simp only [List.getElem?_cons_zero, Option.some.injEq] at this ⊢
            rw [this]
          | succ j => simpa using this

/-- Whole-file line numbers: if `b` starts a new line (begins with a newline) inside `a ++ b ++ c`,
    then line `r` of `b` (2 ≤ r, terminated inside `b`) is line `countNL a + r` of the whole text. -/
theorem lineAt_section (a b' c : Text) (r : Nat) (hr : 2 ≤ r) (hin : r ≤ countNL ('\n' :: b')) :
    lineAt (a ++ ('\n' :: b') ++ c) (countNL a + r) = lineAt ('\n' :: b') r := by
  obtain ⟨k, rfl⟩ : ∃ k, r = k + 2 := ⟨r - 2, by omega⟩
  have e1 : a ++ ('\n' :: b') ++ c = a ++ '\n' :: (b' ++ c) := by simp
  have hk : k < countNL b' := by simp [countNL] at hin; omega
  rw [e1]
  show (splitLines (a ++ '\n' :: (b' ++ c)))[countNL a + (k + 1)]? = (splitLines ('\n' :: b'))[k + 1]?
  rw [splitLines_append_nl]
  have hlen := length_splitLines a
  rw [List.getElem?_append_right (by omega)]
  have : countNL a + (k + 1) - (splitLines a).length = k := by omega
  rw [this, splitLines_append_prefix b' c k hk]
  simp [splitLines]

/-! ### splitGo -/

/-- Text still to come when at least one line has already been consumed. -/
def restText (lines : List (Text × Bool)) : Text := lines.flatMap fun l => '\n' :: l.1

theorem concat_splitGo_false (lines : List (Text × Bool)) (cur : Text) :
    concat (splitGo lines cur false) = cur ++ restText lines := by
  induction lines generalizing cur with
  | nil => simp [splitGo, concat, restText]
  | cons l ls ih =>
    obtain ⟨line, m⟩ := l
    unfold splitGo
    cases m
    · simp only [Bool.false_eq_true, ↓reduceIte]
      rw [ih]; simp [restText]
    · simp only [↓reduceIte]
      have := ih []
      simp only [concat, List.foldr_cons] at this ⊢
      rw [this]; simp [restText]

theorem joinLines_cons (l : Text) (ls : List Text) :
    joinLines (l :: ls) = l ++ ls.flatMap (fun x => '\n' :: x) := by
  induction ls generalizing l with
  | nil => simp [joinLines]
  | cons l2 ls ih => simp [joinLines, ih]

theorem concat_splitSections (lines : List (Text × Bool)) (h : lines ≠ []) :
    concat (splitSections lines) = joinLines (lines.map (·.1)) := by
  cases lines with
  | nil => exact absurd rfl h
  | cons l ls =>
    obtain ⟨line, m⟩ := l
    unfold splitSections splitGo
    rw [List.map_cons, joinLines_cons]
    cases m
    · simp only [Bool.false_eq_true, ↓reduceIte]
      rw [concat_splitGo_false]
      simp [restText, List.flatMap_map]
    · simp only [↓reduceIte]
      have := concat_splitGo_false ls []
      simp only [concat, List.foldr_cons] at this ⊢
      rw [this]
      simp [restText, List.flatMap_map]

theorem zipMarks_fst (lines : List Text) (marks : List Bool) : (zipMarks lines marks).map (·.1) = lines := by
  unfold zipMarks
  generalize hm : marks ++ List.replicate (lines.length - marks.length) false = ms
  have hlen : lines.length ≤ ms.length := by rw [← hm]; simp; omega
  clear hm
  induction lines generalizing ms with
  | nil => simp
  | cons l ls ih =>
    cases ms with
    | nil => simp at hlen
    | cons m ms =>
      simp only [List.length_cons, Nat.add_le_add_iff_right] at hlen
      simp only [List.zipWith_cons_cons, List.map_cons, List.cons.injEq, true_and]
      exact ih ms hlen

/-! ### splitGoNL (the group also captures the separator's newline) -/

theorem countNL_append_nl (a : Text) : countNL (a ++ ['\n']) = countNL a + 1 := by
  induction a with
  | nil => simp [countNL]
  | cons x xs ih =>
    show (if x = '\n' then 1 else 0) + countNL (xs ++ ['\n']) = (if x = '\n' then 1 else 0) + countNL xs + 1
    rw [ih]; omega

/-- Whole-file line numbers when the section starts at the beginning of a line: if `a` ends with a
    newline, line `r` of `b` (1 ≤ r, terminated inside `b`) is line `countNL a + r` of `a ++ b ++ c`. -/
theorem lineAt_section_at_line_start (a' b c : Text) (r : Nat) (hr : 1 ≤ r) (hin : r ≤ countNL b) :
    lineAt ((a' ++ ['\n']) ++ b ++ c) (countNL (a' ++ ['\n']) + r) = lineAt b r := by
  obtain ⟨k, rfl⟩ : ∃ k, r = k + 1 := ⟨r - 1, by omega⟩
  have e1 : (a' ++ ['\n']) ++ b ++ c = a' ++ '\n' :: (b ++ c) := by simp
  have hcnt := countNL_append_nl a'
  rw [e1, hcnt]
  show (splitLines (a' ++ '\n' :: (b ++ c)))[countNL a' + 1 + k]? = (splitLines b)[k]?
  rw [splitLines_append_nl]
  have hlen := length_splitLines a'
  rw [List.getElem?_append_right (by omega)]
  have : countNL a' + 1 + k - (splitLines a').length = k := by omega
  rw [this]
  exact splitLines_append_prefix b c k (by omega)

/-- The text the not-yet-consumed lines stand for. -/
def pendingText (lines : List (Text × Bool)) (first : Bool) : Text :=
  if first then joinLines (lines.map (·.1)) else restText lines

theorem restText_cons (l : Text × Bool) (ls : List (Text × Bool)) :
    restText (l :: ls) = '\n' :: l.1 ++ restText ls := by simp [restText]

theorem joinLines_map_cons (l : Text × Bool) (ls : List (Text × Bool)) :
    joinLines ((l :: ls).map (·.1)) = l.1 ++ restText ls := by
  rw [List.map_cons, joinLines_cons]; simp [restText, List.flatMap_map]

theorem concat_splitGoNL (lines : List (Text × Bool)) (cur : Text) (first : Bool) :
    concat (splitGoNL lines cur first) = cur ++ pendingText lines first := by
  induction lines generalizing cur first with
  | nil => cases first <;> simp [splitGoNL, concat, pendingText, restText, joinLines]
  | cons l ls ih =>
    obtain ⟨line, m⟩ := l
    have hpend : (if first then cur else cur ++ ['\n']) ++ line ++ restText ls =
        cur ++ pendingText ((line, m) :: ls) first := by
      cases first
      · simp [pendingText, restText_cons]
      · have h := joinLines_map_cons (line, m) ls
        simp only [pendingText, ↓reduceIte, h]
        simp
    unfold splitGoNL
    by_cases hm : (m && !ls.isEmpty) = true
    · simp only [hm, ↓reduceIte]
      have hne : ls ≠ [] := by
        intro h; simp [h] at hm
      have := ih [] true
      simp only [concat, List.foldr_cons] at this ⊢
      rw [this, ← hpend]
      obtain ⟨l2, ls2, rfl⟩ : ∃ l2 ls2, ls = l2 :: ls2 := by
        cases ls with
        | nil => exact absurd rfl hne
        | cons a b => exact ⟨a, b, rfl⟩
      have h := joinLines_map_cons l2 ls2
      simp only [pendingText, ↓reduceIte, h, restText_cons]
      simp
    · simp only [hm, Bool.false_eq_true, ↓reduceIte]
      rw [ih, ← hpend]
      simp [pendingText]

/-- In this mode every separator chunk ends with the newline it captured. -/
def sepsEndNL : List Text → Bool
  | [] => false
  | [_] => true
  | _ :: m :: rest => (m.getLast? == some '\n') && sepsEndNL rest

theorem sepsEndNL_splitGoNL (lines : List (Text × Bool)) (cur : Text) (first : Bool) :
    sepsEndNL (splitGoNL lines cur first) = true := by
  induction lines generalizing cur first with
  | nil => simp [splitGoNL, sepsEndNL]
  | cons l ls ih =>
    obtain ⟨line, m⟩ := l
    unfold splitGoNL
    by_cases hm : (m && !ls.isEmpty) = true
    · simp only [hm, ↓reduceIte, sepsEndNL, Bool.and_eq_true]
      exact ⟨by simp, ih [] true⟩
    · simp only [hm, Bool.false_eq_true, ↓reduceIte]
      exact ih _ false

end Pedal.Sections

import PedalModel.Sections
/-
Text lemmas for C17: `split("\n")`/join round trip, how line numbers compose under concatenation,
and what `splitGo` (the model of re.split) produces.
-/
namespace Pedal.Sections

theorem splitLines_ne_nil (t : Text) : splitLines t ≠ [] := by
  cases t with
  | nil => simp [splitLines]
  | cons c cs =>
    unfold splitLines
    split
    · simp
    · split <;> simp

theorem joinLines_splitLines (t : Text) : joinLines (splitLines t) = t := by
  induction t with
  | nil => rfl
  | cons c cs ih =>
    unfold splitLines
    split
    · rename_i h
      subst h
      have hne := splitLines_ne_nil cs
      cases hs : splitLines cs with
      | nil => exact absurd hs hne
      | cons l ls => rw [hs] at ih; simp [joinLines, ih]
    · have hne := splitLines_ne_nil cs
      cases hs : splitLines cs with
      | nil => exact absurd hs hne
      | cons l ls =>
        rw [hs] at ih
        cases ls with
        | nil => simp [joinLines] at ih ⊢; exact ih
        | cons l2 ls2 => simp [joinLines] at ih ⊢; exact ih

theorem length_splitLines (t : Text) : (splitLines t).length = countNL t + 1 := by
  induction t with
  | nil => rfl
  | cons c cs ih =>
    unfold splitLines countNL
    split
    · simp [ih]; omega
    · have hne := splitLines_ne_nil cs
      cases hs : splitLines cs with
      | nil => exact absurd hs hne
      | cons l ls => rw [hs] at ih; simp at ih ⊢; omega

theorem splitLines_cons_nl (cs : Text) : splitLines ('\n' :: cs) = [] :: splitLines cs := by
  simp [splitLines]

theorem splitLines_cons_ne (c : Char) (cs : Text) (h : c ≠ '\n') :
    splitLines (c :: cs) = ((splitLines cs).headD [] |>.cons c) :: (splitLines cs).tail := by
  have hne := splitLines_ne_nil cs
  rw [splitLines]
  simp only [h, ↓reduceIte]
  cases hs : splitLines cs with
  | nil => exact absurd hs hne
  | cons l ls => simp

/-- Splitting distributes over a newline boundary. -/
theorem splitLines_append_nl (x y : Text) : splitLines (x ++ '\n' :: y) = splitLines x ++ splitLines y := by
  induction x with
  | nil => simp [splitLines_cons_nl, splitLines]
  | cons c cs ih =>
    simp only [List.cons_append]
    by_cases hc : c = '\n'
    · subst hc
      rw [splitLines_cons_nl, splitLines_cons_nl, ih]; simp
    · rw [splitLines_cons_ne c _ hc, splitLines_cons_ne c _ hc, ih]
      have hne := splitLines_ne_nil cs
      cases hs : splitLines cs with
      | nil => exact absurd hs hne
      | cons l ls => simp

/-- Lines that are terminated inside `x` are not affected by what follows `x`. -/
theorem splitLines_append_prefix (x y : Text) (i : Nat) (h : i < countNL x) :
    (splitLines (x ++ y))[i]? = (splitLines x)[i]? := by
  induction x generalizing i with
  | nil => simp [countNL] at h
  | cons c cs ih =>
    simp only [List.cons_append]
    unfold splitLines
    by_cases hc : c = '\n'
    · simp only [hc, ↓reduceIte]
      cases i with
      | zero => rfl
      | succ j =>
        simp only [List.getElem?_cons_succ]
        apply ih
        simp [countNL, hc] at h
        omega
    · simp only [hc, ↓reduceIte]
      have h' : i < countNL cs := by simpa [countNL, hc] using h
      have hne1 := splitLines_ne_nil (cs ++ y)
      have hne2 := splitLines_ne_nil cs
      cases hs1 : splitLines (cs ++ y) with
      | nil => exact absurd hs1 hne1
      | cons l1 ls1 =>
        cases hs2 : splitLines cs with
        | nil => exact absurd hs2 hne2
        | cons l2 ls2 =>
          have := ih i h'
          rw [hs1, hs2] at this
          cases i with
          | zero =>
            -- line 0 of cs is terminated inside cs, so it is the same line; prepend c
            simp only [List.getElem?_cons_zero, Option.some.injEq] at this ⊢
            rw [this]
          | succ j => simpa using this

/-- Whole-file line numbers: if `b` starts a new line (begins with a newline) inside `a ++ b ++ c`,
    then line `r` of `b` (2 ≤ r, terminated inside `b`) is line `countNL a + r` of the whole text. -/
theorem lineAt_section (a b' c : Text) (r : Nat) (hr : 2 ≤ r) (hin : r ≤ countNL ('\n' :: b')) :
    lineAt (a ++ ('\n' :: b') ++ c) (countNL a + r) = lineAt ('\n' :: b') r := by
  obtain ⟨k, rfl⟩ : ∃ k, r = k + 2 := ⟨r - 2, by omega⟩
  have e1 : a ++ ('\n' :: b') ++ c = a ++ '\n' :: (b' ++ c) := by simp
  have hk : k < countNL b' := by simp [countNL] at hin; omega
  rw [e1]
  show (splitLines (a ++ '\n' :: (b' ++ c)))[countNL a + (k + 1)]? = (splitLines ('\n' :: b'))[k + 1]?
  rw [splitLines_append_nl]
  have hlen := length_splitLines a
  rw [List.getElem?_append_right (by omega)]
  have : countNL a + (k + 1) - (splitLines a).length = k := by omega
  rw [this, splitLines_append_prefix b' c k hk]
  simp [splitLines]

/-! ### splitGo -/

/-- Text still to come when at least one line has already been consumed. -/
def restText (lines : List (Text × Bool)) : Text := lines.flatMap fun l => '\n' :: l.1

theorem concat_splitGo_false (lines : List (Text × Bool)) (cur : Text) :
    concat (splitGo lines cur false) = cur ++ restText lines := by
  induction lines generalizing cur with
  | nil => simp [splitGo, concat, restText]
  | cons l ls ih =>
    obtain ⟨line, m⟩ := l
    unfold splitGo
    cases m
    · simp only [Bool.false_eq_true, ↓reduceIte]
      rw [ih]; simp [restText]
    · simp only [↓reduceIte]
      have := ih []
      simp only [concat, List.foldr_cons] at this ⊢
      rw [this]; simp [restText]

theorem joinLines_cons (l : Text) (ls : List Text) :
    joinLines (l :: ls) = l ++ ls.flatMap (fun x => '\n' :: x) := by
  induction ls generalizing l with
  | nil => simp [joinLines]
  | cons l2 ls ih => simp [joinLines, ih]

theorem concat_splitSections (lines : List (Text × Bool)) (h : lines ≠ []) :
    concat (splitSections lines) = joinLines (lines.map (·.1)) := by
  cases lines with
  | nil => exact absurd rfl h
  | cons l ls =>
    obtain ⟨line, m⟩ := l
    unfold splitSections splitGo
    rw [List.map_cons, joinLines_cons]
    cases m
    · simp only [Bool.false_eq_true, ↓reduceIte]
      rw [concat_splitGo_false]
      simp [restText, List.flatMap_map]
    · simp only [↓reduceIte]
      have := concat_splitGo_false ls []
      simp only [concat, List.foldr_cons] at this ⊢
      rw [this]
      simp [restText, List.flatMap_map]

theorem zipMarks_fst (lines : List Text) (marks : List Bool) : (zipMarks lines marks).map (·.1) = lines := by
  unfold zipMarks
  generalize hm : marks ++ List.replicate (lines.length - marks.length) false = ms
  have hlen : lines.length ≤ ms.length := by rw [← hm]; simp; omega
  clear hm
  induction lines generalizing ms with
  | nil => simp
  | cons l ls ih =>
    cases ms with
    | nil => simp at hlen
    | cons m ms =>
      simp only [List.length_cons, Nat.add_le_add_iff_right] at hlen
      simp only [List.zipWith_cons_cons, List.map_cons, List.cons.injEq, true_and]
      exact ih ms hlen

end Pedal.Sections

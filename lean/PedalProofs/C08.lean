import PedalProofs.StaticChecksLemmas
/-
C08 — static ensure_*/prevent_* checks agree with the student's actual syntax tree.
Property theorems only; helpers are in StaticChecksLemmas.  The model (`Pedal.Static.*`) is tied to pedal by
the generated operator tables (harness/translate_operators.py) and by the correspondence check (harness/c08.py).
-/
namespace Pedal.Static
open Pedal.Gen.Operators

/-! ### what CPython says an operator symbol is -/

/-- CPython's reading of a symbol: the binary/comparison/boolean reading when there is one (so `+` and `-`
    mean `Add` / `Sub`, as pedal documents), otherwise the unary one. -/
def cpyLookup (sym : String) : Option (String × String) :=
  match cpythonOps.find? (fun r => r.1 = sym && r.2.1 != "UnaryOp") with
  | some r => some r.2
  | none => (cpythonOps.find? (fun r => r.1 = sym)).map (·.2)

/-- the symbols the property quantifies over: every operator class of the running CPython -/
def Documented (sym : String) : Prop := ∃ r ∈ cpythonOps, r.1 = sym

/-- Every operator symbol CPython has is in pedal's tables with CPython's own expression class and
    operator class, and pedal's tables contain nothing else.  (`decide` over both generated tables.) -/
theorem c08_symbol_table_agrees :
    (∀ r ∈ cpythonOps, pedalLookup r.1 = cpyLookup r.1) ∧
    (∀ r ∈ compareOps ++ boolOps ++ binOps ++ unaryOps, pedalLookup r.1 = cpyLookup r.1) ∧
    (∀ r ∈ cpythonOps, (cpyLookup r.1).isSome = true) := by decide

theorem pedalLookup_documented (sym : String) (h : Documented sym) : pedalLookup sym = cpyLookup sym := by
  obtain ⟨r, hr, rfl⟩ := h
  exact c08_symbol_table_agrees.1 r hr

/-! ### find_all -/

/-- `find_all(k)` returns exactly the nodes a plain pre-order walk finds for `k`, in walk order — for ALL
    trees and all node names, including the `Num`/`Str`/`Bool` split of `Constant`. -/
theorem c08_find_all_is_walk_filter (k : String) (t : Tree) :
    findAll k t = (walk t).filter (isKind k) := findAll_eq_filter k t

/-- for an ordinary node name the test is just the class name -/
theorem c08_find_all_plain (k : String) (t : Tree) (h1 : k ≠ "Num") (h2 : k ≠ "Str") (h3 : k ≠ "Bool") :
    findAll k t = (walk t).filter (fun n => decide (n.kind = k)) := by
  rw [findAll_eq_filter]
  congr 1
  funext n
  exact isKind_plain k n h1 h2 h3

/-! ### find_operation -/

/-- occurrences of a symbol according to CPython: over the walked nodes of the expression class CPython
    parses the symbol into, the number of operator positions holding CPython's operator class. -/
def cpythonOccurrences (sym : String) (t : Tree) : Nat :=
  match cpyLookup sym with
  | some (family, cls) => (((walk t).filter (isKind family)).map (opHits family cls)).sum
  | none => 0

/-- `len(find_operation(sym))` is CPython's count, for every documented symbol and every tree. -/
theorem c08_find_operation_count (sym : String) (h : Documented sym) (t : Tree) :
    (findOperation sym t).length = cpythonOccurrences sym t := by
  unfold findOperation cpythonOccurrences
  rw [pedalLookup_documented sym h]
  cases hc : cpyLookup sym with
  | none => rfl
  | some p =>
    obtain ⟨family, cls⟩ := p
    simp only [length_flatMap_replicate, findAll_eq_filter]

/-- the nodes `find_operation` returns are walked nodes of CPython's expression class that hold the operator -/
theorem c08_find_operation_mem (sym : String) (h : Documented sym) (t n : Tree) :
    n ∈ findOperation sym t ↔
      ∃ family cls, cpyLookup sym = some (family, cls) ∧ n ∈ walk t ∧ isKind family n = true ∧ opHits family cls n ≠ 0 := by
  unfold findOperation
  rw [pedalLookup_documented sym h]
  cases hc : cpyLookup sym with
  | none => simp
  | some p =>
    obtain ⟨family, cls⟩ := p
    simp only [mem_flatMap_replicate, findAll_eq_filter, List.mem_filter]
    constructor
    · rintro ⟨⟨hw, hk⟩, hh⟩
      exact ⟨family, cls, rfl, hw, hk, hh⟩
    · rintro ⟨f', c', heq, hw, hk, hh⟩
      cases heq
      exact ⟨⟨hw, hk⟩, hh⟩

/-- the four expression classes are ordinary node names (no Constant split involved) -/
theorem c08_operator_families_plain :
    ∀ r ∈ cpythonOps, r.2.1 ≠ "Num" ∧ r.2.1 ≠ "Str" ∧ r.2.1 ≠ "Bool" := by decide

/-! ### find_function_calls -/

theorem c08_find_function_calls (name : String) (t : Tree) :
    findFunctionCalls name t = (walk t).filter (fun n => decide (n.kind = "Call") && isCallTo name n) := by
  unfold findFunctionCalls
  rw [findAll_eq_filter, List.filter_filter]
  congr 1
  funext n
  rw [isKind_plain "Call" n (by decide) (by decide) (by decide), Bool.and_comm]

/-! ### literals -/

/-- literal values the property covers (non-None values of the four scalar types) -/
def Queryable : Prim → Prop
  | .bool _ | .int _ | .flt _ _ | .str _ => True
  | _ => False

theorem beq_eq_dec {α} [BEq α] [LawfulBEq α] [DecidableEq α] (a b : α) : (a == b) = decide (a = b) := by
  by_cases h : a = b
  · subst h; simp
  · simp [h]

theorem pyEq_and_sameType (lit v : Prim) (h : Queryable lit) :
    (pyEq lit v && sameType v lit) = decide (v = lit) := by
  cases lit <;> cases v <;> simp_all [Queryable, pyEq, sameType, eq_comm] <;>
    simp only [beq_eq_dec]

/-- A literal query counts exactly the constants equal to the literal in value AND type. -/
theorem c08_literal_same_type (lit : Prim) (h : Queryable lit) (t : Tree) :
    literalUses lit t = (walk t).filter (fun n => isConstant n && decide (n.attr "value" = lit)) := by
  unfold literalUses literalMatches
  rw [List.filter_filter]
  congr 1
  funext n
  by_cases hc : isConstant n = true
  · simp only [hc, Bool.not_true, Bool.false_or, Bool.true_and]
    rw [Bool.and_comm, pyEq_and_sameType lit _ h]
  · simp [hc]

/-- non-vacuity / the repaired defect: `1` is not satisfied by `True` or `1.0` -/
example : literalUses (.int 1) (.node "Constant" "value" (some 1) (some 0) [("value", .bool true)] []) = [] := by decide
example : literalUses (.int 1) (.node "Constant" "value" (some 1) (some 0) [("value", .flt 1 1)] []) = [] := by decide
example : (literalUses (.int 1) (.node "Constant" "value" (some 1) (some 0) [("value", .int 1)] [])).length = 1 := by decide

/-! ### literal types -/

/-- "a constant whose value has this Python type" / a `List` / `Dict` display -/
def isLiteralOfType (ty : LitType) (n : Tree) : Bool :=
  match ty with
  | .bool => isConstant n && (match n.attr "value" with | .bool _ => true | _ => false)
  | .str => isConstant n && (match n.attr "value" with | .str _ => true | _ => false)
  | .int => isConstant n && (match n.attr "value" with | .int _ => true | _ => false)
  | .float => isConstant n && (match n.attr "value" with | .flt _ _ => true | .fltx _ => true | _ => false)
  | .list => decide (n.kind = "List")
  | .dict => decide (n.kind = "Dict")

theorem c08_literal_type_mem (ty : LitType) (t n : Tree) :
    n ∈ literalTypeUses ty t ↔ n ∈ walk t ∧ isLiteralOfType ty n = true := by
  cases ty
  · -- bool: the two literal searches
    simp only [literalTypeUses, List.mem_append,
      c08_literal_same_type (.bool false) trivial, c08_literal_same_type (.bool true) trivial, List.mem_filter,
      isLiteralOfType]
    constructor
    · rintro (⟨hw, h⟩ | ⟨hw, h⟩) <;>
      · simp only [Bool.and_eq_true, decide_eq_true_eq] at h
        refine ⟨hw, ?_⟩
        simp [h.1, h.2]
    · rintro ⟨hw, h⟩
      simp only [Bool.and_eq_true] at h
      obtain ⟨hc, hv⟩ := h
      cases hval : n.attr "value" <;> simp [hval] at hv
      rename_i b
      cases b
      · left; exact ⟨hw, by simp [hc]⟩
      · right; exact ⟨hw, by simp [hc]⟩
  all_goals
    simp only [literalTypeUses, findAll_eq_filter, List.mem_filter, isLiteralOfType, isKind, isConstant]
    constructor
    · intro h
      refine ⟨by simp_all, ?_⟩
      revert h
      cases n.attr "value" <;> simp
    · intro h
      revert h
      cases n.attr "value" <;> simp

theorem length_filter_eq_countP {α} (p : α → Bool) (l : List α) : (l.filter p).length = l.countP p := by
  rw [List.countP_eq_length_filter]

theorem countP_add_of_pointwise {α} (p q r : α → Bool) (l : List α)
    (h : ∀ a, (if p a then 1 else 0) + (if q a then 1 else 0) = (if r a then 1 else 0 : Nat)) :
    l.countP p + l.countP q = l.countP r := by
  induction l with
  | nil => rfl
  | cons a l ih =>
    simp only [List.countP_cons]
    have := h a
    omega

theorem bool_split (c : Bool) (v : Prim) :
    (if (c && decide (v = Prim.bool false)) then 1 else 0) + (if (c && decide (v = Prim.bool true)) then 1 else 0)
      = (if (c && (match v with | .bool _ => true | _ => false)) then 1 else 0 : Nat) := by
  cases c <;> cases v <;> simp
  rename_i b
  cases b <;> simp

/-- every literal-type query counts exactly the walked nodes of that literal type -/
theorem c08_literal_type_count (ty : LitType) (t : Tree) :
    (literalTypeUses ty t).length = (walk t).countP (isLiteralOfType ty) := by
  cases ty
  · simp only [literalTypeUses, List.length_append,
      c08_literal_same_type (.bool false) trivial, c08_literal_same_type (.bool true) trivial,
      length_filter_eq_countP]
    apply countP_add_of_pointwise
    intro a
    simp only [isLiteralOfType]
    exact bool_split (isConstant a) (a.attr "value")
  all_goals
    simp only [literalTypeUses, findAll_eq_filter, List.filter_filter, length_filter_eq_countP]
    apply congrArg (fun p => List.countP p (walk t))
    funext n
    simp only [isLiteralOfType, isKind, isConstant]
    cases n.attr "value" <;> simp

/-! ### imports -/

/-- `has_import` is "some walked Import names the module in one of its aliases, or some walked ImportFrom
    has it as its module" -/
theorem c08_has_import_iff (name : String) (t : Tree) :
    hasImport name t = true ↔
      ∃ n ∈ walk t,
        (n.kind = "Import" ∧ ∃ al ∈ n.childrenOf "names", al.attr "name" = Prim.str name) ∨
        (n.kind = "ImportFrom" ∧ n.attr "module" = Prim.str name) := by
  simp only [hasImport, Bool.or_eq_true, List.any_eq_true, findAll_eq_filter, List.mem_filter, beq_iff_eq,
    isKind_plain "Import" _ (by decide) (by decide) (by decide),
    isKind_plain "ImportFrom" _ (by decide) (by decide) (by decide), decide_eq_true_eq]
  constructor
  · rintro (⟨n, ⟨hw, hk⟩, al, hal, hn⟩ | ⟨n, ⟨hw, hk⟩, hm⟩)
    · exact ⟨n, hw, Or.inl ⟨hk, al, hal, hn⟩⟩
    · exact ⟨n, hw, Or.inr ⟨hk, hm⟩⟩
  · rintro ⟨n, hw, (⟨hk, al, hal, hn⟩ | ⟨hk, hm⟩)⟩
    · exact Or.inl ⟨n, ⟨hw, hk⟩, al, hal, hn⟩
    · exact Or.inr ⟨n, ⟨hw, hk⟩, hm⟩

/-! ### thresholds -/

/-- `ensure_*(…, at_least=n)` fires exactly when there are fewer than `n` uses — all `n`, all use lists -/
theorem c08_ensure_fires_iff (n : Nat) (us : List Tree) : ensureFires n us = true ↔ us.length < n := by
  simp [ensureFires]

/-- `prevent_*(…, at_most=m)` fires exactly when there are more than `m` uses — all `m`, all use lists -/
theorem c08_prevent_fires_iff (m : Nat) (us : List Tree) : preventFires m us = true ↔ us.length > m := by
  simp only [preventFires, Bool.and_eq_true, bne_iff_ne, ne_eq, decide_eq_true_eq]
  omega

example : ensureFires 2 [default] = true ∧ ensureFires 1 [default] = false ∧ ensureFires 0 [] = false := by decide
example : preventFires 0 [default] = true ∧ preventFires 1 [default] = false ∧ preventFires 0 [] = false := by decide

/-! ### the count each query is compared with -/

/-- the number of occurrences a plain walk of the syntax tree finds for a query -/
def specCount : Query → Tree → Nat
  | .op sym, t => cpythonOccurrences sym t
  | .call name, t => (walk t).countP (fun n => decide (n.kind = "Call") && isCallTo name n)
  | .literal lit, t => (walk t).countP (fun n => isConstant n && decide (n.attr "value" = lit))
  | .litType ty, t => (walk t).countP (isLiteralOfType ty)
  | .ast k, t => (walk t).countP (isKind k)

/-- the queries the property quantifies over -/
def InScope : Query → Prop
  | .op sym => Documented sym
  | .literal lit => Queryable lit
  | _ => True

theorem c08_use_count (q : Query) (h : InScope q) (t : Tree) : (uses q t).length = specCount q t := by
  cases q with
  | op sym => exact c08_find_operation_count sym h t
  | call name => simp only [uses, specCount, c08_find_function_calls, length_filter_eq_countP]
  | literal lit => simp only [uses, specCount, c08_literal_same_type lit h, length_filter_eq_countP]
  | litType ty => exact c08_literal_type_count ty t
  | ast k => simp only [uses, specCount, findAll_eq_filter, length_filter_eq_countP]

/-- ensure fires ⇔ walk count < n; prevent fires ⇔ walk count > m — every in-scope query, tree, threshold -/
theorem c08_ensure_prevent_agree_with_walk (q : Query) (h : InScope q) (t : Tree) (n m : Nat) :
    (ensureFires n (uses q t) = true ↔ specCount q t < n) ∧
    (preventFires m (uses q t) = true ↔ specCount q t > m) := by
  rw [c08_ensure_fires_iff, c08_prevent_fires_iff, c08_use_count q h t]
  exact ⟨Iff.rfl, Iff.rfl⟩

/-! ### reported line -/

theorem uses_subset_walk (q : Query) (t n : Tree) (hn : n ∈ uses q t) : n ∈ walk t := by
  cases q with
  | op sym =>
    simp only [uses, findOperation] at hn
    split at hn
    · rw [mem_flatMap_replicate, findAll_eq_filter] at hn
      exact (List.mem_filter.mp hn.1).1
    · simp at hn
  | call name =>
    simp only [uses, c08_find_function_calls] at hn
    exact (List.mem_filter.mp hn).1
  | literal lit =>
    simp only [uses, literalUses, literalMatches] at hn
    exact (List.mem_filter.mp (List.mem_filter.mp hn).1).1
  | litType ty =>
    simp only [uses] at hn
    exact ((c08_literal_type_mem ty t n).mp hn).1
  | ast k =>
    simp only [uses, findAll_eq_filter] at hn
    exact (List.mem_filter.mp hn).1

/-- whenever something was found, the reported line is the line of one of the found nodes, which is a
    node of the student's tree -/
theorem c08_line_is_one_of_them (q : Query) (t : Tree) (h : uses q t ≠ []) :
    ∃ n ∈ uses q t, reportedLine (uses q t) = n.line ∧ n ∈ walk t := by
  obtain ⟨x, hx, hl⟩ := getLast?_mem (uses q t) h
  exact ⟨x, hx, by simp [reportedLine, hl], uses_subset_walk q t x hx⟩

end Pedal.Static

import PedalProofs.SectionsIRLemmas
import PedalProofs.SectionsLemmas
/-
C17 — sections split a submission losslessly and report whole-file line numbers.
Theorems are about `Pedal.Sections` (the model the driver executes): `splitSections` (re.split for a
line-anchored one-group pattern, marker predicate as a parameter), the next/stop state machine and the
line-offset arithmetic.  Which lines are markers is supplied by Python's `re` (runtime parameter).
-/
namespace Pedal.Sections

/-- The chunks of a text for a given marking of its lines. -/
def sectionsOf (t : Text) (marks : List Bool) : List Text := splitSections (zipMarks (splitLines t) marks)

/-- Separating loses nothing: code chunks and separators concatenate back to the file. -/
theorem c17_lossless (t : Text) (marks : List Bool) : concat (sectionsOf t marks) = t := by
  unfold sectionsOf
  have hne : zipMarks (splitLines t) marks ≠ [] := by
    intro h
    have := zipMarks_fst (splitLines t) marks
    rw [h] at this
    exact splitLines_ne_nil t this.symm
  rw [concat_splitSections _ hne, zipMarks_fst, joinLines_splitLines]

/-! #### Shape of the split: code, marker, code, …, code; every code chunk after a marker starts a new line. -/

def startsNL (c : Text) : Bool := c.isEmpty || c.head? == some '\n'

def goodFrom : List Text → Bool
  | [] => false
  | [c] => startsNL c
  | c :: _ :: rest => startsNL c && goodFrom rest

theorem startsNL_append_nl (cur : Text) (h : startsNL cur = true) (x : Text) :
    startsNL (cur ++ '\n' :: x) = true := by
  cases cur with
  | nil => simp [startsNL]
  | cons c cs => simp [startsNL] at h ⊢; exact h

theorem goodFrom_splitGo (lines : List (Text × Bool)) (cur : Text) (h : startsNL cur = true) :
    goodFrom (splitGo lines cur false) = true := by
  induction lines generalizing cur with
  | nil => simpa [splitGo, goodFrom] using h
  | cons l ls ih =>
    obtain ⟨line, m⟩ := l
    unfold splitGo
    cases m
    · simp only [Bool.false_eq_true, ↓reduceIte]
      apply ih
      have := startsNL_append_nl cur h line
      simpa using this
    · simp only [↓reduceIte, goodFrom, Bool.and_eq_true]
      refine ⟨?_, ih [] (by simp [startsNL])⟩
      have := startsNL_append_nl cur h []
      simpa using this

theorem goodFrom_get (l : List Text) (h : goodFrom l = true) (i : Nat) (c : Text) (hc : l[2 * i]? = some c) :
    startsNL c = true := by
  induction i generalizing l with
  | zero =>
    match l, h with
    | [c0], h => simp at hc; subst hc; simpa [goodFrom] using h
    | c0 :: _ :: rest, h => simp at hc; subst hc; simp [goodFrom] at h; exact h.1
  | succ j ih =>
    match l, h with
    | [c0], h => simp at hc
    | c0 :: m :: rest, h =>
      simp only [goodFrom, Bool.and_eq_true] at h
      have : (c0 :: m :: rest)[2 * (j + 1)]? = rest[2 * j]? := by
        have : 2 * (j + 1) = 2 * j + 1 + 1 := by omega
        rw [this]; simp
      rw [this] at hc
      exact ih rest h.2 hc

/-- Every code chunk after the first starts a new line (or is empty: the marker was the last line). -/
theorem c17_later_chunks_start_lines (t : Text) (marks : List Bool) (k : Nat) (c : Text)
    (hc : (sectionsOf t marks)[2 * (k + 1)]? = some c) : startsNL c = true := by
  unfold sectionsOf splitSections at hc
  generalize zipMarks (splitLines t) marks = lines at hc
  -- peel lines until the first marker; after it the tail is `splitGo rest [] false`
  suffices H : ∀ (lines : List (Text × Bool)) (cur : Text) (first : Bool),
      (splitGo lines cur first)[2 * (k + 1)]? = some c → startsNL c = true from H lines [] true hc
  intro lines
  induction lines with
  | nil => intro cur first h; simp [splitGo] at h
  | cons l ls ih =>
    intro cur first h
    obtain ⟨line, m⟩ := l
    unfold splitGo at h
    cases m
    · simp only [Bool.false_eq_true, ↓reduceIte] at h
      exact ih _ _ h
    · simp only [↓reduceIte] at h
      have e : 2 * (k + 1) = 2 * k + 1 + 1 := by omega
      rw [e] at h
      simp only [List.getElem?_cons_succ] at h
      exact goodFrom_get _ (goodFrom_splitGo ls [] (by simp [startsNL])) k c h

theorem length_splitGo_odd (lines : List (Text × Bool)) (cur : Text) (first : Bool) :
    (splitGo lines cur first).length % 2 = 1 := by
  induction lines generalizing cur first with
  | nil => simp [splitGo]
  | cons l ls ih =>
    obtain ⟨line, m⟩ := l
    unfold splitGo
    cases m
    · simpa using ih _ false
    · simp only [↓reduceIte, List.length_cons]
      have := ih [] false
      omega

/-! #### The next/stop state machine -/

/-- The chunks in either mode (`takesNL`: the pattern's group also captures the separator's newline). -/
def sectionsOfMode (takesNL : Bool) (t : Text) (marks : List Bool) : List Text :=
  splitMode takesNL (zipMarks (splitLines t) marks)

theorem sectionsOfMode_false (t : Text) (marks : List Bool) : sectionsOfMode false t marks = sectionsOf t marks := by
  simp [sectionsOfMode, splitMode, sectionsOf]

/-- State right after `separate_into_sections` on a fresh submission holding `t`. -/
def separated (t : Text) (marks : List Bool) (indep takesNL : Bool) : St :=
  { main := (sectionsOfMode takesNL t marks).headD [], subs := [t], sections := sectionsOfMode takesNL t marks,
    separated := true, idx := 0, independent := indep, offset := 0 }

theorem step_separate (t : Text) (marks : List Bool) (indep takesNL : Bool) :
    step { main := t } (.separate marks indep takesNL) = some (separated t marks indep takesNL) := by
  simp [step, separated, sectionsOfMode]

/-- What `next_section` presents when it moves to list index `idx`. -/
def presented (secs : List Text) (indep : Bool) (t : Text) (idx : Nat) : Text :=
  if sectionNumber idx ≤ sectionNumber (secs.length - 1) then
    if indep then (secs[idx]?).getD [] else concat (secs.take (idx + 1))
  else t

/-- Invariant while sections are active: the original text is the only substitution on the stack. -/
structure Active (t : Text) (secs : List Text) (indep : Bool) (s : St) : Prop where
  subs : s.subs = [t]
  sections : s.sections = secs
  independent : s.independent = indep

theorem next_ok (t : Text) (secs : List Text) (indep : Bool) (s : St) (h : Active t secs indep s) :
    ∃ s', step s .next = some s' ∧ Active t secs indep s' ∧ s'.idx = s.idx + 2 ∧
      s'.main = presented secs indep t (s.idx + 2) ∧
      (sectionNumber (s.idx + 2) ≤ sectionNumber (secs.length - 1) → indep = true →
        s'.offset = countNL (concat (secs.take (s.idx + 2)))) ∧
      (sectionNumber (s.idx + 2) ≤ sectionNumber (secs.length - 1) → s'.notEnough = s.notEnough) ∧
      (¬ sectionNumber (s.idx + 2) ≤ sectionNumber (secs.length - 1) →
        s'.notEnough = s.notEnough ++ [(sectionNumber (s.idx + 2), sectionNumber (secs.length - 1))]) := by
  obtain ⟨hs, hsec, hi⟩ := h
  subst hsec hi
  by_cases hle : sectionNumber (s.idx + 2) ≤ sectionNumber (s.sections.length - 1)
  · cases hind : s.independent
    · refine ⟨{ s with idx := s.idx + 2, main := concat (s.sections.take (s.idx + 2 + 1)) }, ?_,
        ⟨hs, rfl, hind⟩, rfl, ?_, ?_, ?_, ?_⟩
      · simp [step, hs, hle, hind]
      · simp [presented, hle]
      · intro _ h2; cases h2
      · intro _; rfl
      · intro h; exact absurd hle h
    · refine ⟨{ s with idx := s.idx + 2, main := (s.sections[s.idx + 2]?).getD [],
                       offset := countNL (concat (s.sections.take (s.idx + 2))) }, ?_,
        ⟨hs, rfl, hind⟩, rfl, ?_, ?_, ?_, ?_⟩
      · simp [step, hs, hle, hind]
      · simp [presented, hle]
      · intro _ _; rfl
      · intro _; rfl
      · intro h; exact absurd hle h
  · refine ⟨{ s with idx := s.idx + 2, main := t,
                     notEnough := s.notEnough ++ [(sectionNumber (s.idx + 2), sectionNumber (s.sections.length - 1))] },
      ?_, ⟨hs, rfl, rfl⟩, rfl, ?_, ?_, ?_, ?_⟩
    · simp [step, hs, hle]
    · simp [presented, hle]
    · intro h; exact absurd h hle
    · intro h; exact absurd h hle
    · intro _; rfl

/-- Any number of `next_section` calls never raises and keeps the original text recoverable. -/
theorem nexts_ok (t : Text) (secs : List Text) (indep : Bool) (k : Nat) (s : St) (h : Active t secs indep s) :
    ∃ s', run s (List.replicate k .next) = some s' ∧ Active t secs indep s' ∧ s'.idx = s.idx + 2 * k ∧
      (0 < k → s'.main = presented secs indep t (s.idx + 2 * k)) ∧
      (0 < k → sectionNumber (s.idx + 2 * k) ≤ sectionNumber (secs.length - 1) → indep = true →
        s'.offset = countNL (concat (secs.take (s.idx + 2 * k)))) := by
  induction k generalizing s with
  | zero => exact ⟨s, rfl, h, by simp, by simp, by simp⟩
  | succ k ih =>
    obtain ⟨s1, hstep, hact, hidx, hmain, hoff, -, -⟩ := next_ok t secs indep s h
    obtain ⟨s2, hrun, hact2, hidx2, hmain2, hoff2⟩ := ih s1 hact
    refine ⟨s2, ?_, hact2, by omega, ?_, ?_⟩
    · simp [List.replicate_succ, run, hstep, hrun]
    · intro _
      cases k with
      | zero => simp [run] at hrun; subst hrun; simpa using hmain
      | succ k' =>
        have := hmain2 (by omega)
        rw [this, hidx]; congr 1; omega
    · intro _ hle hind
      cases k with
      | zero => simp [run] at hrun; subst hrun; exact hoff (by simpa using hle) hind
      | succ k' =>
        have e : s1.idx + 2 * (k' + 1) = s.idx + 2 * (k' + 1 + 1) := by omega
        have := hoff2 (by omega) (by rw [e]; exact hle) hind
        rw [this, e]

theorem separated_active (t : Text) (marks : List Bool) (indep takesNL : Bool) :
    Active t (sectionsOfMode takesNL t marks) indep (separated t marks indep takesNL) := ⟨rfl, rfl, rfl⟩

/-- Section k as presented to the tools is exactly the k-th chunk (independent mode) or the file up
    to and including it (cumulative mode); past the end the whole file stays, and nothing raises. -/
theorem c17_section_k (t : Text) (marks : List Bool) (indep takesNL : Bool) (k : Nat) (hk : 0 < k) :
    ∃ s, run { main := t } (.separate marks indep takesNL :: List.replicate k .next) = some s ∧
      s.main = presented (sectionsOfMode takesNL t marks) indep t (2 * k) ∧ s.subs = [t] ∧
      (sectionNumber (2 * k) ≤ sectionNumber ((sectionsOfMode takesNL t marks).length - 1) → indep = true →
        s.offset = countNL (concat ((sectionsOfMode takesNL t marks).take (2 * k)))) := by
  obtain ⟨s, hrun, hact, -, hmain, hoff⟩ := nexts_ok t _ indep k _ (separated_active t marks indep takesNL)
  refine ⟨s, ?_, ?_, hact.subs, ?_⟩
  · simp [run, step_separate, hrun]
  · simpa [separated] using hmain hk
  · intro hle hind
    simpa [separated] using hoff hk (by simpa [separated] using hle) hind

/-- Asking for a section past the end records the not-enough-sections feedback instead of failing. -/
theorem c17_past_end_gives_feedback (t : Text) (secs : List Text) (indep : Bool) (s : St)
    (h : Active t secs indep s) (hpast : sectionNumber (secs.length - 1) < sectionNumber (s.idx + 2)) :
    ∃ s', step s .next = some s' ∧ s'.main = t ∧
      s'.notEnough = s.notEnough ++ [(sectionNumber (s.idx + 2), sectionNumber (secs.length - 1))] := by
  obtain ⟨s', hstep, -, -, hmain, -, -, hne⟩ := next_ok t secs indep s h
  refine ⟨s', hstep, ?_, hne (by omega)⟩
  rw [hmain]; simp [presented]; omega

/-- After sections are stopped (explicitly, or by the resolver's hook) the main code is the original text
    (and no line offset of a section stays behind on the submission). -/
theorem c17_main_code_restored (t : Text) (marks : List Bool) (indep takesNL : Bool) (k : Nat) (viaHook : Bool) :
    ∃ s, run { main := t } (.separate marks indep takesNL :: List.replicate k .next ++ [if viaHook then .resolveHook else .stop])
          = some s ∧ s.main = t ∧ s.subs = [] ∧ s.offset = 0 := by
  obtain ⟨s, hrun, hact, -⟩ := nexts_ok t _ indep k _ (separated_active t marks indep takesNL)
  have hrun' : ∀ op, run { main := t } (.separate marks indep takesNL :: List.replicate k .next ++ [op]) =
      (step s op) := by
    intro op
    have : ∀ (ops : List Op) (a b : St), run a ops = some b → run a (ops ++ [op]) = step b op := by
      intro ops
      induction ops with
      | nil => intro a b h; simp [run] at h; subst h; simp [run]
      | cons o os ih =>
        intro a b h
        simp only [run, List.cons_append] at h ⊢
        cases hs : step a o with
        | none => simp [hs] at h
        | some a' => simp [hs] at h ⊢; exact ih a' b h
    simp only [List.cons_append, run, step_separate, Option.bind_some]
    exact this _ _ _ hrun
  cases viaHook
  · refine ⟨{ s with subs := s.subs.dropLast, main := t, offset := 0 }, ?_, rfl, by simp [hact.subs], rfl⟩
    simp only [Bool.false_eq_true, ↓reduceIte]
    rw [hrun']; simp [step, hact.subs]
  · refine ⟨{ s with subs := s.subs.dropLast, main := t, offset := 0 }, ?_, rfl, by simp [hact.subs], rfl⟩
    simp only [↓reduceIte]
    rw [hrun']; simp [step, hact.subs]

/-! #### Whole-file line numbers -/

theorem concat_take_drop (secs : List Text) (n : Nat) :
    concat (secs.take n) ++ concat (secs.drop n) = concat secs := by
  induction secs generalizing n with
  | nil => simp [concat]
  | cons c cs ih =>
    cases n with
    | zero => simp [concat]
    | succ n =>
      have := ih n
      simp only [concat] at this ⊢
      simp only [List.take_succ_cons, List.drop_succ_cons, List.foldr_cons, List.append_assoc, this]

/-- Independent mode: line `r` of the presented section is line `offset + r` of the original file
    (for every line that ends inside the section; `r = 1` is the rest of the separator line itself). -/
theorem c17_line_is_whole_file_line (t : Text) (marks : List Bool) (k : Nat) (c : Text)
    (hc : (sectionsOf t marks)[2 * (k + 1)]? = some c) (r : Nat) (hr : 2 ≤ r) (hin : r ≤ countNL c) :
    lineAt t (countNL (concat ((sectionsOf t marks).take (2 * (k + 1)))) + r) = lineAt c r := by
  have hs := c17_later_chunks_start_lines t marks k c hc
  generalize hA : concat ((sectionsOf t marks).take (2 * (k + 1))) = A
  have hsplit : ∃ B, A ++ c ++ B = t := by
    have h1 := concat_take_drop (sectionsOf t marks) (2 * (k + 1))
    rw [c17_lossless, hA] at h1
    have hlt : 2 * (k + 1) < (sectionsOf t marks).length := by
      rcases Nat.lt_or_ge (2 * (k + 1)) (sectionsOf t marks).length with h | h
      · exact h
      · rw [List.getElem?_eq_none h] at hc; cases hc
    have hd : (sectionsOf t marks).drop (2 * (k + 1)) = c :: (sectionsOf t marks).drop (2 * (k + 1) + 1) := by
      rw [List.drop_eq_getElem_cons hlt]
      congr 1
      rw [List.getElem?_eq_getElem hlt] at hc
      exact Option.some.inj hc
    rw [hd] at h1
    refine ⟨concat ((sectionsOf t marks).drop (2 * (k + 1) + 1)), ?_⟩
    simp only [concat, List.foldr_cons] at h1 ⊢
    rw [List.append_assoc]; exact h1
  obtain ⟨B, hB⟩ := hsplit
  cases c with
  | nil => simp [countNL] at hin; omega
  | cons ch c' =>
    have hch : ch = '\n' := by simpa [startsNL] using hs
    subst hch
    rw [← hB]
    exact lineAt_section A c' B r hr hin

/-- Cumulative mode: the presented text is a prefix of the file, so its line numbers are the file's. -/
theorem c17_cumulative_prefix (t : Text) (marks : List Bool) (n : Nat) (r : Nat)
    (hin : r < countNL (concat ((sectionsOf t marks).take n))) :
    (∃ rest, t = concat ((sectionsOf t marks).take n) ++ rest) ∧
    lineAt t (r + 1) = lineAt (concat ((sectionsOf t marks).take n)) (r + 1) := by
  have h1 := concat_take_drop (sectionsOf t marks) n
  rw [c17_lossless] at h1
  refine ⟨⟨_, h1.symm⟩, ?_⟩
  generalize concat ((sectionsOf t marks).take n) = A at h1 hin ⊢
  generalize concat ((sectionsOf t marks).drop n) = B at h1
  subst h1
  exact splitLines_append_prefix A B r hin

/-! #### Patterns whose group also captures the separator's newline -/

theorem c17_lossless_nl (t : Text) (marks : List Bool) : concat (sectionsOfMode true t marks) = t := by
  unfold sectionsOfMode splitMode
  simp only [↓reduceIte]
  rw [concat_splitGoNL]
  simp [pendingText, zipMarks_fst, joinLines_splitLines]

theorem sepsEndNL_get (l : List Text) (h : sepsEndNL l = true) (k : Nat) (m : Text) (hm : l[2 * k + 1]? = some m) :
    m.getLast? = some '\n' := by
  induction k generalizing l with
  | zero =>
    match l, h with
    | [_], _ => simp at hm
    | _ :: m0 :: rest, h =>
      simp at hm; subst hm
      simp only [sepsEndNL, Bool.and_eq_true, beq_iff_eq] at h; exact h.1
  | succ j ih =>
    match l, h with
    | [_], _ => simp at hm
    | c0 :: m0 :: rest, h =>
      simp only [sepsEndNL, Bool.and_eq_true] at h
      have e : 2 * (j + 1) + 1 = (2 * j + 1) + 1 + 1 := by omega
      rw [e] at hm
      simp only [List.getElem?_cons_succ] at hm
      exact ih rest h.2 hm

theorem concat_take_succ (l : List Text) (n : Nat) (m : Text) (hm : l[n]? = some m) :
    concat (l.take (n + 1)) = concat (l.take n) ++ m := by
  induction l generalizing n with
  | nil => simp at hm
  | cons c cs ih =>
    cases n with
    | zero => simp at hm; subst hm; simp [concat]
    | succ n =>
      simp only [List.getElem?_cons_succ] at hm
      have := ih n hm
      simp only [concat, List.take_succ_cons, List.foldr_cons] at this ⊢
      rw [this, List.append_assoc]

/-- In this mode a later section starts at the beginning of a line, so line `r` (1 ≤ r) of the presented
    chunk is line `offset + r` of the file. -/
theorem c17_line_is_whole_file_line_nl (t : Text) (marks : List Bool) (k : Nat) (c : Text)
    (hc : (sectionsOfMode true t marks)[2 * (k + 1)]? = some c) (r : Nat) (hr : 1 ≤ r) (hin : r ≤ countNL c) :
    lineAt t (countNL (concat ((sectionsOfMode true t marks).take (2 * (k + 1)))) + r) = lineAt c r := by
  generalize hsecs : sectionsOfMode true t marks = secs at hc
  have hloss : concat secs = t := by rw [← hsecs]; exact c17_lossless_nl t marks
  have hseps : sepsEndNL secs = true := by
    rw [← hsecs]; unfold sectionsOfMode splitMode; simp only [↓reduceIte]; exact sepsEndNL_splitGoNL _ _ _
  have hlt : 2 * (k + 1) < secs.length := by
    rcases Nat.lt_or_ge (2 * (k + 1)) secs.length with h | h
    · exact h
    · rw [List.getElem?_eq_none h] at hc; cases hc
  -- the separator just before the chunk
  obtain ⟨m, hm⟩ : ∃ m, secs[2 * k + 1]? = some m := ⟨secs[2 * k + 1], List.getElem?_eq_getElem (by omega)⟩
  have hmend := sepsEndNL_get secs hseps k m hm
  have hA : concat (secs.take (2 * (k + 1))) = concat (secs.take (2 * k + 1)) ++ m := by
    have : 2 * (k + 1) = (2 * k + 1) + 1 := by omega
    rw [this]; exact concat_take_succ secs (2 * k + 1) m hm
  obtain ⟨m', rfl⟩ : ∃ m', m = m' ++ ['\n'] := by
    rcases List.eq_nil_or_concat m with h | ⟨m', x, h⟩
    · subst h; simp at hmend
    · subst h; simp at hmend; subst hmend; exact ⟨m', by simp⟩
  have hB : ∃ B, concat (secs.take (2 * (k + 1))) ++ c ++ B = t := by
    have h1 := concat_take_drop secs (2 * (k + 1))
    rw [hloss] at h1
    have hd : secs.drop (2 * (k + 1)) = c :: secs.drop (2 * (k + 1) + 1) := by
      rw [List.drop_eq_getElem_cons hlt]
      congr 1
      rw [List.getElem?_eq_getElem hlt] at hc
      exact Option.some.inj hc
    rw [hd] at h1
    refine ⟨concat (secs.drop (2 * (k + 1) + 1)), ?_⟩
    simp only [concat, List.foldr_cons] at h1 ⊢
    rw [List.append_assoc]; exact h1
  obtain ⟨B, hBt⟩ := hB
  rw [hA, ← List.append_assoc] at hBt ⊢
  rw [← hBt]
  exact lineAt_section_at_line_start (concat (secs.take (2 * k + 1)) ++ m') c B r hr hin

/- Non-vacuity (evaluated tests). -/
def demo : Text := "a=1\n##### Part 1\nb=2\nc=3\n##### Part 2\nd=4".toList
def demoMarks : List Bool := [false, true, false, false, true, false]
#guard (sectionsOf demo demoMarks).map String.ofList == ["a=1\n", "##### Part 1", "\nb=2\nc=3\n", "##### Part 2", "\nd=4"]
#guard (run { main := demo } [.separate demoMarks true, .next]).map (fun s => (String.ofList s.main, s.offset))
        == some ("\nb=2\nc=3\n", 1)
#guard lineAt demo (1 + 3) == some "c=3".toList && lineAt "\nb=2\nc=3\n".toList 3 == some "c=3".toList
#guard (run { main := demo } [.separate demoMarks true, .next, .next, .next]).map (fun s => (s.main == demo, s.notEnough))
        == some (true, [(3, 2)])
-- the group captures the newline: separator chunks end with it, the next chunk starts at a line start
#guard (sectionsOfMode true demo demoMarks).map String.ofList == ["a=1\n", "##### Part 1\n", "b=2\nc=3\n", "##### Part 2\n", "d=4"]
#guard (run { main := demo } [.separate demoMarks true true, .next]).map (fun s => (String.ofList s.main, s.offset))
        == some ("b=2\nc=3\n", 2)
#guard lineAt demo (2 + 2) == some "c=3".toList && lineAt "b=2\nc=3\n".toList 2 == some "c=3".toList

end Pedal.Sections

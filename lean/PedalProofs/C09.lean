import PedalProofs.TifaFlowLemmas
/-
C09 — TIFA's initialisation / unused-variable diagnoses match the execution paths.

All theorems are about `Pedal.TifaFlow.run` / `analyse` / `unusedReported`, the functions the driver
executes (`lean/Drivers/C09.lean`), and about the two concrete semantics `specRun` (all branch-outcome
vectors, if-subset) and `Runs` (single executions with loops) defined next to them.
-/
namespace Pedal.TifaFlow

/-! ## Part 1: exactness on the if-subset -/

/-- Invariant: for every variable, TIFA's `set` value seen from the current path = the classification
    of "assigned" over ALL paths reaching this point. -/
def InvSet (maps : List NameMap) (ps : List PState) : Prop :=
  ps ≠ [] ∧ ∀ x, absSet maps x = concSet ps x

theorem issueEvents_append (a b : List Issue) : issueEvents (a ++ b) = issueEvents a ++ issueEvents b := by
  simp [issueEvents, List.filterMap_append]

theorem specEvents_append (a b : List ReadEv) : specEvents (a ++ b) = specEvents a ++ specEvents b := by
  simp [specEvents, List.filter_append]

theorem specEvents_cons (e : ReadEv) (es : List ReadEv) : specEvents (e :: es) = specEvents [e] ++ specEvents es := by
  rw [← specEvents_append]; rfl

theorem invSet_nil_cons {maps : List NameMap} {ps : List PState} (h : InvSet maps ps) : InvSet ([] :: maps) ps := by
  refine ⟨h.1, fun x => ?_⟩
  rw [← h.2 x]
  simp [absSet]

/-- `load_variable` is exact: the issue it emits is the one the paths demand, and it changes no
    variable's assigned-classification. -/
theorem c09_load_exact {chain : List NameMap} {st : St} {ps : List PState} (line : Nat) (x : Var)
    (h : InvSet (st.cur :: chain) ps) :
    issueEvents (load chain line st x).issues = issueEvents st.issues ++ specEvents [⟨concSet ps x, x, line⟩]
    ∧ InvSet ((load chain line st x).cur :: chain) (ps.map (pRead · x)) := by
  have hx := h.2 x
  unfold absSet at hx
  unfold load
  cases hf : findVar (st.cur :: chain) x with
  | none =>
    rw [hf] at hx
    refine ⟨?_, ?_, fun y => ?_⟩
    · simp only [issueEvents_append]
      by_cases hs : x ∈ st.seen <;> simp [issueEvents, specEvents, Label.cls, ← hx, hs]
    · simpa using h.1
    · rw [concSet_map_pRead, ← h.2 y]
      by_cases hxy : x = y
      · subst hxy
        simp [absSet, findVar_put_self, hf, triCls]
      · simp [absSet, findVar_put_ne _ _ _ hxy]
  | some v =>
    rw [hf] at hx
    refine ⟨?_, ?_, fun y => ?_⟩
    · simp only [issueEvents_append]
      cases hv : v.set <;> simp [hv, triCls] at hx <;> simp [issueEvents, specEvents, Label.cls, ← hx]
    · simpa using h.1
    · rw [concSet_map_pRead, ← h.2 y]
      by_cases hxy : x = y
      · subst hxy
        simp [absSet, findVar_put_self, hf]
      · simp [absSet, findVar_put_ne _ _ _ hxy]

/-- `store_variable` is exact: the stored variable becomes "assigned on every path", nothing else moves. -/
theorem c09_store_exact {chain : List NameMap} {st : St} {ps : List PState} (x : Var)
    (h : InvSet (st.cur :: chain) ps) :
    (store st x).issues = st.issues ∧ InvSet ((store st x).cur :: chain) (ps.map (pWrite · x)) := by
  refine ⟨rfl, ?_, fun y => ?_⟩
  · simpa using h.1
  · by_cases hxy : x = y
    · subst hxy
      rw [concSet_map_pWrite_self]
      simp [store, absSet, findVar_put_self, triCls]
    · rw [concSet_map_pWrite_ne _ hxy, ← h.2 y]
      simp [store, absSet, findVar_put_ne _ _ _ hxy]

theorem loads_exact {chain : List NameMap} (line : Nat) (rs : List Var) :
    ∀ {st : St} {ps : List PState}, InvSet (st.cur :: chain) ps →
    issueEvents (loads chain line st rs).issues
        = issueEvents st.issues ++ specEvents (specLoads line ps rs).events
    ∧ InvSet ((loads chain line st rs).cur :: chain) (specLoads line ps rs).paths := by
  induction rs with
  | nil => intro st ps h; simpa [loads, specLoads, specEvents] using h
  | cons r rs ih =>
    intro st ps h
    obtain ⟨h1, h2⟩ := c09_load_exact line r h
    obtain ⟨h3, h4⟩ := ih h2
    have hl : loads chain line st (r :: rs) = loads chain line (load chain line st r) rs := rfl
    refine ⟨?_, ?_⟩
    · rw [hl, h3, h1]
      simp only [specLoads]
      rw [List.append_assoc]
      congr 1
      exact (specEvents_cons _ _).symm
    · rw [hl]; simpa [specLoads] using h4

/-- KEY LEMMA: after `merge_paths` the assigned-classification of every variable is the union
    classification of the two branches' path sets. -/
theorem c09_merge_set_is_union {parent left right : NameMap} {chain : List NameMap} {ps qs : List PState}
    (hl : InvSet (left :: parent :: chain) ps) (hr : InvSet (right :: parent :: chain) qs) :
    InvSet (mergePaths parent left right chain :: chain) (ps ++ qs) := by
  refine ⟨by simp [hl.1], fun x => ?_⟩
  rw [concSet_append hl.1 hr.1, ← hl.2 x, ← hr.2 x]
  simp only [absSet_eq]
  rw [findVar_mergePaths, optCls_mergeOpt]

theorem init_exact_aux (p : Prog) :
    ∀ (chain : List NameMap) (st : St) (ps : List PState), IfOnly p = true → InvSet (st.cur :: chain) ps →
      issueEvents (run p chain st).issues = issueEvents st.issues ++ specEvents (specRun p ps).events
      ∧ InvSet ((run p chain st).cur :: chain) (specRun p ps).paths := by
  induction p with
  | skip => intro chain st ps _ h; simpa [run, specRun, specEvents] using h
  | assign line x rs rest ih =>
    intro chain st ps hio h
    obtain ⟨h1, h2⟩ := loads_exact (chain := chain) line rs h
    obtain ⟨h3, h4⟩ := c09_store_exact x h2
    obtain ⟨h5, h6⟩ := ih chain _ _ (by simpa [IfOnly] using hio) h4
    refine ⟨?_, ?_⟩
    · simp only [run, specRun]
      rw [h5, h3, h1, specEvents_append]
      simp [List.append_assoc]
    · simpa [run, specRun] using h6
  | expr line rs rest ih =>
    intro chain st ps hio h
    obtain ⟨h1, h2⟩ := loads_exact (chain := chain) line rs h
    obtain ⟨h5, h6⟩ := ih chain _ _ (by simpa [IfOnly] using hio) h2
    refine ⟨?_, ?_⟩
    · simp only [run, specRun]
      rw [h5, h1, specEvents_append]
      simp [List.append_assoc]
    · simpa [run, specRun] using h6
  | ite line rs thn els rest iht ihe ihr =>
    intro chain st ps hio h
    simp only [IfOnly, Bool.and_eq_true] at hio
    obtain ⟨⟨hio1, hio2⟩, hio3⟩ := hio
    obtain ⟨h1, h2⟩ := loads_exact (chain := chain) line rs h
    simp only [run, specRun]
    generalize loads chain line st rs = st1 at h1 h2 ⊢
    obtain ⟨h3, h4⟩ := iht (st1.cur :: chain) { st1 with cur := [] } _ hio1 (invSet_nil_cons h2)
    generalize run thn (st1.cur :: chain) { st1 with cur := [] } = l at h3 h4 ⊢
    obtain ⟨h5, h6⟩ := ihe (st1.cur :: chain) { l with cur := [] } _ hio2 (invSet_nil_cons h2)
    generalize run els (st1.cur :: chain) { l with cur := [] } = r at h5 h6 ⊢
    have hm := c09_merge_set_is_union h4 h6
    obtain ⟨h7, h8⟩ := ihr chain { r with cur := mergePaths st1.cur l.cur r.cur chain } _ hio3 hm
    refine ⟨?_, h8⟩
    rw [h7]
    simp only []
    rw [h5]
    simp only []
    rw [h3]
    simp only []
    rw [h1]
    simp [specEvents_append, List.append_assoc]
  | «while» line rs body rest _ _ => intro chain st ps hio; simp [IfOnly] at hio
  | «for» line t rs body rest _ _ => intro chain st ps hio; simp [IfOnly] at hio

theorem invSet_start : InvSet (initSt.cur :: []) startPaths := by
  refine ⟨by simp [startPaths], fun x => ?_⟩
  simp [initSt, absSet, findVar, get, startPaths, concSet, classify]

/-- C09, first sentence, for EVERY program of the if-subset (any size, any nesting): the
    initialisation issues TIFA emits - as (class, variable, line), in order - are exactly the reads that
    are not assigned on every path, each with the class the set of all branch outcomes dictates:
    `none` (Initialization Problem / read-out-of-scope) when no path assigns first, `some` (Possible
    Initialization Problem) when only some do, and no issue when all do. -/
theorem c09_init_exact (p : Prog) (h : IfOnly p = true) :
    issueEvents (run p [] initSt).issues = specEvents (specRun p startPaths).events := by
  have := (init_exact_aux p [] initSt startPaths h invSet_start).1
  simpa [initSt, issueEvents] using this

/-! ## Part 1b: the unused-variable report (if-subset) -/

/-- Invariant for one variable `x`, valid as long as no read of `x` happened at a point where no path
    had assigned it: TIFA's `read` value of `x` against "read since the last assignment" over all paths. -/
def InvRead (x : Var) (maps : List NameMap) (ps : List PState) : Prop :=
  ∀ v, findVar maps x = some v →
    v.set ≠ .no ∧
    (v.read = .yes → ∀ σ ∈ ps, x ∈ σ.asg → x ∈ σ.rd) ∧
    (v.read = .no → ∀ σ ∈ ps, x ∈ σ.asg → x ∉ σ.rd) ∧
    (v.read = .maybe → ∃ σ ∈ ps, x ∈ σ.asg ∧ x ∈ σ.rd)

theorem noEUR_append (x : Var) (a b : List ReadEv) :
    NoEarlierUnsetRead x (a ++ b) = (NoEarlierUnsetRead x a && NoEarlierUnsetRead x b) := by
  simp [NoEarlierUnsetRead, List.all_append]

theorem exists_assigned {maps : List NameMap} {ps : List PState} {x : Var} {v : VState}
    (hs : InvSet maps ps) (hf : findVar maps x = some v) (hv : v.set ≠ .no) : ∃ σ ∈ ps, x ∈ σ.asg := by
  have h := hs.2 x
  simp only [absSet, hf] at h
  apply Classical.byContradiction
  intro hn
  have : concSet ps x = .none := (concSet_none_iff hs.1).2 (fun σ hσ hx => hn ⟨σ, hσ, hx⟩)
  rw [this] at h
  cases hset : v.set <;> simp [hset, triCls] at h
  exact hv hset

theorem none_assigned {maps : List NameMap} {ps : List PState} {x : Var}
    (hs : InvSet maps ps) (hf : findVar maps x = none) : ∀ σ ∈ ps, x ∉ σ.asg := by
  have h := hs.2 x
  simp only [absSet, hf] at h
  exact (concSet_none_iff hs.1).1 h.symm

/-- A state whose `read` is not 'no' witnesses a path that reads `x` after its last assignment. -/
theorem exists_readAfter {maps : List NameMap} {ps : List PState} {x : Var} {v : VState}
    (hs : InvSet maps ps) (hr : InvRead x maps ps) (hf : findVar maps x = some v) (hv : v.read ≠ .no) :
    ∃ σ ∈ ps, x ∈ σ.asg ∧ x ∈ σ.rd := by
  obtain ⟨h0, h1, _, h3⟩ := hr v hf
  cases hread : v.read with
  | no => exact absurd hread hv
  | maybe => exact h3 hread
  | yes =>
    obtain ⟨σ, hσ, hx⟩ := exists_assigned hs hf h0
    exact ⟨σ, hσ, hx, h1 hread σ hσ hx⟩

theorem invRead_congr {x : Var} {maps maps' : List NameMap} {ps : List PState} (f : PState → PState)
    (hfind : findVar maps' x = findVar maps x)
    (hasg : ∀ σ, x ∈ (f σ).asg ↔ x ∈ σ.asg) (hrd : ∀ σ, x ∈ (f σ).rd ↔ x ∈ σ.rd)
    (h : InvRead x maps ps) : InvRead x maps' (ps.map f) := by
  intro v hv
  rw [hfind] at hv
  obtain ⟨h0, h1, h2, h3⟩ := h v hv
  refine ⟨h0, ?_, ?_, ?_⟩
  · intro hy σ' hσ' hx
    obtain ⟨σ, hσ, rfl⟩ := List.mem_map.1 hσ'
    exact (hrd σ).2 (h1 hy σ hσ ((hasg σ).1 hx))
  · intro hy σ' hσ' hx hr
    obtain ⟨σ, hσ, rfl⟩ := List.mem_map.1 hσ'
    exact h2 hy σ hσ ((hasg σ).1 hx) ((hrd σ).1 hr)
  · intro hy
    obtain ⟨σ, hσ, hx, hr⟩ := h3 hy
    exact ⟨f σ, List.mem_map.2 ⟨σ, hσ, rfl⟩, (hasg σ).2 hx, (hrd σ).2 hr⟩

theorem load_find_ne {chain : List NameMap} {st : St} (line : Nat) {r x : Var} (h : r ≠ x) :
    findVar ((load chain line st r).cur :: chain) x = findVar (st.cur :: chain) x := by
  unfold load
  split <;> simp [findVar_put_ne _ _ _ h]

theorem load_find_self {chain : List NameMap} {st : St} (line : Nat) {x : Var} {v : VState}
    (h : findVar (st.cur :: chain) x = some v) :
    findVar ((load chain line st x).cur :: chain) x = some { v with read := .yes } := by
  unfold load
  simp [h, findVar_put_self]

theorem read_load {chain : List NameMap} {st : St} {ps : List PState} (line : Nat) (x r : Var)
    (hs : InvSet (st.cur :: chain) ps) (hr : InvRead x (st.cur :: chain) ps)
    (hno : NoEarlierUnsetRead x [⟨concSet ps r, r, line⟩] = true) :
    InvRead x ((load chain line st r).cur :: chain) (ps.map (pRead · r)) := by
  by_cases hrx : r = x
  · subst hrx
    have hc : concSet ps r ≠ .none := by
      intro hc; simp [NoEarlierUnsetRead, hc] at hno
    cases hf : findVar (st.cur :: chain) r with
    | none =>
      have := hs.2 r
      simp only [absSet, hf] at this
      exact absurd this.symm hc
    | some v =>
      intro v' hv'
      rw [load_find_self line hf] at hv'
      cases hv'
      obtain ⟨h0, _, _, _⟩ := hr v hf
      refine ⟨h0, ?_, ?_, ?_⟩
      · intro _ σ' hσ' _
        obtain ⟨σ, _, rfl⟩ := List.mem_map.1 hσ'
        simp [pRead]
      · intro h; cases h
      · intro h; cases h
  · have hxr : ¬ x = r := fun e => hrx e.symm
    exact invRead_congr (pRead · r) (load_find_ne line hrx) (fun σ => by simp [pRead])
      (fun σ => by simp [pRead, hxr]) hr

theorem read_store {chain : List NameMap} {st : St} {ps : List PState} (x y : Var)
    (hr : InvRead x (st.cur :: chain) ps) :
    InvRead x ((store st y).cur :: chain) (ps.map (pWrite · y)) := by
  by_cases hyx : y = x
  · subst hyx
    intro v hv
    simp only [store, findVar_put_self] at hv
    cases hv
    refine ⟨by simp, by simp, ?_, by simp⟩
    intro _ σ' hσ' _
    obtain ⟨σ, _, rfl⟩ := List.mem_map.1 hσ'
    simp [pWrite]
  · have hxy : ¬ x = y := fun e => hyx e.symm
    exact invRead_congr (pWrite · y) (by simp [store, findVar_put_ne _ _ _ hyx])
      (fun σ => by simp [pWrite, hxy]) (fun σ => by simp [pWrite, hxy]) hr

theorem read_loads {chain : List NameMap} (line : Nat) (x : Var) (rs : List Var) :
    ∀ {st : St} {ps : List PState}, InvSet (st.cur :: chain) ps → InvRead x (st.cur :: chain) ps →
      NoEarlierUnsetRead x (specLoads line ps rs).events = true →
      InvRead x ((loads chain line st rs).cur :: chain) (specLoads line ps rs).paths := by
  induction rs with
  | nil => intro st ps _ hr _; simpa [loads, specLoads] using hr
  | cons r rs ih =>
    intro st ps hs hr hno
    have hl : loads chain line st (r :: rs) = loads chain line (load chain line st r) rs := rfl
    simp only [specLoads] at hno ⊢
    have hsplit : NoEarlierUnsetRead x [⟨concSet ps r, r, line⟩] = true ∧
        NoEarlierUnsetRead x (specLoads line (ps.map (pRead · r)) rs).events = true := by
      have := noEUR_append x [⟨concSet ps r, r, line⟩] (specLoads line (ps.map (pRead · r)) rs).events
      simp only [List.singleton_append] at this
      rw [this] at hno
      simpa using hno
    rw [hl]
    exact ih (c09_load_exact line r hs).2 (read_load line x r hs hr hsplit.1) hsplit.2

theorem matchRso_eq_yes {a b : Tri} (h : matchRso a b = .yes) : a = .yes ∧ b = .yes := by
  cases a <;> cases b <;> simp [matchRso] at h ⊢

theorem matchRso_eq_no {a b : Tri} (h : matchRso a b = .no) : a = .no ∧ b = .no := by
  cases a <;> cases b <;> simp [matchRso] at h ⊢

theorem read_merge {x : Var} {parent left right : NameMap} {chain : List NameMap} {ps qs : List PState}
    (hsl : InvSet (left :: parent :: chain) ps) (hsr : InvSet (right :: parent :: chain) qs)
    (hl : InvRead x (left :: parent :: chain) ps) (hr : InvRead x (right :: parent :: chain) qs) :
    InvRead x (mergePaths parent left right chain :: chain) (ps ++ qs) := by
  intro v hv
  rw [findVar_mergePaths] at hv
  cases hfl : findVar (left :: parent :: chain) x with
  | none =>
    cases hfr : findVar (right :: parent :: chain) x with
    | none => simp [hfl, hfr, mergeOpt] at hv
    | some b =>
      simp only [hfl, hfr, mergeOpt, Option.some.injEq] at hv
      subst hv
      obtain ⟨b0, _, b2, _⟩ := hr b hfr
      have hnl := none_assigned hsl hfl
      refine ⟨by simp [combine, b0], ?_, ?_, ?_⟩
      · intro h; by_cases hb : b.read = .no <;> simp [combine, hb] at h
      · intro h
        have hb : b.read = .no := by
          by_cases hb : b.read = .no
          · exact hb
          · simp [combine, hb] at h
        intro σ hσ hx
        rcases List.mem_append.1 hσ with hσ | hσ
        · exact absurd hx (hnl σ hσ)
        · exact b2 hb σ hσ hx
      · intro h
        have hb : b.read ≠ .no := by
          intro hb; simp [combine, hb] at h
        obtain ⟨σ, hσ, hy⟩ := exists_readAfter hsr hr hfr hb
        exact ⟨σ, List.mem_append_right _ hσ, hy⟩
  | some a =>
    obtain ⟨a0, a1, a2, _⟩ := hl a hfl
    cases hfr : findVar (right :: parent :: chain) x with
    | none =>
      simp only [hfl, hfr, mergeOpt, Option.some.injEq] at hv
      subst hv
      have hnr := none_assigned hsr hfr
      refine ⟨by simp [combine, a0], ?_, ?_, ?_⟩
      · intro h; by_cases ha : a.read = .no <;> simp [combine, ha] at h
      · intro h
        have ha : a.read = .no := by
          by_cases ha : a.read = .no
          · exact ha
          · simp [combine, ha] at h
        intro σ hσ hx
        rcases List.mem_append.1 hσ with hσ | hσ
        · exact a2 ha σ hσ hx
        · exact absurd hx (hnr σ hσ)
      · intro h
        have ha : a.read ≠ .no := by
          intro ha; simp [combine, ha] at h
        obtain ⟨σ, hσ, hy⟩ := exists_readAfter hsl hl hfl ha
        exact ⟨σ, List.mem_append_left _ hσ, hy⟩
    | some b =>
      simp only [hfl, hfr, mergeOpt, Option.some.injEq] at hv
      subst hv
      obtain ⟨b0, b1, b2, _⟩ := hr b hfr
      refine ⟨?_, ?_, ?_, ?_⟩
      · intro h
        exact a0 (matchRso_eq_no (by simpa [combine] using h)).1
      · intro h
        obtain ⟨ha, hb⟩ := matchRso_eq_yes (a := a.read) (b := b.read) (by simpa [combine] using h)
        intro σ hσ hx
        rcases List.mem_append.1 hσ with hσ | hσ
        · exact a1 ha σ hσ hx
        · exact b1 hb σ hσ hx
      · intro h
        obtain ⟨ha, hb⟩ := matchRso_eq_no (a := a.read) (b := b.read) (by simpa [combine] using h)
        intro σ hσ hx
        rcases List.mem_append.1 hσ with hσ | hσ
        · exact a2 ha σ hσ hx
        · exact b2 hb σ hσ hx
      · intro h
        have hor : a.read ≠ .no ∨ b.read ≠ .no := by
          by_cases ha : a.read = .no
          · by_cases hb : b.read = .no
            · simp [combine, ha, hb, matchRso] at h
            · exact Or.inr hb
          · exact Or.inl ha
        rcases hor with ha | hb
        · obtain ⟨σ, hσ, hy⟩ := exists_readAfter hsl hl hfl ha
          exact ⟨σ, List.mem_append_left _ hσ, hy⟩
        · obtain ⟨σ, hσ, hy⟩ := exists_readAfter hsr hr hfr hb
          exact ⟨σ, List.mem_append_right _ hσ, hy⟩

theorem invRead_nil_cons {x : Var} {maps : List NameMap} {ps : List PState} (h : InvRead x maps ps) :
    InvRead x ([] :: maps) ps := by
  intro v hv
  exact h v (by simpa using hv)

theorem read_exact_aux (x : Var) (p : Prog) :
    ∀ (chain : List NameMap) (st : St) (ps : List PState), IfOnly p = true →
      InvSet (st.cur :: chain) ps → InvRead x (st.cur :: chain) ps →
      NoEarlierUnsetRead x (specRun p ps).events = true →
      InvRead x ((run p chain st).cur :: chain) (specRun p ps).paths := by
  induction p with
  | skip => intro chain st ps _ _ hr _; simpa [run, specRun] using hr
  | assign line y rs rest ih =>
    intro chain st ps hio hs hr hno
    simp only [specRun, noEUR_append, Bool.and_eq_true] at hno
    have hs1 := (loads_exact (chain := chain) line rs hs).2
    have hr1 := read_loads line x rs hs hr hno.1
    have hs2 := (c09_store_exact y hs1).2
    have hr2 := read_store x y hr1
    simpa [run, specRun] using ih chain _ _ (by simpa [IfOnly] using hio) hs2 hr2 hno.2
  | expr line rs rest ih =>
    intro chain st ps hio hs hr hno
    simp only [specRun, noEUR_append, Bool.and_eq_true] at hno
    have hs1 := (loads_exact (chain := chain) line rs hs).2
    have hr1 := read_loads line x rs hs hr hno.1
    simpa [run, specRun] using ih chain _ _ (by simpa [IfOnly] using hio) hs1 hr1 hno.2
  | ite line rs thn els rest iht ihe ihr =>
    intro chain st ps hio hs hr hno
    simp only [IfOnly, Bool.and_eq_true] at hio
    obtain ⟨⟨hio1, hio2⟩, hio3⟩ := hio
    simp only [specRun, noEUR_append, Bool.and_eq_true] at hno
    obtain ⟨⟨⟨hno0, hno1⟩, hno2⟩, hno3⟩ := hno
    have hs1 := (loads_exact (chain := chain) line rs hs).2
    have hr1 := read_loads line x rs hs hr hno0
    simp only [run, specRun]
    generalize loads chain line st rs = st1 at hs1 hr1 ⊢
    have hs2 := (init_exact_aux thn (st1.cur :: chain) { st1 with cur := [] } _ hio1 (invSet_nil_cons hs1)).2
    have hr2 := iht (st1.cur :: chain) { st1 with cur := [] } _ hio1 (invSet_nil_cons hs1) (invRead_nil_cons hr1) hno1
    generalize run thn (st1.cur :: chain) { st1 with cur := [] } = l at hs2 hr2 ⊢
    have hs3 := (init_exact_aux els (st1.cur :: chain) { l with cur := [] } _ hio2 (invSet_nil_cons hs1)).2
    have hr3 := ihe (st1.cur :: chain) { l with cur := [] } _ hio2 (invSet_nil_cons hs1) (invRead_nil_cons hr1) hno2
    generalize run els (st1.cur :: chain) { l with cur := [] } = r at hs3 hr3 ⊢
    exact ihr chain { r with cur := mergePaths st1.cur l.cur r.cur chain } _ hio3
      (c09_merge_set_is_union hs2 hs3) (read_merge hs2 hs3 hr2 hr3) hno3
  | «while» line rs body rest _ _ => intro chain st ps hio; simp [IfOnly] at hio
  | «for» line t rs body rest _ _ => intro chain st ps hio; simp [IfOnly] at hio

theorem mem_finishScope {root : NameMap} {x : Var} :
    x ∈ finishScope root ↔ ∃ v, get root x = some v ∧ v.read = .no := by
  unfold finishScope
  rw [List.mem_filter]
  constructor
  · intro ⟨_, h⟩
    cases hg : get root x with
    | none => simp [hg] at h
    | some v => exact ⟨v, rfl, by simpa [hg] using h⟩
  · intro ⟨v, hg, hv⟩
    exact ⟨mem_keys_of_get hg, by simp [hg, hv]⟩

/-- The paths' verdict on `x`: some path assigns it and no path reads it after its last assignment. -/
def NeverReadAfter (x : Var) (ps : List PState) : Prop :=
  (∃ σ ∈ ps, x ∈ σ.asg) ∧ ∀ σ ∈ ps, x ∈ σ.asg → x ∉ σ.rd

/-- The full-strength second sentence of C09 (refuted below: `c09_unused_phantom_counterexample`). -/
def C09_UnusedExact_Full : Prop :=
  ∀ (p : Prog) (x : Var), IfOnly p = true →
    (x ∈ unusedReported p ↔ NeverReadAfter x (specRun p startPaths).paths)

/-- C09, second sentence, for every if-subset program and every variable that is nowhere read while
    assigned on no path: `x` is reported unused EXACTLY when some path assigns it and no path reads it
    after its last assignment. -/
theorem c09_unused_exact (p : Prog) (x : Var) (h : IfOnly p = true)
    (hno : NoEarlierUnsetRead x (specRun p startPaths).events = true) :
    x ∈ unusedReported p ↔ NeverReadAfter x (specRun p startPaths).paths := by
  have hs := (init_exact_aux p [] initSt startPaths h invSet_start).2
  have hr : InvRead x ((run p [] initSt).cur :: []) (specRun p startPaths).paths :=
    read_exact_aux x p [] initSt startPaths h invSet_start
      (by intro v hv; simp [initSt, findVar, get] at hv) hno
  unfold unusedReported
  rw [mem_finishScope]
  constructor
  · intro ⟨v, hg, hv⟩
    have hf : findVar [(run p [] initSt).cur] x = some v := by rw [findVar_single]; exact hg
    obtain ⟨h0, _, h2, _⟩ := hr v hf
    exact ⟨exists_assigned hs hf h0, h2 hv⟩
  · intro ⟨⟨σ, hσ, hx⟩, hall⟩
    cases hf : findVar [(run p [] initSt).cur] x with
    | none => exact absurd hx (none_assigned hs hf σ hσ)
    | some v =>
      refine ⟨v, by rw [← findVar_single]; exact hf, ?_⟩
      apply Classical.byContradiction
      intro hv
      obtain ⟨τ, hτ, hy, hz⟩ := exists_readAfter hs hr hf hv
      exact hall τ hτ hy hz

/-- "a variable never read after its last assignment on any path is reported unused" -/
theorem c09_unused_reported_when_never_read (p : Prog) (x : Var) (h : IfOnly p = true)
    (hno : NoEarlierUnsetRead x (specRun p startPaths).events = true)
    (hasg : ∃ σ ∈ (specRun p startPaths).paths, x ∈ σ.asg)
    (hnever : ∀ σ ∈ (specRun p startPaths).paths, x ∈ σ.asg → x ∉ σ.rd) :
    x ∈ unusedReported p :=
  (c09_unused_exact p x h hno).2 ⟨hasg, hnever⟩

/-- "… and one read after its last assignment on every path is not" -/
theorem c09_unused_not_reported_when_always_read (p : Prog) (x : Var) (h : IfOnly p = true)
    (hno : NoEarlierUnsetRead x (specRun p startPaths).events = true)
    (halways : ∀ σ ∈ (specRun p startPaths).paths, x ∈ σ.asg → x ∈ σ.rd) :
    x ∉ unusedReported p := by
  intro hrep
  obtain ⟨⟨σ, hσ, hx⟩, hall⟩ := (c09_unused_exact p x h hno).1 hrep
  exact hall σ hσ hx (halways σ hσ hx)

/-- The partial theorem is the full statement minus exactly the excluded region. -/
theorem c09_unused_full_of_no_excluded
    (hex : ∀ (p : Prog) (x : Var), NoEarlierUnsetRead x (specRun p startPaths).events = true) :
    C09_UnusedExact_Full :=
  fun p x h => c09_unused_exact p x h (hex p x)

/-- `print(x)` / `if c: x = 1` (after `c = 1`): x is never read after its assignment, TIFA does not
    report it (the phantom `{set: no, read: yes}` state left by the first read merges to 'maybe'). -/
def phantomWitness : Prog :=
  .assign 1 3 [] (.expr 2 [0] (.ite 3 [3] (.assign 4 0 [] .skip) .skip .skip))

theorem c09_unused_phantom_counterexample : ¬ C09_UnusedExact_Full := by
  intro hfull
  have h := (hfull phantomWitness 0 (by decide)).2
  have hn : NeverReadAfter 0 (specRun phantomWitness startPaths).paths := by
    refine ⟨⟨⟨[0, 3], [3]⟩, by decide, by decide⟩, ?_⟩
    intro σ hσ
    have : σ = ⟨[0, 3], [3]⟩ ∨ σ = ⟨[3], [3, 0]⟩ := by
      have hp : (specRun phantomWitness startPaths).paths = [⟨[0, 3], [3]⟩, ⟨[3], [3, 0]⟩] := by decide
      rw [hp] at hσ
      simpa using hσ
    rcases this with rfl | rfl <;> decide
  have : (0 : Var) ∈ unusedReported phantomWitness := h hn
  exact absurd this (by decide)

-- non-vacuity of the hypothesis, and of both verdicts
example : NoEarlierUnsetRead 0 (specRun (.assign 1 3 [] (.ite 2 [3] (.assign 3 0 [] .skip) .skip .skip)) startPaths).events = true := by decide
example : unusedReported (.assign 1 3 [] (.ite 2 [3] (.assign 3 0 [] .skip) .skip .skip)) = [0] := by decide
example : unusedReported (.assign 1 3 [] (.ite 2 [3] (.assign 3 0 [] .skip) .skip (.expr 4 [0] .skip))) = [] := by decide

/-! ## Part 2: loops - no missed uninitialised read -/

/-- Soundness invariant: whatever TIFA considers definitely set is assigned in the concrete state. -/
def Sound (maps : List NameMap) (σ : List Var) : Prop :=
  ∀ x v, findVar maps x = some v → v.set = .yes → x ∈ σ

theorem sound_mono {maps : List NameMap} {σ τ : List Var} (h : Sound maps σ) (hsub : ∀ x ∈ σ, x ∈ τ) :
    Sound maps τ :=
  fun x v hf hv => hsub x (h x v hf hv)

theorem sound_nil_cons {maps : List NameMap} {σ : List Var} (h : Sound maps σ) : Sound ([] :: maps) σ :=
  fun x v hf hv => h x v (by simpa using hf) hv

theorem runs_mono {p : Prog} {σ σ' : List Var} {e : List (Var × Nat)} (h : Runs p σ e σ') :
    ∀ x ∈ σ, x ∈ σ' := by
  induction h with
  | skip σ => intro x hx; exact hx
  | assign _ ih => intro x hx; exact ih x (List.mem_cons_of_mem _ hx)
  | expr _ ih => exact ih
  | iteT _ _ ih1 ih2 => intro x hx; exact ih2 x (ih1 x hx)
  | iteF _ _ ih1 ih2 => intro x hx; exact ih2 x (ih1 x hx)
  | whileStop _ ih => exact ih
  | whileIter _ _ ih1 ih2 => intro x hx; exact ih2 x (ih1 x hx)
  | forStop _ ih => exact ih
  | forIter _ _ ih1 ih2 => intro x hx; exact ih2 x (ih1 x (List.mem_cons_of_mem _ hx))

theorem load_issues_mono {chain : List NameMap} {st : St} (line : Nat) (x : Var) {i : Issue}
    (h : i ∈ st.issues) : i ∈ (load chain line st x).issues := by
  unfold load
  split <;> exact List.mem_append_left _ h

theorem loads_issues_mono {chain : List NameMap} (line : Nat) (rs : List Var) :
    ∀ {st : St} {i : Issue}, i ∈ st.issues → i ∈ (loads chain line st rs).issues := by
  induction rs with
  | nil => intro st i h; exact h
  | cons r rs ih => intro st i h; exact ih (load_issues_mono line r h)

theorem run_issues_mono (p : Prog) :
    ∀ (chain : List NameMap) (st : St) {i : Issue}, i ∈ st.issues → i ∈ (run p chain st).issues := by
  induction p with
  | skip => intro chain st i h; exact h
  | assign line x rs rest ih =>
    intro chain st i h
    exact ih chain _ (loads_issues_mono (chain := chain) line rs h)
  | expr line rs rest ih =>
    intro chain st i h
    exact ih chain _ (loads_issues_mono (chain := chain) line rs h)
  | ite line rs thn els rest iht ihe ihr =>
    intro chain st i h
    simp only [run]
    exact ihr chain _ (ihe _ _ (iht _ _ (loads_issues_mono (chain := chain) line rs h)))
  | «while» line rs body rest ihb ihr =>
    intro chain st i h
    simp only [run]
    exact ihr chain _ (loads_issues_mono line rs (ihb _ _ (loads_issues_mono (chain := chain) line rs h)))
  | «for» line t rs body rest ihb ihr =>
    intro chain st i h
    simp only [run]
    exact ihr chain _ (ihb chain _ (loads_issues_mono (chain := chain) line rs h))

theorem mem_issueSites {is : List Issue} {e : Var × Nat} :
    e ∈ issueSites is ↔ ∃ i ∈ is, i.label ≠ .unused ∧ (i.name, i.line) = e := by
  simp [issueSites, List.mem_map, List.mem_filter, and_assoc]

theorem issueSites_mono {a b : List Issue} (h : ∀ i ∈ a, i ∈ b) {e : Var × Nat} (he : e ∈ issueSites a) :
    e ∈ issueSites b := by
  obtain ⟨i, hi, hl, hs⟩ := mem_issueSites.1 he
  exact mem_issueSites.2 ⟨i, h i hi, hl, hs⟩

/-- `load_variable` is sound: it keeps the invariant and reports the read if the variable is unassigned. -/
theorem load_sound {chain : List NameMap} {st : St} {σ : List Var} (line : Nat) (x : Var)
    (h : Sound (st.cur :: chain) σ) :
    Sound ((load chain line st x).cur :: chain) σ ∧
    (x ∉ σ → (x, line) ∈ issueSites (load chain line st x).issues) := by
  constructor
  · intro y v hf hv
    by_cases hxy : x = y
    · subst hxy
      cases hfx : findVar (st.cur :: chain) x with
      | none =>
        unfold load at hf
        simp [hfx, findVar_put_self] at hf
        subst hf
        cases hv
      | some w =>
        rw [load_find_self line hfx] at hf
        cases hf
        exact h x w hfx hv
    · rw [load_find_ne line hxy] at hf
      exact h y v hf hv
  · intro hx
    apply mem_issueSites.2
    unfold load
    cases hfx : findVar (st.cur :: chain) x with
    | none =>
      refine ⟨⟨if x ∈ st.seen then .readOutOfScope else .initProblem, x, line⟩, by simp, ?_, rfl⟩
      by_cases hs : x ∈ st.seen <;> simp [hs]
    | some w =>
      cases hw : w.set with
      | yes => exact absurd (h x w hfx hw) hx
      | no => exact ⟨⟨.initProblem, x, line⟩, by simp [hw], by simp, rfl⟩
      | maybe => exact ⟨⟨.possibleInit, x, line⟩, by simp [hw], by simp, rfl⟩

theorem loads_sound {chain : List NameMap} {σ : List Var} (line : Nat) (rs : List Var) :
    ∀ {st : St}, Sound (st.cur :: chain) σ →
      Sound ((loads chain line st rs).cur :: chain) σ ∧
      ∀ e ∈ unsetReads σ line rs, e ∈ issueSites (loads chain line st rs).issues := by
  induction rs with
  | nil => intro st h; exact ⟨h, by simp [unsetReads]⟩
  | cons r rs ih =>
    intro st h
    obtain ⟨h1, h2⟩ := load_sound line r h
    obtain ⟨h3, h4⟩ := ih h1
    have hl : loads chain line st (r :: rs) = loads chain line (load chain line st r) rs := rfl
    refine ⟨by rw [hl]; exact h3, ?_⟩
    intro e he
    rw [hl]
    by_cases hr : r ∈ σ
    · have : unsetReads σ line (r :: rs) = unsetReads σ line rs := by simp [unsetReads, hr]
      exact h4 e (this ▸ he)
    · have : unsetReads σ line (r :: rs) = (r, line) :: unsetReads σ line rs := by
        simp [unsetReads, hr]
      rw [this] at he
      rcases List.mem_cons.1 he with rfl | he
      · exact issueSites_mono (fun i hi => loads_issues_mono line rs hi) (h2 hr)
      · exact h4 e he

theorem store_sound {chain : List NameMap} {st : St} {σ : List Var} (x : Var)
    (h : Sound (st.cur :: chain) σ) : Sound ((store st x).cur :: chain) (x :: σ) := by
  intro y v hf hv
  by_cases hxy : x = y
  · subst hxy; simp
  · simp only [store, findVar_put_ne _ _ _ hxy] at hf
    exact List.mem_cons_of_mem _ (h y v hf hv)

theorem mergeOpt_set_yes {a b : Option VState} {v : VState} (h : mergeOpt a b = some v) (hv : v.set = .yes) :
    (∃ a', a = some a' ∧ a'.set = .yes) ∧ (∃ b', b = some b' ∧ b'.set = .yes) := by
  cases a with
  | none =>
    cases b with
    | none => simp [mergeOpt] at h
    | some b =>
      simp only [mergeOpt, Option.some.injEq] at h
      subst h
      by_cases hb : b.set = .no <;> simp [combine, hb] at hv
  | some a =>
    cases b with
    | none =>
      simp only [mergeOpt, Option.some.injEq] at h
      subst h
      by_cases ha : a.set = .no <;> simp [combine, ha] at hv
    | some b =>
      simp only [mergeOpt, Option.some.injEq] at h
      subst h
      obtain ⟨ha, hb⟩ := matchRso_eq_yes (a := a.set) (b := b.set) (by simpa [combine] using hv)
      exact ⟨⟨a, rfl, ha⟩, ⟨b, rfl, hb⟩⟩

/-- After `merge_paths`, "definitely set" requires "definitely set" at the end of BOTH branch paths,
    so the merged state is sound for whichever branch the execution took. -/
theorem merge_sound_left {parent left right : NameMap} {chain : List NameMap} {σ : List Var}
    (h : Sound (left :: parent :: chain) σ) : Sound (mergePaths parent left right chain :: chain) σ := by
  intro x v hf hv
  rw [findVar_mergePaths] at hf
  obtain ⟨⟨a, ha, has⟩, _⟩ := mergeOpt_set_yes hf hv
  exact h x a ha has

theorem merge_sound_right {parent left right : NameMap} {chain : List NameMap} {σ : List Var}
    (h : Sound (right :: parent :: chain) σ) : Sound (mergePaths parent left right chain :: chain) σ := by
  intro x v hf hv
  rw [findVar_mergePaths] at hf
  obtain ⟨_, ⟨b, hb, hbs⟩⟩ := mergeOpt_set_yes hf hv
  exact h x b hb hbs

theorem loops_sound_aux {p : Prog} {σ σ' : List Var} {evs : List (Var × Nat)} (hrun : Runs p σ evs σ') :
    NoFor p = true → ∀ (chain : List NameMap) (st : St), Sound (st.cur :: chain) σ →
      (∀ e ∈ evs, e ∈ issueSites (run p chain st).issues) ∧ Sound ((run p chain st).cur :: chain) σ' := by
  induction hrun with
  | skip σ => intro _ chain st h; exact ⟨by simp, h⟩
  | @assign line x rs rest σ e σ' _ ih =>
    intro hnf chain st h
    obtain ⟨h1, h2⟩ := loads_sound (chain := chain) line rs h
    obtain ⟨h3, h4⟩ := ih (by simpa [NoFor] using hnf) chain _ (store_sound x h1)
    refine ⟨?_, by simpa [run] using h4⟩
    intro ev hev
    simp only [run]
    rcases List.mem_append.1 hev with hev | hev
    · refine issueSites_mono ?_ (h2 ev hev); intro i hi; exact run_issues_mono rest chain _ (by simpa [store] using hi)
    · exact h3 ev hev
  | @expr line rs rest σ e σ' _ ih =>
    intro hnf chain st h
    obtain ⟨h1, h2⟩ := loads_sound (chain := chain) line rs h
    obtain ⟨h3, h4⟩ := ih (by simpa [NoFor] using hnf) chain _ h1
    refine ⟨?_, by simpa [run] using h4⟩
    intro ev hev
    simp only [run]
    rcases List.mem_append.1 hev with hev | hev
    · refine issueSites_mono ?_ (h2 ev hev); intro i hi; exact run_issues_mono rest chain _ hi
    · exact h3 ev hev
  | @iteT line rs thn els rest σ e1 σ1 e2 σ2 _ _ ih1 ih2 =>
    intro hnf chain st h
    simp only [NoFor, Bool.and_eq_true] at hnf
    obtain ⟨⟨hnf1, _⟩, hnf3⟩ := hnf
    obtain ⟨h1, h2⟩ := loads_sound (chain := chain) line rs h
    simp only [run]
    generalize loads chain line st rs = st1 at h1 h2 ⊢
    obtain ⟨h3, h4⟩ := ih1 hnf1 (st1.cur :: chain) { st1 with cur := [] } (sound_nil_cons h1)
    generalize hl : run thn (st1.cur :: chain) { st1 with cur := [] } = l at h3 h4 ⊢
    have hst1l : ∀ i ∈ st1.issues, i ∈ l.issues := by
      intro i hi; rw [← hl]; exact run_issues_mono thn _ _ hi
    generalize hr : run els (st1.cur :: chain) { l with cur := [] } = r
    have hlr : ∀ i ∈ l.issues, i ∈ r.issues := by
      intro i hi; rw [← hr]; exact run_issues_mono els _ _ hi
    obtain ⟨h5, h6⟩ := ih2 hnf3 chain { r with cur := mergePaths st1.cur l.cur r.cur chain }
      (merge_sound_left h4)
    refine ⟨?_, h6⟩
    intro ev hev
    rcases List.mem_append.1 hev with hev | hev
    · refine issueSites_mono ?_ (h2 ev hev); intro i hi; exact run_issues_mono rest chain { r with cur := mergePaths st1.cur l.cur r.cur chain } (hlr i (hst1l i hi))
    · rcases List.mem_append.1 hev with hev | hev
      · refine issueSites_mono ?_ (h3 ev hev); intro i hi; exact run_issues_mono rest chain { r with cur := mergePaths st1.cur l.cur r.cur chain } (hlr i hi)
      · exact h5 ev hev
  | @iteF line rs thn els rest σ e1 σ1 e2 σ2 _ _ ih1 ih2 =>
    intro hnf chain st h
    simp only [NoFor, Bool.and_eq_true] at hnf
    obtain ⟨⟨_, hnf2⟩, hnf3⟩ := hnf
    obtain ⟨h1, h2⟩ := loads_sound (chain := chain) line rs h
    simp only [run]
    generalize loads chain line st rs = st1 at h1 h2 ⊢
    generalize hl : run thn (st1.cur :: chain) { st1 with cur := [] } = l
    have hst1l : ∀ i ∈ st1.issues, i ∈ l.issues := by
      intro i hi; rw [← hl]; exact run_issues_mono thn _ _ hi
    obtain ⟨h3, h4⟩ := ih1 hnf2 (st1.cur :: chain) { l with cur := [] } (sound_nil_cons h1)
    generalize hr : run els (st1.cur :: chain) { l with cur := [] } = r at h3 h4 ⊢
    have hlr : ∀ i ∈ l.issues, i ∈ r.issues := by
      intro i hi; rw [← hr]; exact run_issues_mono els _ { l with cur := [] } hi
    obtain ⟨h5, h6⟩ := ih2 hnf3 chain { r with cur := mergePaths st1.cur l.cur r.cur chain }
      (merge_sound_right h4)
    refine ⟨?_, h6⟩
    intro ev hev
    rcases List.mem_append.1 hev with hev | hev
    · refine issueSites_mono ?_ (h2 ev hev); intro i hi; exact run_issues_mono rest chain { r with cur := mergePaths st1.cur l.cur r.cur chain } (hlr i (hst1l i hi))
    · rcases List.mem_append.1 hev with hev | hev
      · refine issueSites_mono ?_ (h3 ev hev); intro i hi; exact run_issues_mono rest chain { r with cur := mergePaths st1.cur l.cur r.cur chain } hi
      · exact h5 ev hev
  | @whileStop line rs body rest σ e σ' _ ih =>
    intro hnf chain st h
    simp only [NoFor, Bool.and_eq_true] at hnf
    obtain ⟨h1, h2⟩ := loads_sound (chain := chain) line rs h
    simp only [run]
    generalize loads chain line st rs = st1 at h1 h2 ⊢
    generalize hb : run body (st1.cur :: chain) { st1 with cur := [] } = b
    have hst1b : ∀ i ∈ st1.issues, i ∈ b.issues := by
      intro i hi; rw [← hb]; exact run_issues_mono body _ _ hi
    generalize hb' : loads (st1.cur :: chain) line b rs = b'
    have hbb' : ∀ i ∈ b.issues, i ∈ b'.issues := by
      intro i hi; rw [← hb']; exact loads_issues_mono line rs hi
    obtain ⟨h5, h6⟩ := ih hnf.2 chain { b' with cur := mergePaths st1.cur b'.cur [] chain }
      (merge_sound_right (sound_nil_cons h1))
    refine ⟨?_, h6⟩
    intro ev hev
    rcases List.mem_append.1 hev with hev | hev
    · refine issueSites_mono ?_ (h2 ev hev); intro i hi; exact run_issues_mono rest chain _ (hbb' i (hst1b i hi))
    · exact h5 ev hev
  | @whileIter line rs body rest σ e1 σ1 e2 σ2 hbody _ ih1 ih2 =>
    intro hnf chain st h
    have hnf' := hnf
    simp only [NoFor, Bool.and_eq_true] at hnf'
    -- the rest of the loop, started after one iteration, is covered by the SAME analysis of the loop:
    -- the abstract entry state is still sound because assignments only accumulate
    obtain ⟨h5, h6⟩ := ih2 hnf chain st (sound_mono h (runs_mono hbody))
    refine ⟨?_, h6⟩
    intro ev hev
    rcases List.mem_append.1 hev with hev | hev
    · obtain ⟨_, h2⟩ := loads_sound (chain := chain) line rs h
      simp only [run]
      refine issueSites_mono ?_ (h2 ev hev); intro i hi; exact run_issues_mono rest chain _ (loads_issues_mono line rs (run_issues_mono body _ _ hi))
    · rcases List.mem_append.1 hev with hev | hev
      · obtain ⟨h1, _⟩ := loads_sound (chain := chain) line rs h
        obtain ⟨h3, _⟩ := ih1 hnf'.1 ((loads chain line st rs).cur :: chain)
          { loads chain line st rs with cur := [] } (sound_nil_cons h1)
        simp only [run]
        refine issueSites_mono ?_ (h3 ev hev); intro i hi; exact run_issues_mono rest chain _ (loads_issues_mono line rs hi)
      · exact h5 ev hev
  | forStop _ _ => intro hnf; simp [NoFor] at hnf
  | forIter _ _ _ _ => intro hnf; simp [NoFor] at hnf

/-- The full-strength third sentence of C09: every read that is unassigned on some execution (any
    branch outcomes, any iteration counts) is reported at that line.  Refuted by `for` below. -/
def C09_LoopsSound_Full : Prop :=
  ∀ (p : Prog) (evs : List (Var × Nat)) (σ' : List Var), Runs p [] evs σ' →
    ∀ e ∈ evs, e ∈ issueSites (analyse p)

/-- C09, third sentence, for every program built from assignments, expressions, if/else and `while`
    (any nesting, any iteration counts): no missed uninitialised read. -/
theorem c09_loops_sound_partial (p : Prog) (h : NoFor p = true) (evs : List (Var × Nat)) (σ' : List Var)
    (hrun : Runs p [] evs σ') : ∀ e ∈ evs, e ∈ issueSites (analyse p) := by
  intro e he
  have hs : Sound (initSt.cur :: []) [] := by
    intro x v hf; simp [initSt, findVar, get] at hf
  have := (loops_sound_aux hrun h [] initSt hs).1 e he
  exact issueSites_mono (fun i hi => List.mem_append_left _ hi) this

theorem c09_loops_sound_full_of_no_for (hex : ∀ p : Prog, NoFor p = true) : C09_LoopsSound_Full :=
  fun p evs σ' hrun => c09_loops_sound_partial p (hex p) evs σ' hrun

/-- `xs = 1` / `for k in xs: x = 1` / `print(x)`. -/
def forWitness : Prog :=
  .assign 1 6 [] (.for 2 5 [6] (.assign 3 0 [] .skip) (.expr 4 [0] .skip))

theorem forWitness_runs : Runs forWitness [] [(0, 4)] [6] :=
  Runs.assign (Runs.forStop (Runs.expr (Runs.skip _)))

/-- The zero-iteration execution reads `x` unassigned at line 4; TIFA analyses the body as if it always
    ran and reports nothing there. -/
theorem c09_for_zero_iterations_counterexample : ¬ C09_LoopsSound_Full := by
  intro hfull
  have := hfull forWitness _ _ forWitness_runs (0, 4) (by simp)
  exact absurd this (by decide)

-- non-vacuity: a `while` program with an execution that reads an unassigned variable, reported
example : Runs (.assign 1 3 [] (.while 2 [3] (.assign 3 0 [] .skip) (.expr 4 [0] .skip))) [] [(0, 4)] [3] :=
  Runs.assign (Runs.whileStop (Runs.expr (Runs.skip _)))
example : issueSites (analyse (.assign 1 3 [] (.while 2 [3] (.assign 3 0 [] .skip) (.expr 4 [0] .skip)))) = [(0, 4)] := by
  decide

/-! ## The two concrete semantics agree on the if-subset -/

theorem specLoads_asg (line : Nat) (rs : List Var) :
    ∀ ps : List PState, (specLoads line ps rs).paths.map PState.asg = ps.map PState.asg := by
  induction rs with
  | nil => intro ps; rfl
  | cons r rs ih =>
    intro ps
    simp only [specLoads]
    rw [ih]
    simp [pRead, List.map_map, Function.comp_def]

/-- The path list of `specRun` is exactly the set of complete executions of `Runs`: a final
    assigned-set is in the list iff some execution from one of the start states ends in it. -/
theorem c09_paths_are_executions (p : Prog) (h : IfOnly p = true) :
    ∀ (ps : List PState) (τ : List Var),
      τ ∈ (specRun p ps).paths.map PState.asg ↔ ∃ σ ∈ ps.map PState.asg, ∃ evs, Runs p σ evs τ := by
  induction p with
  | skip =>
    intro ps τ
    simp only [specRun]
    constructor
    · intro hτ; exact ⟨τ, hτ, [], Runs.skip τ⟩
    · intro ⟨σ, hσ, evs, hr⟩; cases hr; exact hσ
  | assign line x rs rest ih =>
    intro ps τ
    simp only [specRun]
    rw [ih (by simpa [IfOnly] using h)]
    have hmap : ((specLoads line ps rs).paths.map (pWrite · x)).map PState.asg
        = (ps.map PState.asg).map (x :: ·) := by
      rw [← specLoads_asg line rs ps]
      simp [pWrite, List.map_map, Function.comp_def]
    rw [hmap]
    constructor
    · intro ⟨σ', hσ', evs, hr⟩
      obtain ⟨σ, hσ, rfl⟩ := List.mem_map.1 hσ'
      exact ⟨σ, hσ, _, Runs.assign hr⟩
    · intro ⟨σ, hσ, evs, hr⟩
      cases hr with
      | assign hr' => exact ⟨x :: σ, List.mem_map.2 ⟨σ, hσ, rfl⟩, _, hr'⟩
  | expr line rs rest ih =>
    intro ps τ
    simp only [specRun]
    rw [ih (by simpa [IfOnly] using h), specLoads_asg]
    constructor
    · intro ⟨σ, hσ, evs, hr⟩; exact ⟨σ, hσ, _, Runs.expr hr⟩
    · intro ⟨σ, hσ, evs, hr⟩
      cases hr with
      | expr hr' => exact ⟨σ, hσ, _, hr'⟩
  | ite line rs thn els rest iht ihe ihr =>
    intro ps τ
    simp only [IfOnly, Bool.and_eq_true] at h
    obtain ⟨⟨h1, h2⟩, h3⟩ := h
    simp only [specRun]
    rw [ihr h3, List.map_append]
    constructor
    · intro ⟨σ1, hσ1, e2, hr2⟩
      rcases List.mem_append.1 hσ1 with hσ1 | hσ1
      · obtain ⟨σ, hσ, e1, hr1⟩ := (iht h1 _ σ1).1 hσ1
        rw [specLoads_asg] at hσ
        exact ⟨σ, hσ, _, Runs.iteT hr1 hr2⟩
      · obtain ⟨σ, hσ, e1, hr1⟩ := (ihe h2 _ σ1).1 hσ1
        rw [specLoads_asg] at hσ
        exact ⟨σ, hσ, _, Runs.iteF hr1 hr2⟩
    · intro ⟨σ, hσ, evs, hr⟩
      cases hr with
      | iteT hr1 hr2 =>
        refine ⟨_, List.mem_append_left _ ((iht h1 _ _).2 ⟨σ, ?_, _, hr1⟩), _, hr2⟩
        rw [specLoads_asg]; exact hσ
      | iteF hr1 hr2 =>
        refine ⟨_, List.mem_append_right _ ((ihe h2 _ _).2 ⟨σ, ?_, _, hr1⟩), _, hr2⟩
        rw [specLoads_asg]; exact hσ
  | «while» line rs body rest _ _ => simp [IfOnly] at h
  | «for» line t rs body rest _ _ => simp [IfOnly] at h

end Pedal.TifaFlow

import PedalProofs.TimeoutLemmas
namespace Pedal.Timeout


set_option maxHeartbeats 4000000 in
theorem inv_stepT_run (p : Prog) (s : St) (c : TChoice) (h : Inv s) (hrun : s.tpc = .run) : Inv (stepT fixed p s c) := by
  obtain ⟨hl, hstk, hpend, htimed, hexit, hcap, hfb, hexc, hnext, hid1, hid2, hctx, hraw, hout1, hout2, hret, hdepth, hbefore, hesc, hesc1⟩ := h
  rcases s with ⟨gpc, tpc, claim, pending, tExit, timedOut, patches, stdouts, sysStdout, buf1, buf2, real, raw, out1, out2, ctxs, id1, id2, nextId, exc, feedback, excAtReturn, depthAtReturn, excBeforeNext, e2Escaped, e1Escaped⟩
  rcases p with ⟨prints, swallows, blocked⟩
  simp only at hl hstk hpend htimed hexit hcap hfb hexc hnext hid1 hid2 hctx hraw hout1 hout2 hret hdepth hbefore hesc hesc1 hrun
  subst hrun
  cases blocked
  · cases pending
    · -- not pending: the scheduler's choice
      cases c <;> cases prints <;> rcases claim with _ | (_ | _) <;> cases gpc <;>
        simp [legal, GPc.rank, TPc.rank] at hl <;>
        (simp only [expStacks, Prod.mk.injEq] at hstk
         obtain ⟨rfl, rfl, rfl⟩ := hstk
         constructor <;>
           simp_all [stepT, fixed, legal, expStacks, expFb, expExc, expNext, e1Appended, e1Exc, GPc.rank, TPc.rank,
             St.stopPatches, St.write, St.appendOutput, St.capture, St.lastCtx, St.content, excOfExit] <;> try decide)
    · cases swallows <;> rcases claim with _ | (_ | _) <;> cases gpc <;>
        simp [legal, GPc.rank, TPc.rank] at hl hpend <;>
        (simp only [expStacks, Prod.mk.injEq] at hstk
         obtain ⟨rfl, rfl, rfl⟩ := hstk
         constructor <;>
           simp_all [stepT, fixed, legal, expStacks, expFb, expExc, expNext, e1Appended, e1Exc, GPc.rank, TPc.rank,
             St.stopPatches, St.write, St.appendOutput, St.capture, St.lastCtx, St.content, excOfExit] <;> try decide)
  · have : stepT fixed ⟨prints, swallows, true⟩ ⟨gpc, .run, claim, pending, tExit, timedOut, patches, stdouts, sysStdout, buf1, buf2, real, raw, out1, out2, ctxs, id1, id2, nextId, exc, feedback, excAtReturn, depthAtReturn, excBeforeNext, e2Escaped, e1Escaped⟩ c = ⟨gpc, .run, claim, pending, tExit, timedOut, patches, stdouts, sysStdout, buf1, buf2, real, raw, out1, out2, ctxs, id1, id2, nextId, exc, feedback, excAtReturn, depthAtReturn, excBeforeNext, e2Escaped, e1Escaped⟩ := by
      simp [stepT]
    rw [this]
    exact ⟨hl, hstk, hpend, htimed, hexit, hcap, hfb, hexc, hnext, hid1, hid2, hctx, hraw, hout1, hout2, hret, hdepth, hbefore, hesc, hesc1⟩
end Pedal.Timeout

import PedalProofs.CaitSelf
/-
C11 core, part 2: a pattern obtained from a fragment of the program by C11's generalisation steps matches that
fragment, with the expected bindings.

`genAt ρ ε pp p sp t` says: pattern node `p` (at `pp`) is a GENERALISATION of program node `t` (at `sp`):
  * sub-expression replaced by `___`                : a `Name` wildcard (or an expression statement made of it) may
                                                      stand where anything stands;
  * sub-expression replaced by `__e__`              : likewise, and `ε key` is the path of what it replaced;
  * identifiers consistently replaced by `_v_`      : an identifier-carrying node (Name, arg, Attribute, def) whose
                                                      identifier is a `_v_` placeholder stands for a node of the same
                                                      kind carrying the identifier `ρ key` — ONE function `ρ` for the
                                                      whole pattern, which is what "consistently" means;
  * sibling statements (any children) dropped       : the children of `p` generalise a subsequence of the children
                                                      of `t`, in order, each in the same AST field;
  * everything else is kept                         : same kind, same plain field values (a field of `p` may hold
                                                      fewer child nodes), same operator.
`ρ` and `ε` are the expected bindings; the theorem `gen_deep` returns a match whose bindings are exactly these.
-/
namespace Pedal.Cait

/-- one field of the pattern node against the field at the same position of the program node -/
def fldGen (skip : Option String) (fi fs : Fld) : Prop :=
  fi.name = fs.name ∧
    (some fi.name = skip ∨ fi.val = .none ∨ fi.val = fs.val ∨ fi.val = .one .node ∨
      ∃ li, fi.val = .many li ∧ ∀ x ∈ li, x = Item.node)

/-- field lists of equal length, related pointwise -/
def fldsGen (skip : Option String) : List Fld → List Fld → Prop
  | [], [] => True
  | a :: as, b :: bs => fldGen skip a b ∧ fldsGen skip as bs
  | _, _ => False

/-- the identifier of an identifier-carrying pattern node against the program node's -/
def identGen (ρ : String → String) (p t : T) : Prop :=
  match identField p.kind with
  | none => True
  | some f =>
    match nameClass (p.strAttr f) with
    | .var => ρ (p.strAttr f) = t.strAttr f
    | .wild => True
    | _ => p.strAttr f = t.strAttr f

/-- kind, plain content and identifier of one kept node -/
def nodeGen (ρ : String → String) (p t : T) : Prop :=
  t.kind = p.kind ∧ fldsGen (skipField p) p.flds t.flds ∧ identGen ρ p t

/-- the operator node of a `+` / `*` is kept as it is -/
def opGen (op sop : T) : Prop :=
  sop.kind = op.kind ∧ op.field = sop.field ∧ fldsGen none op.flds sop.flds

mutual
def genAt (ρ : String → String) (ε : String → Option Path) (pp : Path) (p : T) (sp : Path) (t : T) : Prop :=
  match p with
  | .mk k f fl kids =>
    match role (.mk k f fl kids) with
    | .expPh name => ε name = some sp
    | r =>
      if (k = "Name" ∨ k = "Expr") ∧ r = .wildcard then True
      else
        nodeGen ρ (.mk k f fl kids) t ∧
        if flexOp (.mk k f fl kids) = true then genFlex ρ ε pp kids sp t
        else genKids ρ ε (if k = "Name" then ["ctx"] else []) pp 0 kids sp 0 t.kids

/-- the three children of a `+` / `*` node: operands and operator stay where they are -/
def genFlex (ρ : String → String) (ε : String → Option Path) (pp : Path) (kids : List T) (sp : Path) (t : T) : Prop :=
  match kids with
  | [l, op, rr] =>
    ∃ sl sop sr, t.kids = [sl, sop, sr] ∧ opGen op sop ∧ l.field = sl.field ∧ rr.field = sr.field ∧
      genAt ρ ε (pp ++ [0]) l (sp ++ [0]) sl ∧ genAt ρ ε (pp ++ [2]) rr (sp ++ [2]) sr
  | _ => False

/-- the children `ps` of the pattern node (from index `i`) generalise, in order, a subsequence of the
remaining children `ts` of the program node (which start at index `j`) -/
def genKids (ρ : String → String) (ε : String → Option Path) (ig : List String) (pp : Path) (i : Nat)
    (ps : List T) (sp : Path) (j : Nat) (ts : List T) : Prop :=
  match ps with
  | [] => True
  | pc :: rest =>
    if ig.contains pc.field = true then genKids ρ ε ig pp (i + 1) rest sp j ts
    else ∃ d sj, ts[d]? = some sj ∧ pc.field = sj.field ∧ genAt ρ ε (pp ++ [i]) pc (sp ++ [j + d]) sj ∧
      genKids ρ ε ig pp (i + 1) rest sp (j + d + 1) (ts.drop (d + 1))
end

/-- all bindings are the expected ones -/
def BindsOk (ρ : String → String) (m : AstMap) : Prop := ∀ b ∈ m.binds, b.id = ρ b.key
def ExpsOk (ε : String → Option Path) (m : AstMap) : Prop := ∀ kv ∈ m.exps, ε kv.1 = some kv.2

structure Expected (ρ : String → String) (ε : String → Option Path) (m : AstMap) : Prop where
  binds : BindsOk ρ m
  exps : ExpsOk ε m

variable {ρ : String → String} {ε : String → Option Path}

theorem expected_pairMap (pp sp : Path) : Expected ρ ε (pairMap pp sp) :=
  ⟨fun b hb => by simp [pairMap] at hb, fun kv hkv => by simp [pairMap] at hkv⟩

theorem expected_expMap {pp sp : Path} {name : String} (h : ε name = some sp) :
    Expected ρ ε (expMap pp sp name) :=
  ⟨fun b hb => by simp [expMap, pairMap] at hb,
   fun kv hkv => by simp only [expMap, List.mem_singleton] at hkv; subst hkv; exact h⟩

theorem expected_addBind {m : AstMap} (h : Expected ρ ε m) {x : Bind} (hx : x.id = ρ x.key) :
    Expected ρ ε (m.addBind x) := by
  refine ⟨fun b hb => ?_, fun kv hkv => h.exps kv (by simpa using hkv)⟩
  rw [addBind_binds, List.mem_append] at hb
  rcases hb with hb | hb
  · exact h.binds b hb
  · simp only [List.mem_singleton] at hb; subst hb; exact hx

theorem expected_merged {a b : AstMap} (ha : Expected ρ ε a) (hb : Expected ρ ε b) :
    Expected ρ ε (a.merged b) ∧ (a.merged b).hasConflicts = false := by
  have hbinds : BindsOk ρ (a.merged b) := by
    intro x hx
    rw [merged_binds, List.mem_append] at hx
    rcases hx with hx | hx
    · exact ha.binds x hx
    · exact hb.binds x hx
  refine ⟨⟨hbinds, ?_⟩, ?_⟩
  · intro kv hkv
    rcases mem_exps_merged hkv with h | h
    · exact ha.exps kv h
    · exact hb.exps kv h
  · have hinv := confInv_merged a b
    cases hc : (a.merged b).conflicts with
    | nil => simp [AstMap.hasConflicts, hc]
    | cons k rest =>
      exfalso
      have : k ∈ (a.merged b).conflicts := by rw [hc]; exact List.mem_cons_self
      obtain ⟨x, hx, y, hy, h1, h2, h3⟩ := (hinv k).1 this
      apply h3
      rw [hbinds x hx, hbinds y hy, h1, h2]

/-! ### shallow match of a kept node -/

theorem zipAll_node : ∀ (li S : List Item), (∀ x ∈ li, x = Item.node) → zipAll itemOk li S = true := by
  intro li
  induction li with
  | nil => intro S _; cases S <;> rfl
  | cons x rest ih =>
    intro S hall
    have hx := hall x List.mem_cons_self
    subst hx
    cases S with
    | nil => rfl
    | cons s ss =>
      simp only [zipAll, itemOk, Bool.true_and]
      exact ih ss (fun y hy => hall y (List.mem_cons_of_mem _ hy))

theorem guard_node : ∀ (li S : List Item), (∀ x ∈ li, x = Item.node) →
    (!li.isEmpty && decide (li.length ≠ S.length) && (li ++ S).all Item.isPrim) = false := by
  intro li S hall
  cases li with
  | nil => rfl
  | cons x rest =>
    have hx := hall x List.mem_cons_self
    subst hx
    simp [Item.isPrim]

theorem fieldOk_of_fldGen {ig : List String} {skip : Option String} {fi fs : Fld}
    (hs : ∀ n, skip = some n → ig.contains n = true) (h : fldGen skip fi fs) : fieldOk ig fi fs = true := by
  obtain ⟨hn, h⟩ := h
  by_cases hv : fi.val = FVal.none
  · simp [fieldOk, hv]
  · rw [fieldOk_unfold hv]
    rcases h with h | h | h | h | ⟨li, h, hall⟩
    · have := hs fi.name h.symm
      rw [this]; simp
    · exact absurd h hv
    · have : fi = fs := by cases fi; cases fs; simp_all
      subst this
      exact (fieldOk_unfold hv).symm.trans (fieldOk_self ig fi)
    · have hI : fi.val.items = [Item.node] := by rw [h]; rfl
      rw [hI, guard_node [Item.node] _ (by simp), zipAll_node [Item.node] _ (by simp)]
      simp [hn]
    · have hI : fi.val.items = li := by rw [h]; rfl
      rw [hI, guard_node li _ hall, zipAll_node li _ hall]
      simp [hn]

theorem zipAll_of_fldsGen {ig : List String} {skip : Option String}
    (hs : ∀ n, skip = some n → ig.contains n = true) :
    ∀ (l1 l2 : List Fld), fldsGen skip l1 l2 → zipAll (fieldOk ig) l1 l2 = true ∧ l1.length = l2.length := by
  intro l1
  induction l1 with
  | nil => intro l2 h; cases l2 with
    | nil => exact ⟨rfl, rfl⟩
    | cons _ _ => simp [fldsGen] at h
  | cons a as ih =>
    intro l2 h
    cases l2 with
    | nil => simp [fldsGen] at h
    | cons b bs =>
      simp only [fldsGen] at h
      obtain ⟨h1, h2⟩ := ih bs h.2
      exact ⟨by simp [zipAll, fieldOk_of_fldGen hs h.1, h1], by simp [h2]⟩

theorem shallowMain_gen {cm : Bool} {pf : String} {ig : List String} {pp sp : Path} {p t : T} {skip : Option String}
    (hm : metasMatch cm pf t = true) (hk : t.kind = p.kind)
    (hf : fldsGen skip p.flds t.flds) (hs : ∀ n, skip = some n → ig.contains n = true) :
    shallowMain cm pf ig pp p sp t = some (pairMap pp sp) := by
  obtain ⟨h1, h2⟩ := zipAll_of_fldsGen (ig := ig) hs _ _ hf
  simp [shallowMain, shallowMainB, hm, hk, h1, h2]

/-! ### shallow match of a kept node: the dispatch -/

theorem symbolHandler_gen {cm : Bool} {pf idVal : String} {pp sp : Path} {p t : T}
    (hm : metasMatch cm pf t = true) (hk : t.kind = p.kind) (hid : identField p.kind = some idVal)
    (hf : fldsGen (skipField p) p.flds t.flds) (hi : identGen ρ p t)
    (hne : idVal = "id" → nameClass (p.strAttr idVal) ≠ .exp) :
    ∃ b, symbolHandler cm pf idVal pp p sp t = some b ∧ Expected ρ ε b := by
  simp only [identGen, hid] at hi
  simp only [skipField, hid] at hf
  simp only [symbolHandler, hm, hk, Bool.true_and, decide_true, if_true]
  cases hc : nameClass (p.strAttr idVal) with
  | var =>
    simp only [hc] at hi
    simp only
    exact ite_some ⟨_, rfl, expected_addBind (expected_pairMap _ _) hi.symm⟩
      ⟨_, rfl, expected_addBind (expected_pairMap _ _) hi.symm⟩
  | exp =>
    simp only [hc] at hf
    simp only
    by_cases hidv : idVal = "id"
    · exact absurd hc (hne hidv)
    · simp only [hidv, decide_false]
      exact ⟨_, shallowMain_gen hm hk hf (by intro n hn; cases hn), expected_pairMap _ _⟩
  | wild => exact ⟨_, rfl, expected_pairMap _ _⟩
  | plain =>
    simp only [hc] at hf
    exact ⟨_, shallowMain_gen hm hk hf (by intro n hn; cases hn), expected_pairMap _ _⟩

theorem skipField_mem {p : T} {f : String} (hid : identField p.kind = some f) :
    ∀ n, skipField p = some n → n = f := by
  intro n hn
  simp only [skipField, hid] at hn
  cases hc : nameClass (p.strAttr f) <;> simp only [hc] at hn <;> first | (cases hn; done) | (cases hn; rfl) | (injection hn with hn; exact hn.symm)

theorem skipField_none {p : T} (hid : identField p.kind = none) : skipField p = none := by
  simp [skipField, hid]

theorem shallowDef_gen {cm : Bool} {pf : String} {tbl : Tbl} {ig : List String} {pp sp : Path} {p t : T}
    (hm : metasMatch cm pf t = true) (hk : t.kind = p.kind) (hid : identField p.kind = some "name")
    (hig : ig.contains "name" = true)
    (hf : fldsGen (skipField p) p.flds t.flds) (hi : identGen ρ p t) :
    ∃ b, shallowDef cm pf tbl ig pp p sp t = some b ∧ Expected ρ ε b := by
  have hmain := shallowMain_gen (cm := cm) (pf := pf) (ig := ig) (pp := pp) (sp := sp) hm hk hf
    (by intro n hn; rw [skipField_mem hid n hn]; exact hig)
  simp only [identGen, hid] at hi
  simp only [shallowDef, hmain, hm, hk, Bool.and_self, decide_true, if_true]
  cases hc : nameClass (p.strAttr "name") with
  | var =>
    simp only [hc] at hi
    exact ⟨_, rfl, expected_addBind (expected_pairMap _ _) hi.symm⟩
  | wild => exact ⟨_, rfl, expected_pairMap _ _⟩
  | exp =>
    simp only [hc] at hi
    simp only [hi, if_true]
    exact ⟨_, rfl, expected_pairMap _ _⟩
  | plain =>
    simp only [hc] at hi
    simp only [hi, if_true]
    exact ⟨_, rfl, expected_pairMap _ _⟩

/-- `shallow_match` of a kept node succeeds with the expected bindings -/
theorem shallowMatch_gen {cm : Bool} {pf : String} {pp sp : Path} {p t : T}
    (hm : metasMatch cm pf t = true) (hfunc : pf = "func" → t.field = "func") (hg : nodeGen ρ p t)
    (hne : p.kind = "Name" → nameClass (p.strAttr "id") ≠ .exp) :
    ∃ b, shallowMatch cm pf pp p sp t = some b ∧ Expected ρ ε b := by
  obtain ⟨hk, hf, hi⟩ := hg
  have hpair : ∃ b, some (pairMap pp sp) = some b ∧ Expected ρ ε b := ⟨_, rfl, expected_pairMap _ _⟩
  simp only [shallowMatch]
  by_cases h1 : p.kind = "Module"
  · simp only [h1, if_true, hk, decide_true, Bool.true_or]; exact hpair
  simp only [h1, if_false]
  by_cases h2 : p.kind = "arg"
  · simp only [h2, if_true]
    exact symbolHandler_gen hm hk (identField_arg h2) hf hi (by intro h; exact absurd h (by decide))
  simp only [h2, if_false]
  by_cases h3 : p.kind = "Attribute"
  · simp only [h3, if_true, hk, decide_true, Bool.and_true]
    have hsym := symbolHandler_gen (ε := ε) (cm := cm) (pf := pf) (pp := pp) (sp := sp) hm hk
      (identField_attr h3) hf hi (by intro h; exact absurd h (by decide))
    by_cases hpf : pf = "func"
    · simp only [hpf, decide_true, if_true, hfunc hpf]
      rw [hpf] at hsym; exact hsym
    · simp only [hpf, decide_false, Bool.false_eq_true, if_false]
      exact hsym
  simp only [h3, if_false]
  by_cases h4 : p.kind = "Name"
  · simp only [h4, if_true]
    exact symbolHandler_gen hm hk (identField_name h4) hf hi (fun _ => hne h4)
  simp only [h4, if_false]
  by_cases h5 : (p.kind = "Pass" || p.kind = "Expr") = true
  · simp only [h5, if_true, hm]; exact hpair
  simp only [h5, Bool.false_eq_true, if_false]
  by_cases h6 : p.kind = "FunctionDef"
  · simp only [h6, if_true]
    exact shallowDef_gen hm hk (by simp [identField, h6]) (by decide) hf hi
  simp only [h6, if_false]
  by_cases h7 : p.kind = "ClassDef"
  · simp only [h7, if_true]
    exact shallowDef_gen hm hk (by simp [identField, h7]) (by decide) hf hi
  simp only [h7, if_false]
  have hnone : identField p.kind = none := by simp [identField, h2, h3, h4, h6, h7]
  rw [skipField_none hnone] at hf
  exact ⟨_, shallowMain_gen hm hk hf (by intro n hn; cases hn), expected_pairMap _ _⟩

/-! ### the child loop -/

/-- the matcher finds the generalised fragment (with the expected bindings) wherever the metas allow it -/
def GenDeep (ρ : String → String) (ε : String → Option Path) (p : T) : Prop :=
  ∀ (cm : Bool) (pf : String) (pp sp : Path) (t : T), genAt ρ ε pp p sp t → metasMatch cm pf t = true →
    (pf = "func" → t.field = "func") → ∃ m ∈ deep cm pf pp p sp t, Expected ρ ε m

theorem deepKids_gen (cm : Bool) (ig : List String) (pp sp : Path) (s : T) (rest : List T)
    (hIH : ∀ c ∈ rest, GenDeep ρ ε c) :
    ∀ (i j : Nat) (st : List (AstMap × Nat)) (y : Nat),
      genKids ρ ε ig pp i rest sp j (s.kids.drop j) →
      (∃ x ∈ st, x.2 ≤ j ∧ Expected ρ ε x.1) → y ≤ j →
      ∃ m ∈ deepKids cm ig pp i rest sp s st y, Expected ρ ε m := by
  induction rest with
  | nil =>
    intro i j st y _ hst _
    obtain ⟨x, hx, _, hxe⟩ := hst
    rw [deepKids]
    exact ⟨x.1, List.mem_map.2 ⟨x, hx, rfl⟩, hxe⟩
  | cons pc rest ih =>
    intro i j st y hg hst hy
    have ih' := ih (fun c hc => hIH c (List.mem_cons_of_mem _ hc))
    obtain ⟨x, hx, hx2, hxe⟩ := hst
    rw [genKids] at hg
    rw [deepKids]
    by_cases hign : ig.contains pc.field = true
    · simp only [hign, if_true] at hg ⊢
      exact ih' (i + 1) j st y hg ⟨x, hx, hx2, hxe⟩ hy
    · simp only [hign, Bool.false_eq_true, if_false] at hg ⊢
      obtain ⟨d, sj, hts, hfld, hgen, hrest⟩ := hg
      have hkid : s.kids[j + d - 0]? = some sj := by
        rw [List.getElem?_drop] at hts; simpa using hts
      have hmeta : metasMatch cm pc.field sj = true := by rw [hfld]; exact metasMatch_same cm sj
      obtain ⟨r, hr, hre⟩ := hIH pc List.mem_cons_self cm pc.field (pp ++ [i]) (sp ++ [j + d]) sj hgen hmeta
        (fun h => by rw [← hfld]; exact h)
      have hne : (fun j sj => deep cm pc.field (pp ++ [i]) pc (sp ++ [j]) sj) (j + d) sj ≠ [] := by
        intro h; simp only at h; rw [h] at hr; cases hr
      have hc := candsFrom_intro (f := fun j sj => deep cm pc.field (pp ++ [i]) pc (sp ++ [j]) sj)
        (ys := y) s.kids 0 (j + d) sj hkid (Nat.zero_le _) (by omega) hne
      obtain ⟨hme, hmc⟩ := expected_merged hxe hre
      obtain ⟨st', c0, crest, hcs, hmm, hin⟩ := mapMerge_intro hx hc (by simp only; omega) hr hmc
      have hle := candsFrom_head_le s.kids 0 c0 crest hcs _ hc
      simp only [hmm]
      refine ih' (i + 1) (j + d + 1) st' (c0.1 + 1) ?_ ⟨_, hin, Nat.le_refl _, hme⟩ (by simp only at hle; omega)
      rw [List.drop_drop] at hrest
      have e : j + (d + 1) = j + d + 1 := by omega
      rw [← e]; exact hrest

/-! ### what `deepPre` decides, by the shape of the pattern node -/

theorem deepPre_name {cm : Bool} {pf : String} {pp sp : Path} {p s : T} (hk : p.kind = "Name")
    (hm : metasMatch cm pf s = true) :
    deepPre cm pf pp p sp s =
      match nameClass (p.strAttr "id") with
      | .exp => .done [expMap pp sp (p.strAttr "id")]
      | .wild => .done [pairMap pp sp]
      | _ => .generic ["ctx"] := by
  simp only [deepPre, hk, if_true, hm, expMap]
  cases nameClass (p.strAttr "id") <;> rfl

theorem deepPre_other {cm : Bool} {pf : String} {pp sp : Path} {p s : T} (h1 : p.kind ≠ "Name")
    (h2 : p.kind ≠ "Expr") :
    deepPre cm pf pp p sp s = if flexOp p = true then .binflex else .generic [] := by
  simp only [deepPre, h1, h2, if_false, flexOp]
  by_cases hb : p.kind = "BinOp"
  · simp only [hb, if_true, decide_true, Bool.true_and]
  · simp [hb]

theorem deepPre_expr {cm : Bool} {pf : String} {pp sp : Path} {p s : T} (hk : p.kind = "Expr")
    (hm : metasMatch cm pf s = true) :
    deepPre cm pf pp p sp s =
      match role p with
      | .expPh n => .done [expMap pp sp n]
      | .wildcard => .done [pairMap pp sp]
      | _ => .generic [] := by
  have e1 : ("Expr" : String) ≠ "Name" := by decide
  have e2 : ("Expr" : String) ≠ "BinOp" := by decide
  have e3 : ("Expr" : String) ≠ "Pass" := by decide
  have e4 : ("Expr" : String) ≠ "arg" := by decide
  simp only [deepPre, role, hk, e1, e2, e3, e4, if_false, if_true, hm, Bool.not_true, Bool.false_eq_true, expMap]
  cases hv : p.kids.head? with
  | none => rfl
  | some v =>
    simp only
    by_cases hvk : v.kind = "Name"
    · simp only [hvk, if_true]
      cases hc : nameClass (v.strAttr "id") with
      | exp => simp [isExp_of_nameClass hc]
      | wild => simp [(isWild_of_nameClass hc).1, (isWild_of_nameClass hc).2]
      | var =>
        have h1 : isExpChars (v.strAttr "id").toList = false := by
          cases h : isExpChars (v.strAttr "id").toList
          · rfl
          · rw [nameClass_of_isExp h] at hc; cases hc
        have h2 : isWildChars (v.strAttr "id").toList = false := by
          cases h : isWildChars (v.strAttr "id").toList
          · rfl
          · rw [nameClass_of_isWild h] at hc; cases hc
        simp [h1, h2]
      | plain =>
        have h1 : isExpChars (v.strAttr "id").toList = false := by
          cases h : isExpChars (v.strAttr "id").toList
          · rfl
          · rw [nameClass_of_isExp h] at hc; cases hc
        have h2 : isWildChars (v.strAttr "id").toList = false := by
          cases h : isWildChars (v.strAttr "id").toList
          · rfl
          · rw [nameClass_of_isWild h] at hc; cases hc
        simp [h1, h2]
    · simp [hvk]

/-! ### the main induction -/

theorem deep_generic_gen {k f : String} {fl : List Fld} {kids : List T} (ih : ∀ c ∈ kids, GenDeep ρ ε c)
    {cm : Bool} {pf : String} {pp sp : Path} {t : T} {ig : List String}
    (hpre : deepPre cm pf pp (.mk k f fl kids) sp t = .generic ig)
    (hm : metasMatch cm pf t = true) (hfunc : pf = "func" → t.field = "func")
    (hnode : nodeGen ρ (.mk k f fl kids) t)
    (hne : k = "Name" → nameClass (strOfFlds "id" fl) ≠ .exp)
    (hkids : genKids ρ ε ig pp 0 kids sp 0 t.kids) :
    ∃ m ∈ deep cm pf pp (.mk k f fl kids) sp t, Expected ρ ε m := by
  rw [deep.eq_def]
  simp only [hpre]
  obtain ⟨b, hb, hbe⟩ := shallowMatch_gen (ε := ε) (pp := pp) (sp := sp) hm hfunc hnode hne
  simp only [hb]
  exact deepKids_gen cm ig pp sp t kids ih 0 0 [(b, 0)] 0 (by simpa using hkids)
    ⟨(b, 0), by simp, Nat.le_refl _, hbe⟩ (Nat.le_refl _)

theorem opGen_shallow {pp sp : Path} {op sop : T} (h : opGen op sop) (hk : op.kind = "Add" ∨ op.kind = "Mult") :
    shallowMatch true op.field pp op sp sop = some (pairMap pp sp) := by
  obtain ⟨h1, h2, h3⟩ := h
  have hm : metasMatch true op.field sop = true := by rw [h2]; exact metasMatch_same true sop
  have hmain := shallowMain_gen (cm := true) (pf := op.field) (ig := []) (pp := pp) (sp := sp) hm h1 h3
    (by intro n hn; cases hn)
  rcases hk with hk | hk <;> simp only [shallowMatch, hk] <;> simpa using hmain

/-- **Core of C11 (generalisation)**: the matcher finds every generalised fragment, with the expected bindings. -/
theorem gen_deep : ∀ (p : T), GenDeep ρ ε p := by
  intro p
  induction p using T.induct' with
  | h k f fl kids ih =>
    intro cm pf pp sp t hg hm hfunc
    rw [genAt.eq_def] at hg
    simp only at hg
    by_cases hN : k = "Name"
    · -- a Name: wildcard, expression placeholder, variable placeholder or plain identifier
      subst hN
      have hpre := deepPre_name (cm := cm) (pf := pf) (pp := pp) (sp := sp) (p := T.mk "Name" f fl kids) (s := t)
        rfl hm
      have hfl : flexOp (T.mk "Name" f fl kids) = false := by simp [flexOp]
      cases hc : nameClass ((T.mk "Name" f fl kids).strAttr "id") with
      | wild =>
        simp only [hc] at hpre
        rw [deep.eq_def]; simp only [hpre]
        exact ⟨_, List.mem_cons_self, expected_pairMap _ _⟩
      | exp =>
        simp only [hc] at hpre
        have hr : role (T.mk "Name" f fl kids) = .expPh ((T.mk "Name" f fl kids).strAttr "id") :=
          role_ne_concrete_of_name_exp rfl hc
        simp only [hr] at hg
        rw [deep.eq_def]; simp only [hpre]
        exact ⟨_, List.mem_cons_self, expected_expMap hg⟩
      | var =>
        simp only [hc] at hpre
        have hr : role (T.mk "Name" f fl kids) = .concrete := by
          simp only [role, T.kind_mk, show ("Name" : String) ≠ "Pass" from by decide, if_false, if_true, hc]
        simp only [hr, hfl, reduceCtorEq, and_false, Bool.false_eq_true, if_false, if_true] at hg
        exact deep_generic_gen ih hpre hm hfunc hg.1
          (fun _ h => by simp only [T.strAttr, T.flds_mk] at hc; rw [hc] at h; cases h) hg.2
      | plain =>
        simp only [hc] at hpre
        have hr : role (T.mk "Name" f fl kids) = .concrete := by
          simp only [role, T.kind_mk, show ("Name" : String) ≠ "Pass" from by decide, if_false, if_true, hc]
        simp only [hr, hfl, reduceCtorEq, and_false, Bool.false_eq_true, if_false, if_true] at hg
        exact deep_generic_gen ih hpre hm hfunc hg.1
          (fun _ h => by simp only [T.strAttr, T.flds_mk] at hc; rw [hc] at h; cases h) hg.2
    · by_cases hE : k = "Expr"
      · -- an expression statement: `___` / `__e__` on its own, or a wrapper
        have hpre := deepPre_expr (cm := cm) (pf := pf) (pp := pp) (sp := sp) (p := T.mk k f fl kids) (s := t)
          (by simpa using hE) hm
        have hfl : flexOp (T.mk k f fl kids) = false := by simp [flexOp, hE]
        cases hr : role (T.mk k f fl kids) with
        | expPh n =>
          simp only [hr] at hpre hg
          rw [deep.eq_def]; simp only [hpre]
          exact ⟨_, List.mem_cons_self, expected_expMap hg⟩
        | wildcard =>
          simp only [hr] at hpre
          rw [deep.eq_def]; simp only [hpre]
          exact ⟨_, List.mem_cons_self, expected_pairMap _ _⟩
        | wrapper =>
          simp only [hr] at hpre hg
          simp only [reduceCtorEq, and_false, if_false, hfl, Bool.false_eq_true, hN] at hg
          exact deep_generic_gen ih hpre hm hfunc hg.1 (fun h => absurd h hN) hg.2
        | concrete =>
          simp only [hr] at hpre hg
          simp only [reduceCtorEq, and_false, if_false, hfl, Bool.false_eq_true, hN] at hg
          exact deep_generic_gen ih hpre hm hfunc hg.1 (fun h => absurd h hN) hg.2
      · -- any other node: kept, with its children; `+` / `*` through the commutative path
        have hpre := deepPre_other (cm := cm) (pf := pf) (pp := pp) (sp := sp) (p := T.mk k f fl kids) (s := t)
          (by simpa using hN) (by simpa using hE)
        have hnr : ∀ n, role (T.mk k f fl kids) ≠ .expPh n :=
          fun n => role_not_exp_of_kind (by simpa using hN) (by simpa using hE) n
        have hg' : nodeGen ρ (T.mk k f fl kids) t ∧
            if flexOp (T.mk k f fl kids) = true then genFlex ρ ε pp kids sp t
            else genKids ρ ε [] pp 0 kids sp 0 t.kids := by
          cases hr : role (T.mk k f fl kids) with
          | expPh n => exact absurd hr (hnr n)
          | wildcard => simp only [hr, hN, hE, or_self, false_and, if_false] at hg; exact hg
          | wrapper => simp only [hr, hN, hE, or_self, false_and, if_false] at hg; exact hg
          | concrete => simp only [hr, hN, hE, or_self, false_and, if_false] at hg; exact hg
        obtain ⟨hnode, hrest⟩ := hg'
        by_cases hfl : flexOp (T.mk k f fl kids) = true
        · simp only [hfl, if_true] at hpre hrest
          match kids, ih, hpre, hfl, hnode, hrest with
          | [l, op, rr], ih, hpre, hfl, hnode, hrest =>
            rw [genFlex] at hrest
            obtain ⟨sl, sop, sr, hkids, hop, hlf, hrf, hgl, hgr⟩ := hrest
            have hopk : op.kind = "Add" ∨ op.kind = "Mult" := by
              simp only [flexOp, T.kids_mk, kidKind_one, Bool.and_eq_true, Bool.or_eq_true,
                decide_eq_true_eq] at hfl
              rcases hfl.2 with h | h
              · exact Or.inr h
              · exact Or.inl h
            rw [deep.eq_def]
            simp only [hpre]
            obtain ⟨b, hb, hbe⟩ := shallowMatch_gen (ε := ε) (cm := false) (pf := pf) (pp := pp) (sp := sp)
              (by simp [metasMatch]) hfunc hnode (fun h => absurd h hN)
            simp only [hb, hkids, opGen_shallow hop hopk]
            obtain ⟨lm, hlm, hle⟩ := ih l (by simp) false l.field (pp ++ [0]) (sp ++ [0]) sl hgl
              (by simp [metasMatch]) (fun h => by rw [← hlf]; exact h)
            obtain ⟨rm, hrm, hre⟩ := ih rr (by simp) false rr.field (pp ++ [2]) (sp ++ [2]) sr hgr
              (by simp [metasMatch]) (fun h => by rw [← hrf]; exact h)
            have hbase := (expected_merged hbe (expected_pairMap (ρ := ρ) (ε := ε) (pp ++ [1]) (sp ++ [1]))).1
            have h1 := expected_merged hbase hle
            have h2 := expected_merged h1.1 hre
            exact ⟨_, List.mem_append_left _ (binflexHelper_intro hlm hrm h2.2), h2.1⟩
          | [], _, _, _, _, hrest => rw [genFlex.eq_def] at hrest; exact hrest.elim
          | [_], _, _, _, _, hrest => rw [genFlex.eq_def] at hrest; exact hrest.elim
          | [_, _], _, _, _, _, hrest => rw [genFlex.eq_def] at hrest; exact hrest.elim
          | _ :: _ :: _ :: _ :: _, _, _, _, _, hrest => rw [genFlex.eq_def] at hrest; exact hrest.elim
        · simp only [hfl, Bool.false_eq_true, if_false] at hpre hrest
          exact deep_generic_gen ih hpre hm hfunc hnode (fun h => absurd h hN) hrest

/-! ### the relation is inhabited: every tree generalises itself, and a wildcard generalises anything -/

mutual
/-- no node of the tree is an `__e__` placeholder -/
def noExp (t : T) : Bool :=
  match t with
  | .mk k f fl kids => (match role (.mk k f fl kids) with | .expPh _ => false | _ => true) && noExpL kids
def noExpL (ts : List T) : Bool :=
  match ts with
  | [] => true
  | t :: rest => noExp t && noExpL rest
end

theorem fldsGen_refl (skip : Option String) : ∀ l : List Fld, fldsGen skip l l := by
  intro l
  induction l with
  | nil => trivial
  | cons a as ih => exact ⟨⟨rfl, Or.inr (Or.inr (Or.inl rfl))⟩, ih⟩

theorem nodeGen_refl (t : T) : nodeGen (fun x => x) t t := by
  refine ⟨rfl, fldsGen_refl _ _, ?_⟩
  simp only [identGen]
  cases hi : identField t.kind with
  | none => trivial
  | some f =>
    simp only
    cases hc : nameClass (t.strAttr f) <;> simp

/-- the program node may have one more child in front -/
theorem genKids_skip {ρ : String → String} {ε : String → Option Path} {ig : List String} {pp sp : Path} {a : T} :
    ∀ (ps : List T) (i j : Nat) (ts : List T), genKids ρ ε ig pp i ps sp (j + 1) ts →
      genKids ρ ε ig pp i ps sp j (a :: ts) := by
  intro ps
  induction ps with
  | nil => intro i j ts _; rw [genKids]; trivial
  | cons pc rest ih =>
    intro i j ts h
    rw [genKids] at h ⊢
    by_cases hign : ig.contains pc.field = true
    · simp only [hign, if_true] at h ⊢
      exact ih (i + 1) j ts h
    · simp only [hign, Bool.false_eq_true, if_false] at h ⊢
      obtain ⟨d, sj, h1, h2, h3, h4⟩ := h
      refine ⟨d + 1, sj, by simpa using h1, h2, ?_, ?_⟩
      · have e : j + (d + 1) = j + 1 + d := by omega
        rw [e]; exact h3
      · have e : j + (d + 1) + 1 = j + 1 + d + 1 := by omega
        rw [e]; simpa using h4

theorem genKids_refl {ε : String → Option Path} (ig : List String) (pp sp : Path) (kids : List T)
    (hIH : ∀ c ∈ kids, ∀ pp sp, genAt (fun x => x) ε pp c sp c) :
    ∀ i j, genKids (fun x => x) ε ig pp i kids sp j kids := by
  induction kids with
  | nil => intro i j; rw [genKids]; trivial
  | cons c rest ih =>
    intro i j
    rw [genKids]
    by_cases hign : ig.contains c.field = true
    · simp only [hign, if_true]
      -- the ignored child is skipped on the pattern side only; the rest embeds after one more student child
      have := ih (fun c hc => hIH c (List.mem_cons_of_mem _ hc)) (i + 1) (j + 1)
      exact genKids_skip _ _ _ _ this
    · simp only [hign, Bool.false_eq_true, if_false]
      exact ⟨0, c, rfl, rfl, hIH c List.mem_cons_self _ _, by
        simpa using ih (fun c hc => hIH c (List.mem_cons_of_mem _ hc)) (i + 1) (j + 0 + 1)⟩

/-- **non-vacuity of `genAt`**: a tree without `__e__` placeholders generalises itself (no step applied), with
every identifier standing for itself -/
theorem genAt_refl {ε : String → Option Path} : ∀ (t : T), noExp t = true → binOp3 t = true →
    ∀ pp sp, genAt (fun x => x) ε pp t sp t := by
  intro t
  induction t using T.induct' with
  | h k f fl kids ih =>
    intro hne hb pp sp
    rw [noExp] at hne
    simp only [Bool.and_eq_true] at hne
    obtain ⟨hbk, hb3⟩ := binOp3_kids hb
    have hneL : ∀ c ∈ kids, noExp c = true := by
      have : ∀ (l : List T), noExpL l = true → ∀ c ∈ l, noExp c = true := by
        intro l
        induction l with
        | nil => intro _ c hc; cases hc
        | cons a as ihl =>
          intro h c hc
          rw [noExpL] at h
          simp only [Bool.and_eq_true] at h
          cases hc with
          | head => exact h.1
          | tail _ hc' => exact ihl h.2 c hc'
      exact this kids hne.2
    have hIH : ∀ c ∈ kids, ∀ pp sp, genAt (fun x => x) ε pp c sp c :=
      fun c hc => ih c hc (hneL c hc) (hbk c hc)
    rw [genAt.eq_def]
    simp only
    cases hr : role (T.mk k f fl kids) with
    | expPh n => rw [hr] at hne; simp at hne
    | wildcard =>
      simp only
      split
      · trivial
      · refine ⟨nodeGen_refl _, ?_⟩
        split
        · rename_i hfl
          have h3 := hb3 (by simp only [flexOp, Bool.and_eq_true, decide_eq_true_eq] at hfl; exact hfl.1)
          match kids, hIH, h3 with
          | [l, op, rr], hIH, _ =>
            rw [genFlex]
            exact ⟨l, op, rr, rfl, ⟨rfl, rfl, fldsGen_refl _ _⟩, rfl, rfl, hIH l (by simp) _ _, hIH rr (by simp) _ _⟩
        · exact genKids_refl _ pp sp kids hIH 0 0
    | wrapper =>
      simp only [reduceCtorEq, and_false, if_false]
      refine ⟨nodeGen_refl _, ?_⟩
      split
      · rename_i hfl
        have h3 := hb3 (by simp only [flexOp, Bool.and_eq_true, decide_eq_true_eq] at hfl; exact hfl.1)
        match kids, hIH, h3 with
        | [l, op, rr], hIH, _ =>
          rw [genFlex]
          exact ⟨l, op, rr, rfl, ⟨rfl, rfl, fldsGen_refl _ _⟩, rfl, rfl, hIH l (by simp) _ _, hIH rr (by simp) _ _⟩
      · exact genKids_refl _ pp sp kids hIH 0 0
    | concrete =>
      simp only [reduceCtorEq, and_false, if_false]
      refine ⟨nodeGen_refl _, ?_⟩
      split
      · rename_i hfl
        have h3 := hb3 (by simp only [flexOp, Bool.and_eq_true, decide_eq_true_eq] at hfl; exact hfl.1)
        match kids, hIH, h3 with
        | [l, op, rr], hIH, _ =>
          rw [genFlex]
          exact ⟨l, op, rr, rfl, ⟨rfl, rfl, fldsGen_refl _ _⟩, rfl, rfl, hIH l (by simp) _ _, hIH rr (by simp) _ _⟩
      · exact genKids_refl _ pp sp kids hIH 0 0

/-- **non-vacuity, a step**: a `___` Name generalises any node -/
theorem genAt_wildcard {ρ : String → String} {ε : String → Option Path} (f : String) (fl : List Fld) (kids : List T)
    (h : nameClass (strOfFlds "id" fl) = .wild) (pp sp : Path) (t : T) :
    genAt ρ ε pp (.mk "Name" f fl kids) sp t := by
  have hr : role (T.mk "Name" f fl kids) = .wildcard := role_of_name_wild rfl h
  rw [genAt.eq_def]
  simp [hr]

/-! ### the decidable checker `genChk` (PedalModel/CaitSpec.lean) is sound for `genAt` -/

theorem fldGenB_sound {skip : Option String} {fi fs : Fld} (h : fldGenB skip fi fs = true) : fldGen skip fi fs := by
  simp only [fldGenB, Bool.and_eq_true, Bool.or_eq_true, decide_eq_true_eq] at h
  refine ⟨h.1, ?_⟩
  rcases h.2 with ((h | h) | h) | h
  · exact Or.inl h
  · exact Or.inr (Or.inl h)
  · exact Or.inr (Or.inr (Or.inl h))
  · cases hv : fi.val with
    | none => exact Or.inr (Or.inl rfl)
    | one i =>
      cases i with
      | node => exact Or.inr (Or.inr (Or.inr (Or.inl rfl)))
      | prim v => simp [hv] at h
    | many li =>
      simp only [hv, List.all_eq_true, decide_eq_true_eq] at h
      exact Or.inr (Or.inr (Or.inr (Or.inr ⟨li, rfl, h⟩)))

theorem fldsGenB_sound {skip : Option String} : ∀ (l1 l2 : List Fld), fldsGenB skip l1 l2 = true → fldsGen skip l1 l2 := by
  intro l1
  induction l1 with
  | nil => intro l2 h; cases l2 with
    | nil => trivial
    | cons _ _ => simp [fldsGenB] at h
  | cons a as ih =>
    intro l2 h
    cases l2 with
    | nil => simp [fldsGenB] at h
    | cons b bs =>
      simp only [fldsGenB, Bool.and_eq_true] at h
      exact ⟨fldGenB_sound h.1, ih bs h.2⟩

theorem identGenB_sound {rho : List (String × String)} {p t : T} (h : identGenB rho p t = true) :
    identGen (rhoF rho) p t := by
  simp only [identGenB] at h
  simp only [identGen]
  cases hi : identField p.kind with
  | none => trivial
  | some f =>
    simp only [hi] at h ⊢
    cases hc : nameClass (p.strAttr f) <;> simp only [hc] at h ⊢ <;> first | trivial | simpa using h

theorem nodeGenB_sound {rho : List (String × String)} {p t : T} (h : nodeGenB rho p t = true) :
    nodeGen (rhoF rho) p t := by
  simp only [nodeGenB, Bool.and_eq_true, decide_eq_true_eq] at h
  exact ⟨h.1.1, fldsGenB_sound _ _ h.1.2, identGenB_sound h.2⟩

theorem opGenB_sound {op sop : T} (h : opGenB op sop = true) : opGen op sop := by
  simp only [opGenB, Bool.and_eq_true, decide_eq_true_eq] at h
  exact ⟨h.1.1, h.1.2, fldsGenB_sound _ _ h.2⟩

theorem genChkKids_sound {rho : List (String × String)} {eps : List (String × Path)} {al : List (Path × Path)}
    (ig : List String) (pp sp : Path) (t : T) (ps : List T)
    (hIH : ∀ c ∈ ps, ∀ pp sp t, genChk rho eps al pp c sp t = true → genAt (rhoF rho) (epsF eps) pp c sp t) :
    ∀ i minJ, genChkKids rho eps al ig pp i ps sp minJ t = true →
      genKids (rhoF rho) (epsF eps) ig pp i ps sp minJ (t.kids.drop minJ) := by
  induction ps with
  | nil => intro i minJ _; rw [genKids]; trivial
  | cons pc rest ih =>
    intro i minJ h
    have ih' := ih (fun c hc => hIH c (List.mem_cons_of_mem _ hc))
    rw [genChkKids] at h
    rw [genKids]
    by_cases hign : ig.contains pc.field = true
    · simp only [hign, if_true] at h ⊢
      exact ih' (i + 1) minJ h
    · simp only [hign, Bool.false_eq_true, if_false] at h ⊢
      cases hd : dictGet (pp ++ [i]) al with
      | none => simp [hd] at h
      | some q =>
        simp only [hd] at h
        cases hj : q.getLast? with
        | none => simp [hj] at h
        | some j =>
          simp only [hj, Bool.and_eq_true, decide_eq_true_eq] at h
          obtain ⟨⟨⟨hq, hle⟩, hkid⟩, hrest⟩ := h
          cases hs : t.kids[j]? with
          | none => simp [hs] at hkid
          | some sj =>
            simp only [hs, Bool.and_eq_true, decide_eq_true_eq] at hkid
            refine ⟨j - minJ, sj, ?_, hkid.1, ?_, ?_⟩
            · rw [List.getElem?_drop]
              have : minJ + (j - minJ) = j := by omega
              rw [this]; exact hs
            · have : minJ + (j - minJ) = j := by omega
              rw [this, ← hq]
              exact hIH pc List.mem_cons_self _ _ _ hkid.2
            · rw [List.drop_drop]
              have e1 : minJ + (j - minJ) + 1 = j + 1 := by omega
              have e2 : minJ + (j - minJ + 1) = j + 1 := by omega
              rw [e1, e2]
              exact ih' (i + 1) (j + 1) hrest

theorem genChkFlex_sound_aux {rho : List (String × String)} {eps : List (String × Path)} {al : List (Path × Path)}
    {kids : List T} {pp sp : Path} {t : T}
    (ih : ∀ c ∈ kids, ∀ pp sp t, genChk rho eps al pp c sp t = true → genAt (rhoF rho) (epsF eps) pp c sp t)
    (h : genChkFlex rho eps al pp kids sp t = true) : genFlex (rhoF rho) (epsF eps) pp kids sp t := by
  rw [genChkFlex.eq_def] at h
  rw [genFlex.eq_def]
  match kids, ih, h with
  | [l, op, rr], ih, h =>
    simp only at h ⊢
    match hk : t.kids, h with
    | [sl, sop, sr], h =>
      simp only [Bool.and_eq_true, decide_eq_true_eq] at h
      obtain ⟨⟨⟨⟨h1, h2⟩, h3⟩, h4⟩, h5⟩ := h
      exact ⟨sl, sop, sr, rfl, opGenB_sound h1, h2, h3, ih l (by simp) _ _ _ h4, ih rr (by simp) _ _ _ h5⟩
    | [], h => simp at h
    | [_], h => simp at h
    | [_, _], h => simp at h
    | _ :: _ :: _ :: _ :: _, h => simp at h
  | [], _, h => simp at h
  | [_], _, h => simp at h
  | [_, _], _, h => simp at h
  | _ :: _ :: _ :: _ :: _, _, h => simp at h

theorem genChk_sound {rho : List (String × String)} {eps : List (String × Path)} {al : List (Path × Path)} :
    ∀ (p : T) (pp sp : Path) (t : T), genChk rho eps al pp p sp t = true → genAt (rhoF rho) (epsF eps) pp p sp t := by
  intro p
  induction p using T.induct' with
  | h k f fl kids ih =>
    intro pp sp t h
    rw [genChk.eq_def] at h
    rw [genAt.eq_def]
    simp only at h ⊢
    cases hr : role (T.mk k f fl kids) with
    | expPh name =>
      simp only [hr] at h ⊢
      simpa [epsF] using h
    | wildcard =>
      simp only [hr] at h ⊢
      by_cases hk : (k = "Name" ∨ k = "Expr")
      · simp [hk]
      · have hk' : (decide (k = "Name") || decide (k = "Expr")) = false := by
          simp only [not_or] at hk; simp [hk.1, hk.2]
        simp only [hk', Bool.false_and, Bool.false_eq_true, if_false, Bool.and_eq_true] at h
        simp only [hk, false_and, if_false]
        refine ⟨nodeGenB_sound h.1, ?_⟩
        by_cases hfl : flexOp (T.mk k f fl kids) = true
        · simp only [hfl, if_true] at h ⊢
          exact genChkFlex_sound_aux ih h.2
        · simp only [hfl, Bool.false_eq_true, if_false] at h ⊢
          simpa using genChkKids_sound _ pp sp t kids ih 0 0 h.2
    | wrapper =>
      simp only [hr] at h ⊢
      simp only [reduceCtorEq, decide_false, Bool.and_false, Bool.false_eq_true, if_false, Bool.and_eq_true,
        and_false] at h ⊢
      refine ⟨nodeGenB_sound h.1, ?_⟩
      by_cases hfl : flexOp (T.mk k f fl kids) = true
      · simp only [hfl, if_true] at h ⊢
        exact genChkFlex_sound_aux ih h.2
      · simp only [hfl, Bool.false_eq_true, if_false] at h ⊢
        simpa using genChkKids_sound _ pp sp t kids ih 0 0 h.2
    | concrete =>
      simp only [hr] at h ⊢
      simp only [reduceCtorEq, decide_false, Bool.and_false, Bool.false_eq_true, if_false, Bool.and_eq_true,
        and_false] at h ⊢
      refine ⟨nodeGenB_sound h.1, ?_⟩
      by_cases hfl : flexOp (T.mk k f fl kids) = true
      · simp only [hfl, if_true] at h ⊢
        exact genChkFlex_sound_aux ih h.2
      · simp only [hfl, Bool.false_eq_true, if_false] at h ⊢
        simpa using genChkKids_sound _ pp sp t kids ih 0 0 h.2


end Pedal.Cait

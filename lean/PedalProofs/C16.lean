import PedalModel.Proxy
import PedalModel.Gen.ProxyPlans
import PedalProofs.ProxyLemmas
/-
C16 — the result proxy is transparent for every operation that works on the real value.

One theorem per family, each about `Pedal.Gen.Proxy.proxyClass` (the plans read from pedal/sandbox/result.py on
this run) and the protocol model `binaryOp` / `convOp` / … that the driver executes, for EVERY type table,
operand and placement.  `Transparent real prox` (ProxyLemmas) is the property's sentence: a value on the raw
operands ⇒ the same value (possibly wrapped again), nothing printed, not NotImplemented; an exception on the raw
operands ⇒ an exception.

Where transparency cannot hold for all tables the hypothesis is explicit and decidable, the driver reports it per
request (`excluded=`), and the full statement is refuted below:
* proxy on the right: the LEFT operand's own method runs first and sees a foreign object. `RightOK` asks that it
  either declines (all C number slots) or is duck-typed Python code (and then that CPython's subclass-first rule,
  which the proxy hides, does not apply). `str.__mod__` is the builtin slot that violates it (open finding).
* comparisons with the proxy on the right are answered by the mirrored method (`l < P(r)` runs `r > l`): needs the
  operands' `<`/`>` to agree (true for every builtin type; part of the hypothesis, checked per request).
* conversions: CPython's own result must pass the return-type check of the method it is routed through
  (`Stable`: `float(x)` is a float, `len(x)` an int ≥ 0, …), and a builtin whose only method is missing raises.
-/
namespace Pedal.Proxy
open Pedal.Gen.Proxy

/-! ## What the generated class looks like (closed by evaluation over the regenerated table) -/

theorem gen_arith (op : BinOp) (h : op.isCmp = false) :
    proxyClass.entry op.dunder = some (Plan.infixFwd op) ∧ proxyClass.entry op.rdunder = some (Plan.infixRefl op) := by
  cases op <;> first | (exact absurd h (by decide)) | decide

theorem gen_cmp (op : BinOp) (h : op.isCmp = true) :
    proxyClass.entry op.dunder = some (Plan.cmp op) ∧ proxyClass.entry op.rdunder = some (Plan.cmp op.swapped) := by
  cases op <;> first | (exact absurd h (by decide)) | decide

/-- The shape each one-operand method must have: the builtin itself on the wrapped value, re-wrapped only where
CPython does not type-check the method's result; or the method called by hand where the builtin consults nothing else. -/
inductive ConvShape where
  | builtin (w : Bool)
  | method1 (w : Bool)
  deriving DecidableEq, Repr

def ConvShape.entry (c : Conv) (d : Dunder) : ConvShape → PlanEntry
  | .builtin w => .plan ⟨.builtin c, none, false, w, false⟩
  | .method1 w => .plan ⟨.method1 d, none, false, w, false⟩

def headStep (c : Conv) : Step := c.chain.headD ⟨.neg, none, none⟩

/-- Does the generated method for `c`'s first dunder have one of the transparent shapes? -/
def convShapeOf (c : Conv) : Option ConvShape :=
  let st := headStep c
  let unchecked := st.check.isNone && st.post.isNone
  let cands : List ConvShape :=
    [.builtin false] ++ (if unchecked then [.builtin true] else []) ++
    (if c.chain.length = 1 then [.method1 false] ++ (if unchecked then [.method1 true] else []) else [])
  cands.find? fun sh => proxyClass.entry st.d == some (sh.entry c st.d)

theorem gen_conv (c : Conv) : (convShapeOf c).isSome = true := by
  cases c <;> decide

/-- `__getitem__` subscripts the wrapped value (result wrapped or not: both are transparent). -/
theorem gen_getitem : ∃ w u, proxyClass.entry .getitem = some (.plan ⟨.subscript, none, false, w, u⟩) := by
  first
    | exact ⟨true, false, by decide⟩
    | exact ⟨false, false, by decide⟩
    | exact ⟨true, true, by decide⟩
    | exact ⟨false, true, by decide⟩

/-- `__contains__` evaluates `item in value` (needle unwrapped or not). -/
theorem gen_contains : ∃ u, proxyClass.entry .contains = some (.plan ⟨.isIn, none, false, false, u⟩) := by
  first
    | exact ⟨true, by decide⟩
    | exact ⟨false, by decide⟩

/-! ## Families -/

/-- Binary arithmetic / bitwise / shift operators, proxy as left operand or both operands. -/
theorem c16_binary (T : TypeTable) (op : BinOp) (l r : Nat) (hop : op.isCmp = false) (ro : Operand)
    (hro : ro.id = r) :
    Transparent (binaryOp T op l r) (outerBinary T proxyClass op (.proxy l) ro) := by
  rw [outerBinary_left T proxyClass op true l ro (gen_arith op hop).1 (Or.inl rfl), hro]
  exact transparent_wrap _ (binaryOp_printed T op l r)

/-- The same operators with the proxy as right operand (reflected methods). -/
theorem c16_reflected (T : TypeTable) (op : BinOp) (l r : Nat) (hop : op.isCmp = false)
    (hok : RightOK T op l r = true) :
    Transparent (binaryOp T op l r) (outerBinary T proxyClass op (.raw l) (.proxy r)) := by
  refine outerBinary_right T proxyClass op l r (wrapOut true (binaryOp T op l r)) ?_ (wrapOut_true_ne_NI _)
    (transparent_wrap _ (binaryOp_printed T op l r)) hok
  rw [(gen_arith op hop).2]
  simp [Plan.infixRefl, runPlan_infix, pick, Operand.id]

/-- Comparisons, every placement. -/
theorem c16_comparison (T : TypeTable) (op : BinOp) (l r : Nat) (hop : op.isCmp = true) (pl : Placement)
    (hok : pl = .right → RightOK T op l r = true ∧ binaryOp T op.swapped r l = binaryOp T op l r) :
    Transparent (binaryOp T op l r)
      (outerBinary T proxyClass op (pl.operands l r).1 (pl.operands l r).2) := by
  have hleft : ∀ ro : Operand, ro.id = r →
      Transparent (binaryOp T op l r) (outerBinary T proxyClass op (.proxy l) ro) := by
    intro ro hro
    rw [outerBinary_left T proxyClass op false l ro (gen_cmp op hop).1 (Or.inr hop), hro]
    exact transparent_wrapOut false _ (binaryOp_printed T op l r)
  cases pl with
  | left => exact hleft _ rfl
  | both => exact hleft _ rfl
  | right =>
    obtain ⟨hr, hsw⟩ := hok rfl
    refine outerBinary_right T proxyClass op l r (binaryOp T op l r) ?_ (binaryOp_cmp_ne_NI T op l r hop)
      (transparent_refl _ (binaryOp_printed T op l r)) hr
    rw [(gen_cmp op hop).2]
    simp only [Plan.cmp, Option.map_some, runPlan_infix, pick, Operand.id, hsw]
    have : wrapOut false (binaryOp T op l r) = binaryOp T op l r := by
      unfold wrapOut; cases hres : (binaryOp T op l r).res <;> simp
    rw [this]

/-- Hypotheses of the one-operand families, per request. -/
def ConvOK (T : TypeTable) (c : Conv) (v : Nat) : Prop :=
  match convShapeOf c with
  | some (.builtin false) => Stable T (headStep c) (convOp T c v)
  | some (.builtin true) => True
  | some (.method1 _) => T.lookup (T.cls v) (headStep c).d = none → ∀ r, T.convFallback c v ≠ .ret r
  | none => False

theorem convShape_sound (c : Conv) (sh : ConvShape) (h : convShapeOf c = some sh) :
    ((sh = .builtin true ∨ sh = .method1 true) → (headStep c).check = none ∧ (headStep c).post = none) ∧
    ((sh = .method1 true ∨ sh = .method1 false) → c.chain = [headStep c]) := by
  revert h
  cases c <;> cases sh <;> rename_i w <;> cases w <;> decide

theorem conv_transparent (T : TypeTable) (c : Conv) (v : Nat) (hok : ConvOK T c v) :
    Transparent (convOp T c v) (outerConv T proxyClass c (.proxy v)) := by
  unfold ConvOK at hok
  have hsome := gen_conv c
  cases hsh : convShapeOf c with
  | none => simp [hsh] at hsome
  | some sh =>
    rw [hsh] at hok
    have hfind := List.find?_some hsh
    have hentry : proxyClass.entry (headStep c).d = some (sh.entry c (headStep c).d) := by
      simpa using hfind
    obtain ⟨hunchecked, hsingle⟩ := convShape_sound c sh hsh
    have hchain : ∃ rest, c.chain = headStep c :: rest := by
      cases c <;> exact ⟨_, rfl⟩
    obtain ⟨rest, hchain⟩ := hchain
    cases sh with
    | builtin w =>
      refine outerConv_builtin T proxyClass c v (headStep c) rest w false hchain hentry ?_ ?_
      · intro hw; subst hw; exact hunchecked (Or.inl rfl)
      · intro hw; subst hw; exact hok
    | method1 w =>
      have hs : c.chain = [headStep c] := by cases w <;> simp [hsingle]
      refine outerConv_method1 T proxyClass c v (headStep c) w false hs hentry ?_ hok
      intro hw; subst hw; exact hunchecked (Or.inr rfl)

def Conv.isUnary : Conv → Bool
  | .neg | .pos | .abs | .invert => true
  | _ => false

def Conv.isContainer : Conv → Bool
  | .len | .iter | .reversed => true
  | _ => false

/-- Unary operators `-x +x abs(x) ~x`. -/
theorem c16_unary (T : TypeTable) (c : Conv) (v : Nat) (_hc : c.isUnary = true) (hok : ConvOK T c v) :
    Transparent (convOp T c v) (outerConv T proxyClass c (.proxy v)) :=
  conv_transparent T c v hok

/-- `hash bool str repr format int float complex round trunc floor ceil index`. -/
theorem c16_conversion (T : TypeTable) (c : Conv) (v : Nat) (_hc : c.isUnary = false ∧ c.isContainer = false)
    (hok : ConvOK T c v) :
    Transparent (convOp T c v) (outerConv T proxyClass c (.proxy v)) :=
  conv_transparent T c v hok

/-- Containers: `len iter reversed`, indexing and membership in the proxied container. -/
theorem c16_container (T : TypeTable) :
    (∀ c v, c.isContainer = true → ConvOK T c v →
        Transparent (convOp T c v) (outerConv T proxyClass c (.proxy v))) ∧
    (∀ c k, Transparent (getitemOp T c k) (outerGetitem T proxyClass (.proxy c) k)) ∧
    (∀ c k, Stable T ⟨.contains, none, some .truth⟩ (containsOp T c k) →
        Transparent (containsOp T c k) (outerContains T proxyClass (.proxy c) k)) := by
  refine ⟨fun c v _ hok => conv_transparent T c v hok, fun c k => ?_, fun c k hst => ?_⟩
  · obtain ⟨w, u, h⟩ := gen_getitem
    exact outerGetitem_subscript T proxyClass c k w u h
  · obtain ⟨u, h⟩ := gen_contains
    exact outerContains_isIn T proxyClass c k u h hst

/-- `isinstance(proxy, C)` answers as for the wrapped value, for every class C that SandboxResult itself does
not derive from. -/
theorem c16_isinstance (T : TypeTable) (v C : Nat) (hC : T.isSub T.proxyCls C = false) :
    outerIsinstance T proxyClass (.proxy v) C = isinstanceOp T v C :=
  outerIsinstance_spoof T proxyClass v C (by decide) hC

/-- Read from the source: `__pow__` hands its modulus on; the replacement `len()` delegates to the builtin. -/
theorem c16_generated_flags : proxyClass.powForwardsModulo = true ∧ proxyClass.lenFnDelegates = true := by
  decide

/-! ## The full statements and why they are refuted (open findings) -/

/-- The reflected family without its side condition. -/
def C16_reflected_Full : Prop :=
  ∀ (T : TypeTable) (op : BinOp) (l r : Nat), op.isCmp = false →
    Transparent (binaryOp T op l r) (outerBinary T proxyClass op (.raw l) (.proxy r))

theorem c16_reflected_full_of_ok (h : ∀ T op l r, RightOK T op l r = true) : C16_reflected_Full :=
  fun T op l r hop => c16_reflected T op l r hop (h T op l r)

/-- Witness: class B (11) derives from A (10) and overrides `__radd__`; `A() + B()` is answered by `B.__radd__`
(3), but with B's instance behind a proxy CPython cannot see the subclass relation and `A.__add__` answers (2). -/
def witnessTable : TypeTable where
  cls := fun v => if v = 0 then 10 else 11
  isSub := fun a b => a == b || (a == 11 && b == 10)
  lookup := fun c d => if c = 10 ∧ d = .add then some 100 else if c = 11 ∧ d = .radd then some 101
    else if c = 11 ∧ d = .add then some 100 else none
  isSq := fun _ => false
  foreign := fun _ => .blind
  call := fun s _ _ => if s = 100 then .ret (.raw 2) else .ret (.raw 3)
  call1 := fun _ _ => .raise 0
  same := fun a b => a == b
  trueId := 1
  falseId := 0
  typeErr := 0
  attrErr := 1
  hasKind := fun _ _ => false
  post := fun _ _ => .raise 0
  convFallback := fun _ _ => .raise 0
  iterContains := fun _ _ => .raise 0
  proxyCls := 99

theorem c16_reflected_counterexample : ¬ C16_reflected_Full := by
  intro h
  have hreal : (binaryOp witnessTable .add 0 1).res = .ret (.raw 3) := by decide
  have hprox : (outerBinary witnessTable proxyClass .add (.raw 0) (.proxy 1)).res = .ret (.raw 2) := by decide
  obtain ⟨v', hv', hf, _⟩ := (h witnessTable .add 0 1 rfl).1 _ hreal
  rw [hprox] at hv'
  cases hv'
  rcases hf with hf | hf <;> cases hf

/-! ## Non-vacuity -/

-- the side condition holds when the left method declines (every C number slot) …
example : RightOK { witnessTable with foreign := fun _ => .declines } .add 0 1 = true := by decide
-- … and then the proxied operation is the wrapped real one
example : (outerBinary { witnessTable with foreign := fun _ => .declines } proxyClass .add (.raw 0) (.proxy 1)).res
    = .ret (.proxy (.raw 3)) := by decide
example : (outerBinary witnessTable proxyClass .add (.proxy 0) (.raw 1)).res = .ret (.proxy (.raw 3)) := by decide
example : RightOK witnessTable .add 0 1 = false := by decide

end Pedal.Proxy

import PedalModel.TimeoutIR
/-
C14 — the fact functions of PedalModel/TimeoutIR.lean on hand-written trees: what they accept (the same protocol
written in different ways) and what they refuse (the defects the hand mutations / seeded changes introduce).
Labelled tests (`#guard`), independent of the generated file: they pin the MEANING of a fact, so that a change of the
fact functions that would make `cfg_fixed` easier to pass is noticed here.
-/
namespace Pedal.TimeoutIR.Tests

def finish : Tree := .eff .stopPatches (.eff .popStdout (.eff .appendOutput (.leaf .fall)))
def giveUp : Tree := .eff .terminate (.leaf .raiseTimeout)
def letEnd : Tree := .eff .joinFull (.ask (.other 1) (.leaf .raiseOther) (.leaf .fall))
def started (t : Tree) : Tree := .ask (.other 0) (.leaf .ret) (.eff .start (.eff .joinTimed t))

/-! `timeout()` -/
-- `if alive and claim: give up else: let it end`
#guard graderClaims (started (.ask .alive (.ask .claim giveUp letEnd) letEnd)) == some true
-- `if not alive or not claim: let it end; return` (De Morgan: the very same tree) and a double `is_alive()`
#guard graderClaims (started (.ask .alive (.ask .alive (.ask .claim giveUp letEnd) letEnd) letEnd)) == some true
-- measured (no `other` questions, plain `ret`)
#guard graderClaims (.eff .start (.eff .joinTimed (.ask .alive (.ask .claim giveUp (.eff .joinFull (.leaf .ret)))
    (.eff .joinFull (.leaf .ret))))) == some true
-- the pinned tree: no claim
#guard graderClaims (started (.ask .alive giveUp letEnd)) == some false
-- claim asked BEFORE is_alive (a thread that loses the claim dies, the grader then reports nothing)
#guard graderClaims (started (.ask .claim (.ask .alive giveUp letEnd) letEnd)) == none
-- `alive or claim`
#guard graderClaims (started (.ask .alive giveUp (.ask .claim giveUp letEnd))) == none
-- terminate() gone / TimeoutError without terminate
#guard graderClaims (started (.ask .alive (.ask .claim (.leaf .raiseTimeout) letEnd) letEnd)) == none
-- gives up although the claim was lost
#guard graderClaims (started (.ask .alive (.ask .claim giveUp giveUp) letEnd)) == none
-- the claim asked twice (the second answer is always False)
#guard graderClaims (started (.ask .alive (.ask .claim (.ask .claim giveUp letEnd) letEnd) letEnd)) == none
-- no thread started on any path that is understood / cut by an opaque spot
#guard graderClaims (.ask .alive (.ask .claim giveUp letEnd) letEnd) == none
#guard graderClaims (started (.opaque 7)) == none
#guard graderClaims (started (.ask .alive (.ask .claim giveUp (.opaque 7)) letEnd)) == none

/-! `_stop_mocking` -/
#guard studentChecks (.ask .plain finish (.ask .claim finish (.leaf .raiseSystemExit))) == some true
-- a direct `current_thread().claim_finish()` (no `plain` question) is a check as well
#guard studentChecks (.ask .claim finish (.leaf .raiseSystemExit)) == some true
-- the pinned shape
#guard studentChecks finish == some false
#guard studentChecks (.ask (.other 3) finish finish) == some false
-- seeded change C14_A: the patches are stopped before the claim is checked
#guard studentChecks (.eff .stopPatches (.ask .plain (.eff .popStdout (.eff .appendOutput (.leaf .fall)))
    (.ask .claim (.eff .popStdout (.eff .appendOutput (.leaf .fall))) (.leaf .raiseSystemExit)))) == none
-- the lost claim `return`s (the thread goes on to report its SystemExit)
#guard studentChecks (.ask .plain finish (.ask .claim finish (.leaf .ret))) == none
-- the lost claim is ignored
#guard studentChecks (.ask .plain finish (.ask .claim finish finish)) == none
-- something not understood happens before the check
#guard studentChecks (.eff (.opaque 2) (.ask .plain finish (.ask .claim finish (.leaf .raiseSystemExit)))) == none
-- the winner does not finalize
#guard studentChecks (.ask .plain finish (.ask .claim (.leaf .fall) (.leaf .raiseSystemExit))) == none
-- an ordinary thread is refused
#guard studentChecks (.ask .plain (.leaf .raiseSystemExit) (.ask .claim finish (.leaf .raiseSystemExit))) == none

/-! `_stop_mocking` that tells the execution its thread was started for (`timed`) from others finishing there -/
def raced : Tree := .ask .claim finish (.leaf .raiseSystemExit)
-- `if claim is None or mark is not context: return True; return claim()`
#guard studentChecks (.ask .plain finish (.ask .timed raced finish)) == some true
-- the same with the mark looked at first, and as measured (no `plain` question under `timed`)
#guard studentChecks (.ask .timed (.ask .plain finish raced) finish) == some true
#guard studentChecks (.ask .plain finish (.ask .timed raced finish)) == studentChecks (.ask .plain finish raced)
-- the test inverted (`is context`): the timed execution is never raced for, every other one is
#guard studentChecks (.ask .plain finish (.ask .timed finish raced)) == none
-- another execution finishing on the thread still takes the thread's claim (the defect the mark repairs)
#guard studentChecks (.ask .plain finish (.ask .timed raced raced)) == none
-- another execution finishing on the thread is ended silently / does not finalize
#guard studentChecks (.ask .plain finish (.ask .timed raced (.leaf .raiseSystemExit))) == none
#guard studentChecks (.ask .plain finish (.ask .timed raced (.leaf .fall))) == none
-- the mark is looked at, but nobody is raced for: the pinned shape
#guard studentChecks (.ask .plain finish (.ask .timed finish finish)) == some false
-- the timed execution touches the sandbox before it asks
#guard studentChecks (.ask .plain finish (.ask .timed (.eff .stopPatches raced) finish)) == none
-- the measurement of the timed execution failed: nothing established (the reading decides)
#guard studentChecks (.ask .plain finish (.ask .timed (.opaque 9) finish)) == none

/-! the handler -/
def rest : Tree := .eff .capture (.eff .bump (.leaf .ret))
def full : Tree := .eff .stopPatches (.ask .haveStdout (.eff .popStdout (.eff .appendOutput rest)) rest)
#guard handlerPops full == some true
#guard handlerBumps full == some true
-- through `_stop_mocking` (asks whether the thread is an ordinary one: the grader thread is)
#guard handlerPops (.ask .plain (.eff .stopPatches (.eff .popStdout (.eff .appendOutput rest))) (.leaf .raiseSystemExit)) == some true
#guard handlerPops (.eff .stopPatches (.eff .capture (.leaf .ret))) == some false
#guard handlerBumps (.eff .stopPatches (.eff .capture (.leaf .ret))) == some false
-- pops only under a condition nobody understands: not established (the measurement decides)
#guard handlerPops (.eff .stopPatches (.ask .haveStdout (.ask (.other 4) (.eff .popStdout (.eff .appendOutput rest)) rest) rest)) == none
-- nothing found, but something not understood happened: no NEGATIVE fact either
#guard handlerPops (.eff .stopPatches (.eff (.opaque 5) rest)) == none
#guard handlerBumps (.eff .stopPatches (.eff (.opaque 5) (.eff .capture (.leaf .ret)))) == none
-- pops but drops the text
#guard handlerPops (.eff .stopPatches (.ask .haveStdout (.eff .popStdout rest) rest)) == none
#guard handlerBumps (.opaque 0) == none

/-! two sources -/
#guard combine (some true) none == some true
#guard combine none (some false) == some false
#guard combine (some true) (some false) == none
#guard combine none none == none
#guard bothOrNeither (some true) (some false) == none
#guard bothOrNeither (some true) none == none
#guard bothOrNeither (some false) (some false) == some false

end Pedal.TimeoutIR.Tests

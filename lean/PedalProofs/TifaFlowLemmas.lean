import PedalModel.TifaFlow
/-
Lemmas about the TIFA flow model: dictionaries, the path lookup, `merge_paths` as a pointwise
merge of the two branch lookups, and the classification of explicit path lists.
-/
namespace Pedal.TifaFlow

/-! ### dictionaries -/

theorem get_put (m : NameMap) (x : Var) (s : VState) (y : Var) :
    get (put m x s) y = if x = y then some s else get m y := by
  induction m with
  | nil => simp [put, get]
  | cons h t ih =>
    obtain ⟨k, v⟩ := h
    by_cases hk : k = x
    · subst hk
      by_cases hy : k = y <;> simp [put, get, hy]
    · by_cases hy : k = y
      · subst hy
        have : ¬ x = k := fun h => hk h.symm
        simp [put, get, hk, this]
      · simp [put, get, hk, hy, ih]

theorem get_put_self (m : NameMap) (x : Var) (s : VState) : get (put m x s) x = some s := by
  simp [get_put]

theorem get_put_ne (m : NameMap) {x y : Var} (s : VState) (h : x ≠ y) : get (put m x s) y = get m y := by
  simp [get_put, h]

theorem mem_keys_of_get {m : NameMap} {x : Var} {v : VState} (h : get m x = some v) : x ∈ keys m := by
  induction m with
  | nil => simp [get] at h
  | cons hd t ih =>
    obtain ⟨k, w⟩ := hd
    by_cases hk : k = x
    · simp [keys, hk]
    · simp [get, hk] at h
      have := ih h
      simp [keys] at this ⊢
      exact Or.inr this

theorem get_none_of_not_mem_keys {m : NameMap} {x : Var} (h : x ∉ keys m) : get m x = none := by
  cases hg : get m x with
  | none => rfl
  | some v => exact absurd (mem_keys_of_get hg) h

theorem writeAll_get (f : Var → Option VState) (ks : List Var) (p : NameMap) (y : Var) :
    get (writeAll f ks p) y =
      if y ∈ ks then (match f y with | some v => some v | none => get p y) else get p y := by
  induction ks generalizing p with
  | nil => simp [writeAll]
  | cons k ks ih =>
    have hstep : writeAll f (k :: ks) p
        = writeAll f ks (match f k with | some v => put p k v | none => p) := rfl
    rw [hstep, ih]
    by_cases hky : k = y
    · subst hky
      cases hf : f k with
      | none => simp
      | some v => simp [get_put_self]
    · have hyk : ¬ y = k := fun h => hky h.symm
      cases hf : f k with
      | none => simp [hyk]
      | some v => simp [hyk, get_put_ne _ _ hky]

/-! ### `findVar` -/

@[simp] theorem findVar_nil_cons (ms : List NameMap) (x : Var) : findVar ([] :: ms) x = findVar ms x := by
  simp [findVar, get]

theorem findVar_cons_some {m : NameMap} {x : Var} {v : VState} (ms : List NameMap) (h : get m x = some v) :
    findVar (m :: ms) x = some v := by
  simp [findVar, h]

theorem findVar_cons_none {m : NameMap} {x : Var} (ms : List NameMap) (h : get m x = none) :
    findVar (m :: ms) x = findVar ms x := by
  simp [findVar, h]

theorem findVar_put_self (m : NameMap) (ms : List NameMap) (x : Var) (s : VState) :
    findVar (put m x s :: ms) x = some s := by
  simp [findVar, get_put_self]

theorem findVar_put_ne (m : NameMap) (ms : List NameMap) {x y : Var} (s : VState) (h : x ≠ y) :
    findVar (put m x s :: ms) y = findVar (m :: ms) y := by
  simp [findVar, get_put_ne _ _ h]

theorem findVar_single (m : NameMap) (x : Var) : findVar [m] x = get m x := by
  cases h : get m x <;> simp [findVar, h]

/-! ### `merge_paths` is the pointwise merge of the two branch lookups -/

theorem matchRso_comm (a b : Tri) : matchRso a b = matchRso b a := by
  cases a <;> cases b <;> rfl

theorem matchRso_self (a : Tri) : matchRso a a = a := by
  cases a <;> rfl

/-- The state a name has after an if/while, from its states at the end of the two branch paths
    (`none` = the name is on neither that path nor any enclosing one). -/
def mergeOpt : Option VState → Option VState → Option VState
  | none, none => none
  | some a, none => some (combine a none)
  | none, some b => some (combine b none)
  | some a, some b => some (combine a (some b))

theorem combine_comm (a b : VState) : combine a (some b) = combine b (some a) := by
  simp [combine, matchRso_comm a.set b.set, matchRso_comm a.read b.read]

theorem combine_self (a : VState) : combine a (some a) = a := by
  cases a
  simp [combine, matchRso_self]

theorem get_mergePaths (parent left right : NameMap) (chain : List NameMap) (x : Var) :
    get (mergePaths parent left right chain) x =
      match mergeVal parent left right chain x with
      | some v => some v
      | none => get parent x := by
  unfold mergePaths
  rw [writeAll_get]
  by_cases hx : x ∈ keys left ++ keys right
  · simp [hx]
  · have hl : get left x = none := get_none_of_not_mem_keys (fun h => hx (List.mem_append_left _ h))
    have hr : get right x = none := get_none_of_not_mem_keys (fun h => hx (List.mem_append_right _ h))
    simp [hx, mergeVal, hl, hr]

/-- KEY LEMMA (merge of two branch states): after `merge_paths`, looking a name up from the parent
    path gives the merge of what the two branch paths see at their ends. -/
theorem findVar_mergePaths (parent left right : NameMap) (chain : List NameMap) (x : Var) :
    findVar (mergePaths parent left right chain :: chain) x =
      mergeOpt (findVar (left :: parent :: chain) x) (findVar (right :: parent :: chain) x) := by
  cases hl : get left x with
  | some ls =>
    have hm : get (mergePaths parent left right chain) x
        = some (combine ls (findVar (right :: parent :: chain) x)) := by
      rw [get_mergePaths]; simp [mergeVal, hl]
    rw [findVar_cons_some _ hm, findVar_cons_some _ hl]
    cases findVar (right :: parent :: chain) x <;> rfl
  | none =>
    rw [findVar_cons_none _ hl]
    cases hr : get right x with
    | some rs =>
      have hm : get (mergePaths parent left right chain) x
          = some (combine rs (findVar (parent :: chain) x)) := by
        rw [get_mergePaths]; simp [mergeVal, hl, hr]
      rw [findVar_cons_some _ hm, findVar_cons_some _ hr]
      cases findVar (parent :: chain) x with
      | none => rfl
      | some pv => simp [mergeOpt, combine_comm]
    | none =>
      have hm : get (mergePaths parent left right chain) x = get parent x := by
        rw [get_mergePaths]; simp [mergeVal, hl, hr]
      rw [findVar_cons_none _ hr]
      have : findVar (mergePaths parent left right chain :: chain) x = findVar (parent :: chain) x := by
        simp [findVar, hm]
      rw [this]
      cases findVar (parent :: chain) x with
      | none => rfl
      | some pv => simp [mergeOpt, combine_self]

/-! ### classification of explicit path lists -/

def Cls.join (a b : Cls) : Cls := if a = b then a else .some

def triCls : Tri → Cls
  | .yes => .all
  | .no => .none
  | .maybe => .some

/-- Abstract assigned-before classification: what `find_variable_scope` + `state.set` say. -/
def absSet (maps : List NameMap) (x : Var) : Cls :=
  match findVar maps x with
  | none => .none
  | some v => triCls v.set

def optCls : Option VState → Cls
  | none => .none
  | some v => triCls v.set

theorem absSet_eq (maps : List NameMap) (x : Var) : absSet maps x = optCls (findVar maps x) := by
  unfold absSet optCls; cases findVar maps x <;> rfl

theorem optCls_mergeOpt (a b : Option VState) : optCls (mergeOpt a b) = (optCls a).join (optCls b) := by
  cases a with
  | none =>
    cases b with
    | none => rfl
    | some b => cases b with | mk s r => cases s <;> rfl
  | some a =>
    cases a with | mk s r =>
    cases b with
    | none => cases s <;> rfl
    | some b => cases b with | mk s' r' => cases s <;> cases s' <;> rfl

theorem all_id_not_false {bs : List Bool} (hne : bs ≠ []) (h : bs.all id = true) : bs.all not = false := by
  cases bs with
  | nil => exact absurd rfl hne
  | cons b t =>
    simp at h
    simp [h.1]

theorem classify_append {as bs : List Bool} (ha : as ≠ []) (hb : bs ≠ []) :
    classify (as ++ bs) = (classify as).join (classify bs) := by
  unfold classify
  simp only [List.all_append]
  cases h1 : as.all id <;> cases h2 : as.all not <;> cases h3 : bs.all id <;> cases h4 : bs.all not <;>
    simp_all [Cls.join, all_id_not_false]
  all_goals first
    | (have := all_id_not_false ha h1; simp_all)
    | (have := all_id_not_false hb h3; simp_all)

theorem concSet_append {ps qs : List PState} (hp : ps ≠ []) (hq : qs ≠ []) (x : Var) :
    concSet (ps ++ qs) x = (concSet ps x).join (concSet qs x) := by
  unfold concSet
  rw [List.map_append]
  exact classify_append (by simpa using hp) (by simpa using hq)

theorem concSet_all_iff {ps : List PState} {x : Var} : concSet ps x = .all ↔ ∀ σ ∈ ps, x ∈ σ.asg := by
  unfold concSet classify
  constructor
  · intro h
    by_cases h1 : (ps.map fun σ => decide (x ∈ σ.asg)).all id = true
    · simpa using h1
    · simp [h1] at h
      split at h <;> simp at h
  · intro h
    have : (ps.map fun σ => decide (x ∈ σ.asg)).all id = true := by simpa using h
    simp [this]

theorem concSet_none_iff {ps : List PState} (hne : ps ≠ []) {x : Var} :
    concSet ps x = .none ↔ ∀ σ ∈ ps, x ∉ σ.asg := by
  unfold concSet classify
  constructor
  · intro h
    by_cases h1 : (ps.map fun σ => decide (x ∈ σ.asg)).all id = true
    · simp [h1] at h
    · simp only [h1] at h
      by_cases h2 : (ps.map fun σ => decide (x ∈ σ.asg)).all not = true
      · simpa using h2
      · simp [h2] at h
  · intro h
    have h2 : (ps.map fun σ => decide (x ∈ σ.asg)).all not = true := by simpa using h
    have h1 : (ps.map fun σ => decide (x ∈ σ.asg)).all id = false := by
      cases ps with
      | nil => exact absurd rfl hne
      | cons σ t =>
        have := h σ (by simp)
        simp [this]
    simp [h1, h2]

theorem concSet_some_iff {ps : List PState} (hne : ps ≠ []) {x : Var} :
    concSet ps x = .some ↔ (∃ σ ∈ ps, x ∈ σ.asg) ∧ (∃ σ ∈ ps, x ∉ σ.asg) := by
  constructor
  · intro h
    constructor
    · apply Classical.byContradiction
      intro hn
      have : concSet ps x = .none := (concSet_none_iff hne).2 (fun σ hσ hx => hn ⟨σ, hσ, hx⟩)
      rw [this] at h; cases h
    · apply Classical.byContradiction
      intro hn
      have : concSet ps x = .all := concSet_all_iff.2 (fun σ hσ => Classical.byContradiction fun hx => hn ⟨σ, hσ, hx⟩)
      rw [this] at h; cases h
  · intro ⟨⟨σ, hσ, hx⟩, ⟨τ, hτ, hy⟩⟩
    cases hc : concSet ps x with
    | all => exact absurd (concSet_all_iff.1 hc τ hτ) hy
    | none => exact absurd hx ((concSet_none_iff hne).1 hc σ hσ)
    | some => rfl

theorem concSet_map_pRead (ps : List PState) (r x : Var) :
    concSet (ps.map (pRead · r)) x = concSet ps x := by
  simp [concSet, pRead, List.map_map, Function.comp_def]

theorem concSet_map_pWrite_self (ps : List PState) (x : Var) :
    concSet (ps.map (pWrite · x)) x = .all := by
  apply concSet_all_iff.2
  intro σ hσ
  simp at hσ
  obtain ⟨τ, _, rfl⟩ := hσ
  simp [pWrite]

theorem concSet_map_pWrite_ne (ps : List PState) {x y : Var} (h : y ≠ x) :
    concSet (ps.map (pWrite · y)) x = concSet ps x := by
  have hx : ¬ x = y := fun e => h e.symm
  simp [concSet, pWrite, List.map_map, Function.comp_def, hx]

end Pedal.TifaFlow

import PedalModel.TypeOps
/-
Helper definitions and lemmas for C19: the key-level ("head constructor") abstraction of TIFA's operator typing
that the generated tables are checked against, and its link to the model functions.
Property theorems are in PedalProofs/C19.lean.
-/
namespace Pedal.Types
open Pedal.Gen.Types

/-! ### key-level abstraction -/

/-- the pedal type classes TIFA may give a value of a run-time class (a literal class or its promotion) -/
def keysOf : Cls → List Key
  | .int => [.litInt, .int]
  | .float => [.litFloat, .float]
  | .str => [.litStr, .str]
  | .list => [.list]
  | .tuple => [.tuple]
  | .bool => [.litBool, .bool]
  | .complex => [.num]
  | .other _ => []

def promoteKey : Key → Key
  | .litInt => .int | .litFloat => .float | .litBool => .bool | .litStr => .str
  | k => k

def fnKey : ResFn → Key → Key → Key
  | .numAny, _, _ => .num
  | .intAny, _, _ => .int
  | .floatAny, _, _ => .float
  | .strAny, _, _ => .str
  | .boolAny, _, _ => .bool
  | .keepLeft, k, _ => k
  | .keepRight, _, k => k
  | .addContainers, k1, k2 => if k1 = k2 then k1 else .other "mixed"
  | .addTuples, .tuple, .tuple => .tuple
  | .addTuples, _, _ => .other "error"
  | .unknown n, _, _ => .other n

/-- class of `apply_binary_operation`'s result for operands of the given (non-Any) classes -/
def binKey (op : BinOp) (k1 k2 : Key) : Key :=
  match lookupBinop op (promoteKey k1) (promoteKey k2) with
  | some fn => fnKey fn (promoteKey k1) (promoteKey k2)
  | none => .impossible

/-- `right.allows_membership(left)` decided by the classes alone: `some b` = flagged iff `b` whatever the element
    types are, `none` = depends on the element types -/
def memberFlagsKey (left right : Key) : Option Bool :=
  match right with
  | .any => some false
  | .str | .litStr => some (!(left = .str || left = .litStr || left = .any))
  | .list | .set | .fset | .tuple | .dict => none
  | _ => some true

def flagsKey : Op → Key → Key → Option Bool
  | .bin o, k1, k2 => some (binKey o k1 k2 == .impossible)
  | .cmp .eq, _, _ | .cmp .noteq, _, _ | .cmp .is, _, _ | .cmp .isnot, _, _ => some false
  | .cmp .lt, k1, k2 | .cmp .lte, k1, k2 | .cmp .gt, k1, k2 | .cmp .gte, k1, k2 => some (!(orderable.contains (k1, k2)))
  | .cmp .in, k1, k2 | .cmp .notin, k1, k2 => memberFlagsKey k1 k2
  | .cmp (.unknown _), _, _ => some true

def resultKey : Op → Key → Key → Key
  | .bin o, k1, k2 => binKey o k1 k2
  | .cmp _, _, _ => .bool

/-- One cell of the CPython table against TIFA, for every pedal class the operands' types may have:
    TypeError for all representatives ⇒ TIFA certainly flags; TIFA possibly silent ⇒ the class of the inferred
    type is one a value of each observed run-time class conforms to (minus the listed known-bad results). -/
def cellOk (bad : List (Op × Cls × Cls × Cls)) (row : Op × Cls × Cls × Bool × List Cls) : Bool :=
  (keysOf row.2.1).all fun k1 => (keysOf row.2.2.1).all fun k2 =>
    (!row.2.2.2.1 || flagsKey row.1 k1 k2 == some true) &&
    (flagsKey row.1 k1 k2 == some true ||
      row.2.2.2.2.all (fun c => bad.contains (row.1, row.2.1, row.2.2.1, c) || (keysOf c).contains (resultKey row.1 k1 k2)))

/-- result cells where TIFA's inferred type does not fit the run-time class (open findings) -/
def knownBad : List (Op × Cls × Cls × Cls) :=
  [(.bin .pow, .int, .int, .float), (.bin .pow, .int, .float, .complex), (.bin .pow, .float, .float, .complex)]

end Pedal.Types

namespace Pedal.Types
open Pedal.Gen.Types

/-! ### linking the key level to the model functions -/

theorem keyOf_promote (t : Ty) : keyOf (promote t) = promoteKey (keyOf t) := by
  cases t <;> rfl

theorem isAny_iff (t : Ty) : isAny t = true ↔ keyOf t = .any := by
  cases t <;> simp [isAny, keyOf]

theorem isImpossible_iff (t : Ty) : isImpossible t = true ↔ keyOf t = .impossible := by
  cases t <;> simp [isImpossible, keyOf]

theorem keyOf_applyFn (fn : ResFn) (l r : Ty) (h : fn = .addContainers → keyOf l = keyOf r) :
    keyOf (applyFn fn l r) = fnKey fn (keyOf l) (keyOf r) := by
  cases fn with
  | addContainers =>
    have hk := h rfl
    simp only [applyFn, fnKey, hk, if_true]
    split <;> simp [hk]
  | addTuples => cases l <;> cases r <;> simp [applyFn, fnKey, keyOf]
  | _ => simp [applyFn, fnKey, keyOf]

/-- every `add_element_container_types` cell has the same class on both sides (generated table, `decide`) -/
theorem addContainers_rows_same :
    ∀ row ∈ binopTable, row.2.2.2 = ResFn.addContainers → row.2.1 = row.2.2.1 := by decide

theorem lookupBinop_addContainers (op : BinOp) (k1 k2 : Key) (h : lookupBinop op k1 k2 = some .addContainers) :
    k1 = k2 := by
  unfold lookupBinop at h
  cases hf : binopTable.find? (fun row => row.1 == op && row.2.1 == k1 && row.2.2.1 == k2) with
  | none => simp [hf] at h
  | some row =>
    simp only [hf, Option.map_some, Option.some.injEq] at h
    have hmem := List.mem_of_find?_eq_some hf
    have hp := List.find?_some hf
    simp only [Bool.and_eq_true, beq_iff_eq] at hp
    have := addContainers_rows_same row hmem h
    rw [← hp.1.2, ← hp.2]
    exact this

theorem keyOf_applyBinary (op : BinOp) (l r : Ty) (hl : keyOf l ≠ .any) (hr : keyOf r ≠ .any) :
    keyOf (applyBinary op l r) = binKey op (keyOf l) (keyOf r) := by
  have hl' : isAny l = false := by
    cases h : isAny l
    · rfl
    · exact absurd ((isAny_iff l).mp h) hl
  have hr' : isAny r = false := by
    cases h : isAny r
    · rfl
    · exact absurd ((isAny_iff r).mp h) hr
  simp only [applyBinary, hl', hr', Bool.false_eq_true, if_false, binKey, keyOf_promote]
  cases hfn : lookupBinop op (promoteKey (keyOf l)) (promoteKey (keyOf r)) with
  | none => rfl
  | some fn =>
    simp only
    rw [keyOf_applyFn fn (promote l) (promote r) ?_, keyOf_promote, keyOf_promote]
    intro hfn'
    rw [keyOf_promote, keyOf_promote]
    exact lookupBinop_addContainers op _ _ (hfn' ▸ hfn)

theorem keyOf_resultTy (op : Op) (l r : Ty) (hl : keyOf l ≠ .any) (hr : keyOf r ≠ .any) :
    keyOf (resultTy op l r) = resultKey op (keyOf l) (keyOf r) := by
  cases op with
  | bin o => exact keyOf_applyBinary o l r hl hr
  | cmp o => rfl

theorem isSubtype_str (l : Ty) :
    isSubtype l .str = (keyOf l = .str || keyOf l = .litStr || keyOf l = .any) := by
  cases l <;> simp [isSubtype, isSub, intObj, floatObj, boolObj, numUnderInt, numUnderFloat, keyOf, isAny]

theorem flagged_of_flagsKey (op : Op) (l r : Ty) (b : Bool) (hl : keyOf l ≠ .any) (hr : keyOf r ≠ .any)
    (h : flagsKey op (keyOf l) (keyOf r) = some b) : flagged op l r = b := by
  cases op with
  | bin o =>
    simp only [flagsKey, Option.some.injEq] at h
    simp only [flagged]
    rw [← h, ← keyOf_applyBinary o l r hl hr]
    cases hi : isImpossible (applyBinary o l r)
    · have : keyOf (applyBinary o l r) ≠ .impossible := fun hk => by
        rw [(isImpossible_iff _).mpr hk] at hi; cases hi
      simp [this]
    · simp [(isImpossible_iff _).mp hi]
  | cmp o =>
    cases o with
    | «in» | notin =>
      simp only [flagsKey, memberFlagsKey] at h
      simp only [flagged, compareFlags]
      cases r <;> simp_all [keyOf, allowsMembership, isSubtype_str]
    | _ => simp_all [flagsKey, flagged, compareFlags]

theorem any_not_in_keysOf (c : Cls) : Key.any ∉ keysOf c := by
  cases c <;> simp [keysOf]

/-! ### is_subtype -/

theorem isSub_any (t : Ty) (s : Seen) : (isSub t .any s).1 = true := by
  cases t <;> simp [isSub, intObj, floatObj, boolObj, isAny, keyOf]

/-- `others` contains every pair of `items` (stated through `anyP`, which is how `dictAll` looks pairs up) -/
def PairsIn (items others : TyPairs) : Prop := ∀ f, items.anyP f = true → others.anyP f = true

theorem PairsIn.refl (items : TyPairs) : PairsIn items items := fun _ h => h

theorem PairsIn.tail {k v : Ty} {rest others : TyPairs} (h : PairsIn (.cons k v rest) others) : PairsIn rest others :=
  fun f hf => h f (by simp [TyPairs.anyP, hf])

mutual
theorem isSub_refl : ∀ (t : Ty) (s : Seen), (isSub t t s).1 = true
  | .any, s => by simp [isSub]
  | .impossible, s => by simp [isSub, keyOf]
  | .none, s => by simp [isSub, keyOf]
  | .num, s => by simp [isSub, keyOf]
  | .int, s => by simp [isSub, intObj, keyOf, isAny]
  | .float, s => by simp [isSub, floatObj, keyOf, isAny]
  | .bool, s => by simp [isSub, boolObj, keyOf, isAny]
  | .str, s => by simp [isSub, keyOf]
  | .litInt, s => by simp [isSub, keyOf]
  | .litFloat, s => by simp [isSub, keyOf]
  | .litBool, s => by simp [isSub, keyOf]
  | .litStr, s => by simp [isSub, keyOf]
  | .list _ e, s => by simp only [isSub]; exact isSub_refl e s
  | .set _ e, s => by simp only [isSub]; exact isSub_refl e s
  | .fset _ e, s => by simp only [isSub]; exact isSub_refl e s
  | .tuple xs, s => by simp only [isSub]; exact isSubAll_refl xs s
  | .dict items, s => by simp only [isSub]; exact dictAll_of_in items items s (PairsIn.refl items)
  | .other n, s => by simp [isSub, keyOf]
theorem isSubAll_refl : ∀ (xs : TyList) (s : Seen), (isSubAll xs xs s).1 = true
  | .nil, s => by simp [isSubAll]
  | .cons x xs, s => by
    have hx := isSub_refl x s
    simp only [isSubAll]
    cases h : isSub x x s with
    | mk b s' =>
      rw [h] at hx
      simp only at hx
      subst hx
      exact isSubAll_refl xs s'
theorem dictAll_of_in : ∀ (items others : TyPairs) (s : Seen), PairsIn items others → dictAll items others s = true
  | .nil, _, _, _ => by simp [dictAll]
  | .cons k v rest, others, s, h => by
    simp only [dictAll, Bool.and_eq_true]
    refine ⟨?_, dictAll_of_in rest others s h.tail⟩
    apply h
    simp [TyPairs.anyP, isSub_refl k s, isSub_refl v s]
end

theorem dictAll_anyany : ∀ (items : TyPairs) (s : Seen), dictAll items (.cons .any .any .nil) s = true
  | .nil, s => by simp [dictAll]
  | .cons k v rest, s => by simp [dictAll, TyPairs.anyP, isSub_any, dictAll_anyany rest s]

theorem dictType_is_dict (items : List (Ty × Ty)) : ∃ ps, dictType items = .dict ps := by
  unfold dictType
  split
  · exact ⟨_, rfl⟩
  · split
    · exact ⟨_, rfl⟩
    · split <;> exact ⟨_, rfl⟩

end Pedal.Types

import PedalModel.SandboxExec
/-
Lemmas behind C04 / C05.

Strategy.  `execute` = `plan` (control, depends on the termination only through the finite `Sig`) followed by
`applyPrims` (data).  The data lemmas below hold for EVERY list of primitive steps; the property of the
generated ladder that the theorems need is then a decidable check over the 48 signatures
(`checkC05`, `checkC04`), discharged by `decide` in PedalProofs/C05.lean / C04.lean.
-/
namespace Pedal.SandboxExec

/-! ### Data layer: folding primitive steps -/

theorem applyPrims_nil (env : Env) (s : St) : applyPrims env s [] = s := rfl

theorem applyPrims_cons (env : Env) (s : St) (q : Prim) (qs : List Prim) :
    applyPrims env s (q :: qs) = applyPrims env (applyPrim env s q) qs := rfl

theorem applyPrim_patches_length (env : Env) (s : St) (q : Prim) :
    (applyPrim env s q).patches.length = depthP q s.patches.length := by
  cases q <;> simp only [applyPrim, depthP] <;> (try split) <;> simp_all

theorem applyPrim_stdouts_length (env : Env) (s : St) (q : Prim) :
    (applyPrim env s q).stdouts.length = depthO q s.stdouts.length := by
  cases q <;> simp only [applyPrim, depthO] <;> (try split) <;> simp_all

theorem applyPrims_patches_length (env : Env) (qs : List Prim) (s : St) :
    (applyPrims env s qs).patches.length = qs.foldl (fun n q => depthP q n) s.patches.length := by
  induction qs generalizing s with
  | nil => rfl
  | cons q qs ih => rw [applyPrims_cons, ih, applyPrim_patches_length]; rfl

theorem applyPrims_stdouts_length (env : Env) (qs : List Prim) (s : St) :
    (applyPrims env s qs).stdouts.length = qs.foldl (fun n q => depthO q n) s.stdouts.length := by
  induction qs generalizing s with
  | nil => rfl
  | cons q qs ih => rw [applyPrims_cons, ih, applyPrim_stdouts_length]; rfl

/-- Undo every live patch, innermost first: what the borrowed globals would be with all patches stopped. -/
def unwind (fs : List PatchFrame) (g : Globals) : Globals := fs.foldl (fun g f => f.restore g) g

/-- Steps that can occur in a well-formed ladder on a tree whose builtins stay private. -/
def safePrim : Prim → Bool
  | .touchBuiltins => false
  | .unknown => false
  | _ => true

/-- A tracer style that leaves the trace function as it found it - also, when the executed code imports another
    student file (`nested`), after being re-entered inside its own `with`. -/
def TraceOK (style : TraceStyle) (nested : Bool) : Prop := style.leaks nested = false

instance (style : TraceStyle) (nested : Bool) : Decidable (TraceOK style nested) := by unfold TraceOK; infer_instance

theorem TraceOK.to_false {style : TraceStyle} {nested : Bool} (h : TraceOK style nested) : TraceOK style false := by
  unfold TraceOK TraceStyle.leaks at *
  cases nested
  · exact h
  · cases hi : style.installs <;> cases hr : style.restores <;> simp_all

/-- Not importing is the easier case. -/
theorem TraceOK.of_nested {style : TraceStyle} (h : TraceOK style true) (nested : Bool) : TraceOK style nested := by
  unfold TraceOK TraceStyle.leaks at *
  cases nested
  · cases hi : style.installs <;> cases hr : style.restores <;> simp_all
  · exact h

theorem restore_install (m : MockProbe) (g : Globals) (a b c : Nat) :
    PatchFrame.restore
      { stdout := if m.patchesStdout then some g.stdout else none,
        sleep := if m.patchesSleep then some g.sleep else none,
        modules := if m.patchesModules then some g.modules else none }
      { g with stdout := if m.patchesStdout then a else g.stdout,
               sleep := if m.patchesSleep then b else g.sleep,
               modules := if m.patchesModules then c else g.modules } = g := by
  cases g
  cases h1 : m.patchesStdout <;> cases h2 : m.patchesSleep <;> cases h3 : m.patchesModules <;>
    simp [PatchFrame.restore]

/-- The key invariant: no primitive step changes what the globals would be once all patches are stopped. -/
theorem unwind_applyPrim (env : Env) (hr : env.probe.stopRestores = true) (ht : TraceOK env.style env.nested)
    (s : St) (q : Prim) (hq : safePrim q = true) :
    unwind (applyPrim env s q).patches (applyPrim env s q).g = unwind s.patches s.g := by
  cases q <;> try (simp [safePrim] at hq) <;> try rfl
  case startPatches =>
    simp only [applyPrim, unwind, List.foldl_cons]
    rw [restore_install]
  case stopPatches =>
    simp only [applyPrim]
    cases h : s.patches with
    | nil => simp [h]
    | cons f ps => simp [unwind, hr]
  case exec traced =>
    simp only [applyPrim]
    split
    · rename_i hc
      simp only [Bool.and_eq_true] at hc
      have : env.style.leaks env.nested = false := ht
      simp [this] at hc
    · rfl

theorem unwind_applyPrims (env : Env) (hr : env.probe.stopRestores = true) (ht : TraceOK env.style env.nested)
    (qs : List Prim) (s : St) (hq : qs.all safePrim = true) :
    unwind (applyPrims env s qs).patches (applyPrims env s qs).g = unwind s.patches s.g := by
  induction qs generalizing s with
  | nil => rfl
  | cons q qs ih =>
    simp only [List.all_cons, Bool.and_eq_true] at hq
    rw [applyPrims_cons, ih _ hq.2, unwind_applyPrim env hr ht s q hq.1]

/-- The exceptions recorded successfully, in order. -/
def captures : List Prim → List Who
  | [] => []
  | .captureOk w :: qs => w :: captures qs
  | _ :: qs => captures qs

theorem applyPrim_feedbacks (env : Env) (s : St) (q : Prim) :
    (applyPrim env s q).feedbacks = s.feedbacks ++ (captures [q]).map env.mkFb := by
  cases q <;> simp only [applyPrim, captures] <;> (try split) <;> simp_all

theorem captures_cons (q : Prim) (qs : List Prim) : captures (q :: qs) = captures [q] ++ captures qs := by
  cases q <;> simp [captures]

theorem applyPrims_feedbacks (env : Env) (qs : List Prim) (s : St) :
    (applyPrims env s qs).feedbacks = s.feedbacks ++ (captures qs).map env.mkFb := by
  induction qs generalizing s with
  | nil => simp [applyPrims_nil, captures]
  | cons q qs ih =>
    rw [applyPrims_cons, ih, applyPrim_feedbacks, captures_cons q qs, List.map_append, List.append_assoc]

/-- Last write to `sandbox.exception`: `none` = untouched, `some none` = cleared, `some (some w)` = set. -/
def slotStep (acc : Option (Option Who)) : Prim → Option (Option Who)
  | .clearException => some none
  | .captureOk w => some (some w)
  | .captureFail w => some (some w)
  | _ => acc

def slot (qs : List Prim) : Option (Option Who) := qs.foldl slotStep none

def slotValue (env : Env) (init : Option String) : Option (Option Who) → Option String
  | none => init
  | some none => none
  | some (some w) => some (env.reported w)

theorem applyPrim_exception (env : Env) (init : Option String) (acc : Option (Option Who)) (s : St) (q : Prim)
    (h : s.exception = slotValue env init acc) :
    (applyPrim env s q).exception = slotValue env init (slotStep acc q) := by
  cases q <;> simp only [applyPrim, slotStep] <;> (try split) <;> first | exact h | rfl

theorem applyPrims_exception_aux (env : Env) (init : Option String) (qs : List Prim) (acc : Option (Option Who))
    (s : St) (h : s.exception = slotValue env init acc) :
    (applyPrims env s qs).exception = slotValue env init (qs.foldl slotStep acc) := by
  induction qs generalizing s acc with
  | nil => exact h
  | cons q qs ih => exact ih _ _ (applyPrim_exception env init acc s q h)

theorem applyPrims_exception (env : Env) (qs : List Prim) (s : St) :
    (applyPrims env s qs).exception = slotValue env s.exception (slot qs) :=
  applyPrims_exception_aux env s.exception qs none s rfl

/-! ### The finite signature space -/

def allKinds : List Kind := [.normal, .raised, .compileFailed]
def allBools : List Bool := [false, true]

def allSigs : List Sig :=
  allKinds.flatMap fun k => allBools.flatMap fun a => allBools.flatMap fun b => allBools.flatMap fun c =>
    allBools.map fun d => { kind := k, isException := a, isSystemExit := b, captureFails := c, injected := d }

theorem mem_allSigs (sig : Sig) : sig ∈ allSigs := by
  obtain ⟨k, a, b, c, d⟩ := sig
  cases k <;> cases a <;> cases b <;> cases c <;> cases d <;> decide

theorem forall_sig_of_all {P : Sig → Bool} (h : allSigs.all P = true) (sig : Sig) : P sig = true :=
  List.all_eq_true.mp h sig (mem_allSigs sig)

/-! ### Decidable checks on a ladder -/

def base0 : Base := { p0 := 0, o0 := 0 }

/-- C05 for one signature: from empty stacks, the ladder ends with empty stacks, and only ever performs
    steps the invariant lemma covers - whether it returns or propagates. -/
def checkC05 (m : MockProbe) (d : ExecuteDef) (sig : Sig) : Bool :=
  let r := plan m base0 sig d
  depthPs base0 r.1 == 0 && depthOs base0 r.1 == 0 && r.1.all safePrim

/-- The signatures C04 speaks about: an Exception or SystemExit whose recording does not fail. -/
def Sig.contained (sig : Sig) : Bool :=
  (sig.isException || sig.isSystemExit) && !sig.captureFails && !sig.injected

/-- C04 for one signature: the call returns; a failure is recorded exactly once, as the student's exception,
    and that is what `sandbox.exception` ends up holding; a normal run records nothing and clears the slot. -/
def checkC04 (m : MockProbe) (d : ExecuteDef) (sig : Sig) : Bool :=
  let r := plan m base0 sig d
  match sig.kind with
  | .normal => r.2 == .returned && captures r.1 == [] && slot r.1 == some none
  | _ => !sig.contained ||
      (r.2 == .returned && captures r.1 == [.student] && slot r.1 == some (some .student))

/-! ### From the checks to statements about `execute` -/

theorem baseOf_inv (s : St) (hs : s.Inv) : baseOf s = base0 := by
  obtain ⟨hp, ho⟩ := hs
  simp [baseOf, base0, hp, ho]

theorem unwind_nil (g : Globals) : unwind [] g = g := rfl

/-- C05, one execution, for any configuration that passes the check. -/
theorem execute_restores (cfg : Cfg) (hr : cfg.probe.stopRestores = true)
    (hchk : ∀ sig, checkC05 cfg.probe cfg.exec sig = true)
    (style : TraceStyle) (nested : Bool) (hst : TraceOK style nested) (s : St) (hs : s.Inv) (t : Termination)
    (inject : Bool) :
    (execute cfg style nested s t inject).1.Inv ∧ (execute cfg style nested s t inject).1.g = s.g := by
  have hc := hchk (sigOf cfg t inject)
  simp only [checkC05, Bool.and_eq_true, beq_iff_eq] at hc
  obtain ⟨⟨hp, ho⟩, hsafe⟩ := hc
  have hps : s.patches = [] := hs.1
  have hos : s.stdouts = [] := hs.2
  simp only [execute, baseOf_inv s hs]
  have hst' : TraceOK (envOf cfg style nested t).style (envOf cfg style nested t).nested := by
    show TraceOK style (nested && cfg.imp.reentersTracer)
    cases hre : cfg.imp.reentersTracer
    · simpa using hst.to_false
    · simpa using hst
  have h1 := applyPrims_patches_length (envOf cfg style nested t)
    (plan cfg.probe base0 (sigOf cfg t inject) cfg.exec).1 s
  have h2 := applyPrims_stdouts_length (envOf cfg style nested t)
    (plan cfg.probe base0 (sigOf cfg t inject) cfg.exec).1 s
  have h3 := unwind_applyPrims (envOf cfg style nested t) hr hst'
    (plan cfg.probe base0 (sigOf cfg t inject) cfg.exec).1 s hsafe
  simp only [hps, hos, List.length_nil] at h1 h2
  have e1 := List.eq_nil_of_length_eq_zero (h1.trans hp)
  have e2 := List.eq_nil_of_length_eq_zero (h2.trans ho)
  refine ⟨⟨e1, e2⟩, ?_⟩
  rw [e1, hps, unwind_nil, unwind_nil] at h3
  exact h3

theorem sigOf_contained (cfg : Cfg) (t : Termination) (e : ExcDesc) (ht : t.exc? = some e)
    (hc : e.isException = true ∨ e.isSystemExit = true) (hz : hazardous cfg.unguarded e = false) :
    (sigOf cfg t false).contained = true ∧ (sigOf cfg t false).kind ≠ .normal := by
  cases t with
  | normal => simp [Termination.exc?] at ht
  | raised e' =>
    simp only [Termination.exc?, Option.some.injEq] at ht; subst ht
    rcases hc with hc | hc <;> simp [sigOf, Sig.contained, hc, hz]
  | compileFailed e' =>
    simp only [Termination.exc?, Option.some.injEq] at ht; subst ht
    rcases hc with hc | hc <;> simp [sigOf, Sig.contained, hc, hz]

/-- C04, one failing execution, for any configuration that passes the check. -/
theorem execute_contains (cfg : Cfg) (hchk : ∀ sig, checkC04 cfg.probe cfg.exec sig = true)
    (style : TraceStyle) (nested : Bool) (s : St) (hs : s.Inv) (t : Termination) (e : ExcDesc)
    (ht : t.exc? = some e)
    (hc : e.isException = true ∨ e.isSystemExit = true) (hz : hazardous cfg.unguarded e = false) :
    (execute cfg style nested s t false).2 = .returned ∧
    (execute cfg style nested s t false).1.exception = some (reportedCls e) ∧
    (execute cfg style nested s t false).1.feedbacks = s.feedbacks ++
      [{ label := mapLabel (reportedCls e), excName := reportedCls e, line := chooseLine cfg.strategy e }] := by
  have hk := hchk (sigOf cfg t false)
  obtain ⟨hcont, hkind⟩ := sigOf_contained cfg t e ht hc hz
  have hk' : (plan cfg.probe base0 (sigOf cfg t false) cfg.exec).2 = .returned ∧
      captures (plan cfg.probe base0 (sigOf cfg t false) cfg.exec).1 = [.student] ∧
      slot (plan cfg.probe base0 (sigOf cfg t false) cfg.exec).1 = some (some .student) := by
    unfold checkC04 at hk
    cases hkk : (sigOf cfg t false).kind with
    | normal => exact absurd hkk hkind
    | raised => simp [hkk, hcont] at hk; exact ⟨hk.1.1, hk.1.2, hk.2⟩
    | compileFailed => simp [hkk, hcont] at hk; exact ⟨hk.1.1, hk.1.2, hk.2⟩
  obtain ⟨hret, hcap, hslot⟩ := hk'
  have henv : (envOf cfg style nested t).exc = some e := by simp [envOf, ht]
  simp only [execute, baseOf_inv s hs]
  refine ⟨hret, ?_, ?_⟩
  · rw [applyPrims_exception, hslot]
    simp [slotValue, Env.reported, henv]
  · rw [applyPrims_feedbacks, hcap]
    simp [Env.mkFb, envOf, ht]

/-- C04, a normal execution: returns, nothing recorded, exception slot empty. -/
theorem execute_normal (cfg : Cfg) (hchk : ∀ sig, checkC04 cfg.probe cfg.exec sig = true)
    (style : TraceStyle) (nested : Bool) (s : St) (hs : s.Inv) (inject : Bool) :
    (execute cfg style nested s .normal inject).2 = .returned ∧
    (execute cfg style nested s .normal inject).1.exception = none ∧
    (execute cfg style nested s .normal inject).1.feedbacks = s.feedbacks := by
  have hk := hchk (sigOf cfg .normal inject)
  have hkind : (sigOf cfg .normal inject).kind = .normal := rfl
  unfold checkC04 at hk
  simp only [hkind, Bool.and_eq_true, beq_iff_eq] at hk
  obtain ⟨⟨hret, hcap⟩, hslot⟩ := hk
  simp only [execute, baseOf_inv s hs]
  refine ⟨hret, ?_, ?_⟩
  · rw [applyPrims_exception, hslot]; rfl
  · rw [applyPrims_feedbacks, hcap]; simp

end Pedal.SandboxExec

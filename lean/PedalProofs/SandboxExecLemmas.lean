import PedalModel.SandboxExec
/-
Lemmas behind C04 / C05.

Strategy.  `execute` = `plan` (control, depends on the termination only through the finite `Sig`) followed by
`applyPrims` (data).  The data lemmas below hold for EVERY list of primitive steps; the property of the
generated ladder that the theorems need is then a decidable check over the 48 signatures
(`checkC05`, `checkC04`), discharged by `decide` in PedalProofs/C05.lean / C04.lean.
-/
namespace Pedal.SandboxExec

/-! ### Data layer: folding primitive steps -/

theorem applyPrims_nil (env : Env) (s : St) : applyPrims env s [] = s := rfl

theorem applyPrims_cons (env : Env) (s : St) (q : Prim) (qs : List Prim) :
    applyPrims env s (q :: qs) = applyPrims env (applyPrim env s q) qs := rfl

theorem applyPrim_patches_length (env : Env) (s : St) (q : Prim) :
    (applyPrim env s q).patches.length = depthP q s.patches.length := by
  cases q <;> simp only [applyPrim, depthP] <;> (try split) <;> simp_all

theorem applyPrim_stdouts_length (env : Env) (s : St) (q : Prim) :
    (applyPrim env s q).stdouts.length = depthO q s.stdouts.length := by
  cases q <;> simp only [applyPrim, depthO] <;> (try split) <;> simp_all

theorem applyPrims_patches_length (env : Env) (qs : List Prim) (s : St) :
    (applyPrims env s qs).patches.length = qs.foldl (fun n q => depthP q n) s.patches.length := by
  induction qs generalizing s with
  | nil => rfl
  | cons q qs ih => rw [applyPrims_cons, ih, applyPrim_patches_length]; rfl

theorem applyPrims_stdouts_length (env : Env) (qs : List Prim) (s : St) :
    (applyPrims env s qs).stdouts.length = qs.foldl (fun n q => depthO q n) s.stdouts.length := by
  induction qs generalizing s with
  | nil => rfl
  | cons q qs ih => rw [applyPrims_cons, ih, applyPrim_stdouts_length]; rfl

/-- Undo every live patch, innermost first: what the borrowed globals would be with all patches stopped. -/
def unwind (fs : List PatchFrame) (g : Globals) : Globals := fs.foldl (fun g f => f.restore g) g

/-- Steps that can occur in a well-formed ladder on a tree whose builtins stay private. -/
def safePrim : Prim → Bool
  | .touchBuiltins => false
  | .hitEmpty => false          -- popping a stack that is empty: not its own frame
  | .unknown => false
  | _ => true

/-- A tracer style that leaves the trace function as it found it - also, when the executed code imports another
    student file (`nested`), after being re-entered inside its own `with`. -/
def TraceOK (style : TraceStyle) (nested : Bool) : Prop := style.leaks nested = false

instance (style : TraceStyle) (nested : Bool) : Decidable (TraceOK style nested) := by unfold TraceOK; infer_instance

theorem TraceOK.to_false {style : TraceStyle} {nested : Bool} (h : TraceOK style nested) : TraceOK style false := by
  unfold TraceOK TraceStyle.leaks at *
  cases nested
  · exact h
  · cases hi : style.installs <;> cases hr : style.restores <;> simp_all

/-- Not importing is the easier case. -/
theorem TraceOK.of_nested {style : TraceStyle} (h : TraceOK style true) (nested : Bool) : TraceOK style nested := by
  unfold TraceOK TraceStyle.leaks at *
  cases nested
  · cases hi : style.installs <;> cases hr : style.restores <;> simp_all
  · exact h

theorem restore_install (m : MockProbe) (g : Globals) (a b c : Nat) :
    PatchFrame.restore
      { stdout := if m.patchesStdout then some g.stdout else none,
        sleep := if m.patchesSleep then some g.sleep else none,
        modules := if m.patchesModules then some g.modules else none }
      { g with stdout := if m.patchesStdout then a else g.stdout,
               sleep := if m.patchesSleep then b else g.sleep,
               modules := if m.patchesModules then c else g.modules } = g := by
  cases g
  cases h1 : m.patchesStdout <;> cases h2 : m.patchesSleep <;> cases h3 : m.patchesModules <;>
    simp [PatchFrame.restore]

/-- The key invariant: no primitive step changes what the globals would be once all patches are stopped. -/
theorem unwind_applyPrim (env : Env) (hr : env.probe.stopRestores = true) (ht : TraceOK env.style env.nested)
    (s : St) (q : Prim) (hq : safePrim q = true) :
    unwind (applyPrim env s q).patches (applyPrim env s q).g = unwind s.patches s.g := by
  cases q <;> try (simp [safePrim] at hq) <;> try rfl
  case startPatches =>
    simp only [applyPrim, unwind, List.foldl_cons]
    rw [restore_install]
  case stopPatches =>
    simp only [applyPrim]
    cases h : s.patches with
    | nil => simp [h]
    | cons f ps => simp [unwind, hr]
  case exec traced =>
    simp only [applyPrim]
    split
    · rename_i hc
      simp only [Bool.and_eq_true] at hc
      have : env.style.leaks env.nested = false := ht
      simp [this] at hc
    · rfl

theorem unwind_applyPrims (env : Env) (hr : env.probe.stopRestores = true) (ht : TraceOK env.style env.nested)
    (qs : List Prim) (s : St) (hq : qs.all safePrim = true) :
    unwind (applyPrims env s qs).patches (applyPrims env s qs).g = unwind s.patches s.g := by
  induction qs generalizing s with
  | nil => rfl
  | cons q qs ih =>
    simp only [List.all_cons, Bool.and_eq_true] at hq
    rw [applyPrims_cons, ih _ hq.2, unwind_applyPrim env hr ht s q hq.1]

/-! ### Data layer: an execution touches only what it pushed itself -/

/-- What the executions nested in another one do to the sandbox leaves both stacks and the borrowed globals as
    they found them (the statement of C05 for an execution that starts in the middle of another one). -/
def Framed (inner : St → St) : Prop :=
  ∀ s, (inner s).patches = s.patches ∧ (inner s).stdouts = s.stdouts ∧ (inner s).g = s.g

theorem framed_id : Framed id := fun _ => ⟨rfl, rfl, rfl⟩

/-- Starting `n` frames above the part of the patch stack that is not ours, never stop a patch frame that is
    not ours. -/
def strictP : List Prim → Nat → Bool
  | [], _ => true
  | q :: qs, n => (q != .stopPatches || n != 0) && strictP qs (depthP q n)

def strictO : List Prim → Nat → Bool
  | [], _ => true
  | q :: qs, n => (q != .popStdout || n != 0) && strictO qs (depthO q n)

theorem applyPrimsN_cons (env : Env) (inner : St → St) (s : St) (q : Prim) (qs : List Prim) :
    applyPrimsN env inner s (q :: qs) = applyPrimsN env inner (applyPrimN env inner s q) qs := rfl

theorem applyPrimN_patches (env : Env) (hr : env.probe.stopRestores = true) (ht : TraceOK env.style env.nested)
    (inner : St → St) (hin : Framed inner) (s : St) (q : Prim) (hq : safePrim q = true)
    (top rest : List PatchFrame) (hp : s.patches = top ++ rest) (hst : q = .stopPatches → top ≠ []) :
    ∃ top', (applyPrimN env inner s q).patches = top' ++ rest ∧ top'.length = depthP q top.length ∧
      unwind top' (applyPrimN env inner s q).g = unwind top s.g := by
  cases q <;> try (simp [safePrim] at hq)
  case startPatches =>
    refine ⟨{ stdout := if env.probe.patchesStdout then some s.g.stdout else none,
               sleep := if env.probe.patchesSleep then some s.g.sleep else none,
               modules := if env.probe.patchesModules then some s.g.modules else none } :: top,
            by simp [applyPrimN, applyPrim, hp], by simp [depthP], ?_⟩
    simp only [applyPrimN, applyPrim, unwind, List.foldl_cons]
    rw [restore_install]
  case stopPatches =>
    cases top with
    | nil => exact absurd rfl (hst rfl)
    | cons f t =>
      refine ⟨t, by simp [applyPrimN, applyPrim, hp], by simp [depthP], ?_⟩
      simp [applyPrimN, applyPrim, hp, unwind, hr]
  case exec traced =>
    obtain ⟨h1, _, h3⟩ := hin s
    have hl : env.style.leaks env.nested = false := ht
    refine ⟨top, ?_, by simp [depthP], ?_⟩
    · simp [applyPrimN, applyPrim, hl, h1, hp]
    · simp [applyPrimN, applyPrim, hl, h3]
  all_goals exact ⟨top, by simp [applyPrimN, applyPrim, hp], by simp [depthP], by simp [applyPrimN, applyPrim]⟩

theorem applyPrimN_stdouts (env : Env) (inner : St → St) (hin : Framed inner) (s : St) (q : Prim)
    (top rest : List Nat) (hp : s.stdouts = top ++ rest) (hst : q = .popStdout → top ≠ []) :
    ∃ top', (applyPrimN env inner s q).stdouts = top' ++ rest ∧ top'.length = depthO q top.length := by
  cases q
  case pushStdout => exact ⟨s.fresh :: top, by simp [applyPrimN, applyPrim, hp], by simp [depthO]⟩
  case popStdout =>
    cases top with
    | nil => exact absurd rfl (hst rfl)
    | cons f t => exact ⟨t, by simp [applyPrimN, applyPrim, hp], by simp [depthO]⟩
  case exec traced =>
    obtain ⟨_, h2, _⟩ := hin s
    refine ⟨top, ?_, by simp [depthO]⟩
    simp only [applyPrimN, applyPrim]
    split <;> simp [h2, hp]
  case stopPatches =>
    refine ⟨top, ?_, by simp [depthO]⟩
    simp only [applyPrimN, applyPrim]
    split <;> simp [hp]
  all_goals exact ⟨top, by simp [applyPrimN, applyPrim, hp], by simp [depthO]⟩

theorem applyPrimsN_patches (env : Env) (hr : env.probe.stopRestores = true) (ht : TraceOK env.style env.nested)
    (inner : St → St) (hin : Framed inner) (qs : List Prim) (s : St) (hq : qs.all safePrim = true)
    (top rest : List PatchFrame) (hp : s.patches = top ++ rest) (hst : strictP qs top.length = true) :
    ∃ top', (applyPrimsN env inner s qs).patches = top' ++ rest ∧
      top'.length = qs.foldl (fun n q => depthP q n) top.length ∧
      unwind top' (applyPrimsN env inner s qs).g = unwind top s.g := by
  induction qs generalizing s top with
  | nil => exact ⟨top, hp, rfl, rfl⟩
  | cons q qs ih =>
    simp only [List.all_cons, Bool.and_eq_true] at hq
    simp only [strictP, Bool.and_eq_true, Bool.or_eq_true, bne_iff_ne, ne_eq] at hst
    have hne : q = .stopPatches → top ≠ [] := by
      intro hqe
      rcases hst.1 with h | h
      · exact absurd hqe h
      · intro ht0; apply h; simp [ht0]
    obtain ⟨t1, p1, l1, u1⟩ := applyPrimN_patches env hr ht inner hin s q hq.1 top rest hp hne
    obtain ⟨t2, p2, l2, u2⟩ := ih (applyPrimN env inner s q) hq.2 t1 p1 (by rw [l1]; exact hst.2)
    refine ⟨t2, by rw [applyPrimsN_cons]; exact p2, ?_, ?_⟩
    · rw [l2, l1]; rfl
    · rw [applyPrimsN_cons, u2, u1]

theorem applyPrimsN_stdouts (env : Env) (inner : St → St) (hin : Framed inner) (qs : List Prim) (s : St)
    (top rest : List Nat) (hp : s.stdouts = top ++ rest) (hst : strictO qs top.length = true) :
    ∃ top', (applyPrimsN env inner s qs).stdouts = top' ++ rest ∧
      top'.length = qs.foldl (fun n q => depthO q n) top.length := by
  induction qs generalizing s top with
  | nil => exact ⟨top, hp, rfl⟩
  | cons q qs ih =>
    simp only [strictO, Bool.and_eq_true, Bool.or_eq_true, bne_iff_ne, ne_eq] at hst
    have hne : q = .popStdout → top ≠ [] := by
      intro hqe
      rcases hst.1 with h | h
      · exact absurd hqe h
      · intro ht0; apply h; simp [ht0]
    obtain ⟨t1, p1, l1⟩ := applyPrimN_stdouts env inner hin s q top rest hp hne
    obtain ⟨t2, p2, l2⟩ := ih (applyPrimN env inner s q) t1 p1 (by rw [l1]; exact hst.2)
    exact ⟨t2, by rw [applyPrimsN_cons]; exact p2, by rw [l2, l1]; rfl⟩

/-- A balanced, strict, safe list of steps - with framed nested executions - leaves both stacks and the borrowed
    globals exactly as they were, WHATEVER was on the stacks. -/
theorem applyPrimsN_frames (env : Env) (hr : env.probe.stopRestores = true) (ht : TraceOK env.style env.nested)
    (inner : St → St) (hin : Framed inner) (qs : List Prim) (hq : qs.all safePrim = true)
    (hsp : strictP qs 0 = true) (hso : strictO qs 0 = true)
    (hbp : qs.foldl (fun n q => depthP q n) 0 = 0) (hbo : qs.foldl (fun n q => depthO q n) 0 = 0) (s : St) :
    (applyPrimsN env inner s qs).patches = s.patches ∧ (applyPrimsN env inner s qs).stdouts = s.stdouts ∧
      (applyPrimsN env inner s qs).g = s.g := by
  obtain ⟨t1, p1, l1, u1⟩ := applyPrimsN_patches env hr ht inner hin qs s hq [] s.patches rfl hsp
  obtain ⟨t2, p2, l2⟩ := applyPrimsN_stdouts env inner hin qs s [] s.stdouts rfl hso
  have e1 : t1 = [] := List.eq_nil_of_length_eq_zero (by rw [l1]; exact hbp)
  have e2 : t2 = [] := List.eq_nil_of_length_eq_zero (by rw [l2]; exact hbo)
  subst e1; subst e2
  exact ⟨p1, p2, u1⟩

/-- The exceptions recorded successfully, in order. -/
def captures : List Prim → List Who
  | [] => []
  | .captureOk w :: qs => w :: captures qs
  | _ :: qs => captures qs

theorem applyPrim_feedbacks (env : Env) (s : St) (q : Prim) :
    (applyPrim env s q).feedbacks = s.feedbacks ++ (captures [q]).map env.mkFb := by
  cases q <;> simp only [applyPrim, captures] <;> (try split) <;> simp_all

theorem captures_cons (q : Prim) (qs : List Prim) : captures (q :: qs) = captures [q] ++ captures qs := by
  cases q <;> simp [captures]

theorem applyPrims_feedbacks (env : Env) (qs : List Prim) (s : St) :
    (applyPrims env s qs).feedbacks = s.feedbacks ++ (captures qs).map env.mkFb := by
  induction qs generalizing s with
  | nil => simp [applyPrims_nil, captures]
  | cons q qs ih =>
    rw [applyPrims_cons, ih, applyPrim_feedbacks, captures_cons q qs, List.map_append, List.append_assoc]

/-- Last write to `sandbox.exception`: `none` = untouched, `some none` = cleared, `some (some w)` = set. -/
def slotStep (acc : Option (Option Who)) : Prim → Option (Option Who)
  | .clearException => some none
  | .captureOk w => some (some w)
  | .captureFail w => some (some w)
  | _ => acc

def slot (qs : List Prim) : Option (Option Who) := qs.foldl slotStep none

def slotValue (env : Env) (init : Option String) : Option (Option Who) → Option String
  | none => init
  | some none => none
  | some (some w) => some (env.reported w)

theorem applyPrim_exception (env : Env) (init : Option String) (acc : Option (Option Who)) (s : St) (q : Prim)
    (h : s.exception = slotValue env init acc) :
    (applyPrim env s q).exception = slotValue env init (slotStep acc q) := by
  cases q <;> simp only [applyPrim, slotStep] <;> (try split) <;> first | exact h | rfl

theorem applyPrims_exception_aux (env : Env) (init : Option String) (qs : List Prim) (acc : Option (Option Who))
    (s : St) (h : s.exception = slotValue env init acc) :
    (applyPrims env s qs).exception = slotValue env init (qs.foldl slotStep acc) := by
  induction qs generalizing s acc with
  | nil => exact h
  | cons q qs ih => exact ih _ _ (applyPrim_exception env init acc s q h)

theorem applyPrims_exception (env : Env) (qs : List Prim) (s : St) :
    (applyPrims env s qs).exception = slotValue env s.exception (slot qs) :=
  applyPrims_exception_aux env s.exception qs none s rfl

/-! ### The finite signature space -/

def allKinds : List Kind := [.normal, .raised, .compileFailed]
def allBools : List Bool := [false, true]

def allSigs : List Sig :=
  allKinds.flatMap fun k => allBools.flatMap fun a => allBools.flatMap fun b => allBools.flatMap fun c =>
    allBools.map fun d => { kind := k, isException := a, isSystemExit := b, captureFails := c, injected := d }

theorem mem_allSigs (sig : Sig) : sig ∈ allSigs := by
  obtain ⟨k, a, b, c, d⟩ := sig
  cases k <;> cases a <;> cases b <;> cases c <;> cases d <;> decide

theorem forall_sig_of_all {P : Sig → Bool} (h : allSigs.all P = true) (sig : Sig) : P sig = true :=
  List.all_eq_true.mp h sig (mem_allSigs sig)

/-- Both stacks empty at entry. -/
def base0 : Base := { p0 := 0, o0 := 0 }

/-! ### Control layer: the plan does not depend on the depth of the stacks it starts from -/

theorem depthPs_emit (b : Base) (c : Ctl) (q : Prim) : depthPs b (emit c q) = depthP q (depthPs b c) := by
  simp [depthPs, emit, List.foldl_append]

theorem depthOs_emit (b : Base) (c : Ctl) (q : Prim) : depthOs b (emit c q) = depthO q (depthOs b c) := by
  simp [depthOs, emit, List.foldl_append]

/-- No pop of an empty stack so far. -/
def NoHit (c : Ctl) : Prop := Prim.hitEmpty ∉ c

theorem noHit_of_emit {c : Ctl} {q : Prim} (h : NoHit (emit c q)) : NoHit c := by
  intro hm; exact h (by simp [emit, hm])

theorem not_noHit_emit_hit (c : Ctl) : ¬ NoHit (emit c .hitEmpty) := by
  intro h; exact h (by simp [emit])

/-- The depths seen from base `b` are those seen from empty stacks, shifted. -/
def Shift (b : Base) (c : Ctl) : Prop :=
  depthPs b c = depthPs base0 c + b.p0 ∧ depthOs b c = depthOs base0 c + b.o0

theorem shift_nil (b : Base) : Shift b [] := by simp [Shift, depthPs, depthOs, base0]

theorem shift_emit {b : Base} {c : Ctl} (h : Shift b c) (q : Prim)
    (hp : q = .stopPatches → depthPs base0 c ≠ 0) (ho : q = .popStdout → depthOs base0 c ≠ 0) :
    Shift b (emit c q) := by
  obtain ⟨h1, h2⟩ := h
  refine ⟨?_, ?_⟩
  · rw [depthPs_emit, depthPs_emit, h1]
    cases q <;> simp [depthP] at hp ⊢ <;> omega
  · rw [depthOs_emit, depthOs_emit, h2]
    cases q <;> simp [depthO] at ho ⊢ <;> omega


/-! Whatever is in the control state stays in it (steps only append). -/

theorem mem_emit {c : Ctl} {x : Prim} (q : Prim) (h : x ∈ c) : x ∈ emit c q := by simp [emit, h]

theorem stepPrim_mono (m : MockProbe) (b : Base) (c : Ctl) (q x : Prim) (h : x ∈ c) :
    x ∈ (stepPrim m b c q).1 := by
  cases q <;> simp only [stepPrim] <;> (repeat' split) <;> simp [emit, h]

theorem stepPrims_mono (m : MockProbe) (b : Base) (qs : List Prim) (c : Ctl) (x : Prim) (h : x ∈ c) :
    x ∈ (stepPrims m b c qs).1 := by
  induction qs generalizing c with
  | nil => exact h
  | cons q qs ih =>
    have h1 := stepPrim_mono m b c q x h
    simp only [stepPrims]
    split
    · rename_i c' heq
      rw [heq] at h1
      exact ih c' h1
    · exact h1

theorem stepAct_mono (m : MockProbe) (b : Base) (sig : Sig) (cur : Option Who) (c : Ctl) (a : Act) (x : Prim)
    (h : x ∈ c) : x ∈ (stepAct m b sig cur c a).1 := by
  cases a <;> simp only [stepAct] <;>
    first
    | exact h
    | exact mem_emit _ h
    | exact stepPrims_mono m b _ c x h
    | exact stepPrim_mono m b c _ x h
    | (repeat' split) <;> first | exact h | exact mem_emit _ h

theorem stepActs_mono (m : MockProbe) (b : Base) (sig : Sig) (cur : Option Who) (as : List Act) (c : Ctl) (x : Prim)
    (h : x ∈ c) : x ∈ (stepActs m b sig cur c as).1 := by
  induction as generalizing c with
  | nil => exact h
  | cons a as ih =>
    have h1 := stepAct_mono m b sig cur c a x h
    simp only [stepActs]
    split
    · rename_i c' heq
      rw [heq] at h1
      exact ih c' h1
    · exact h1


/-! As long as the run from empty stacks never pops an empty stack, the run from ANY depth is the same. -/

theorem stepPrim_transfer (m : MockProbe) (b : Base) (c : Ctl) (q : Prim) (hs : Shift b c)
    (hn : NoHit (stepPrim m base0 c q).1) :
    stepPrim m b c q = stepPrim m base0 c q ∧ Shift b (stepPrim m base0 c q).1 := by
  cases q
  case popStdout =>
    by_cases h0 : depthOs base0 c = 0
    · exfalso
      apply hn
      simp only [stepPrim, h0, if_true]
      split <;> simp [emit]
    · have hb : depthOs b c ≠ 0 := by rw [hs.2]; omega
      simp only [stepPrim, h0, hb, if_false]
      exact ⟨trivial, shift_emit hs _ (by simp) (fun _ => h0)⟩
  case stopPatches =>
    by_cases h0 : depthPs base0 c = 0
    · exfalso
      apply hn
      simp only [stepPrim, h0, if_true]
      split <;> simp [emit]
    · have hb : depthPs b c ≠ 0 := by rw [hs.1]; omega
      simp only [stepPrim, h0, hb, if_false]
      exact ⟨trivial, shift_emit hs _ (fun _ => h0) (by simp)⟩
  all_goals exact ⟨rfl, shift_emit hs _ (by simp) (by simp)⟩

theorem stepPrims_transfer (m : MockProbe) (b : Base) (qs : List Prim) (c : Ctl) (hs : Shift b c)
    (hn : NoHit (stepPrims m base0 c qs).1) :
    stepPrims m b c qs = stepPrims m base0 c qs ∧ Shift b (stepPrims m base0 c qs).1 := by
  induction qs generalizing c with
  | nil => exact ⟨rfl, hs⟩
  | cons q qs ih =>
    have hn1 : NoHit (stepPrim m base0 c q).1 := by
      intro hm
      apply hn
      simp only [stepPrims]
      split
      · rename_i c' heq
        rw [heq] at hm
        exact stepPrims_mono m base0 qs c' _ hm
      · exact hm
    obtain ⟨e1, s1⟩ := stepPrim_transfer m b c q hs hn1
    simp only [stepPrims, e1]
    split
    · rename_i c' heq
      rw [heq] at s1
      have hn2 : NoHit (stepPrims m base0 c' qs).1 := by
        simpa only [stepPrims, heq] using hn
      exact ih c' s1 hn2
    · rename_i r hne
      exact ⟨rfl, s1⟩


theorem stepAct_transfer (m : MockProbe) (b : Base) (sig : Sig) (cur : Option Who) (c : Ctl) (a : Act)
    (hs : Shift b c) (hn : NoHit (stepAct m base0 sig cur c a).1) :
    stepAct m b sig cur c a = stepAct m base0 sig cur c a ∧ Shift b (stepAct m base0 sig cur c a).1 := by
  cases a
  case startMocking => exact stepPrims_transfer m b _ c hs hn
  case stopMocking => exact stepPrims_transfer m b _ c hs hn
  case stopPatches => exact stepPrim_transfer m b c _ hs hn
  all_goals
    refine ⟨rfl, ?_⟩
    simp only [stepAct]
    (repeat' split) <;> first
      | exact hs
      | exact shift_emit hs _ (by simp) (by simp)

theorem stepActs_transfer (m : MockProbe) (b : Base) (sig : Sig) (cur : Option Who) (as : List Act) (c : Ctl)
    (hs : Shift b c) (hn : NoHit (stepActs m base0 sig cur c as).1) :
    stepActs m b sig cur c as = stepActs m base0 sig cur c as ∧ Shift b (stepActs m base0 sig cur c as).1 := by
  induction as generalizing c with
  | nil => exact ⟨rfl, hs⟩
  | cons a as ih =>
    have hn1 : NoHit (stepAct m base0 sig cur c a).1 := by
      intro hm
      apply hn
      simp only [stepActs]
      split
      · rename_i c' heq
        rw [heq] at hm
        exact stepActs_mono m base0 sig cur as c' _ hm
      · exact hm
    obtain ⟨e1, s1⟩ := stepAct_transfer m b sig cur c a hs hn1
    simp only [stepActs, e1]
    split
    · rename_i c' heq
      rw [heq] at s1
      have hn2 : NoHit (stepActs m base0 sig cur c' as).1 := by
        simpa only [stepActs, heq] using hn
      exact ih c' s1 hn2
    · exact ⟨rfl, s1⟩


/-- What `planTry` does once the body of the `try` has ended as `r1`: `else:` or the matching handler. -/
def tryRest (m : MockProbe) (b : Base) (sig : Sig) (d : ExecuteDef) (r1 : Ctl × Option Who) : Ctl × Option Who :=
  match r1.2 with
  | none => stepActs m b sig none r1.1 d.orelse
  | some w =>
    match d.handlers.find? (fun h => catches sig h.catches w) with
    | none => (r1.1, some w)
    | some h => stepActs m b sig (some w) r1.1 h.body

theorem planTry_eq (m : MockProbe) (b : Base) (sig : Sig) (d : ExecuteDef) (c : Ctl) :
    planTry m b sig d c =
      (let r2 := tryRest m b sig d (stepActs m b sig none c d.body)
       let r3 := stepActs m b sig none r2.1 d.final
       match r3.2 with
       | some w => (r3.1, some w)
       | none => (r3.1, r2.2)) := rfl

theorem planTry_fst (m : MockProbe) (b : Base) (sig : Sig) (d : ExecuteDef) (c : Ctl) :
    (planTry m b sig d c).1 =
      (stepActs m b sig none (tryRest m b sig d (stepActs m b sig none c d.body)).1 d.final).1 := by
  rw [planTry_eq]
  simp only
  split <;> rfl

theorem tryRest_mono (m : MockProbe) (b : Base) (sig : Sig) (d : ExecuteDef) (r1 : Ctl × Option Who) (x : Prim)
    (h : x ∈ r1.1) : x ∈ (tryRest m b sig d r1).1 := by
  unfold tryRest
  split
  · exact stepActs_mono m b sig none _ r1.1 x h
  · split
    · exact h
    · exact stepActs_mono m b sig _ _ r1.1 x h

theorem tryRest_transfer (m : MockProbe) (b : Base) (sig : Sig) (d : ExecuteDef) (r1 : Ctl × Option Who)
    (hs : Shift b r1.1) (hn : NoHit (tryRest m base0 sig d r1).1) :
    tryRest m b sig d r1 = tryRest m base0 sig d r1 ∧ Shift b (tryRest m base0 sig d r1).1 := by
  unfold tryRest at hn ⊢
  split
  · rename_i h1
    simp only [h1] at hn
    exact stepActs_transfer m b sig none _ r1.1 hs hn
  · rename_i w h1
    simp only [h1] at hn
    split
    · exact ⟨rfl, hs⟩
    · rename_i h hf
      simp only [hf] at hn
      exact stepActs_transfer m b sig (some w) _ r1.1 hs hn

theorem planTry_mono (m : MockProbe) (b : Base) (sig : Sig) (d : ExecuteDef) (c : Ctl) (x : Prim) (h : x ∈ c) :
    x ∈ (planTry m b sig d c).1 := by
  rw [planTry_fst]
  exact stepActs_mono m b sig none _ _ x (tryRest_mono m b sig d _ x (stepActs_mono m b sig none _ c x h))

theorem planTry_transfer (m : MockProbe) (b : Base) (sig : Sig) (d : ExecuteDef) (c : Ctl)
    (hs : Shift b c) (hn : NoHit (planTry m base0 sig d c).1) :
    planTry m b sig d c = planTry m base0 sig d c ∧ Shift b (planTry m base0 sig d c).1 := by
  rw [planTry_fst] at hn
  have hn2 : NoHit (tryRest m base0 sig d (stepActs m base0 sig none c d.body)).1 :=
    fun hm => hn (stepActs_mono m base0 sig none _ _ _ hm)
  have hn1 : NoHit (stepActs m base0 sig none c d.body).1 :=
    fun hm => hn2 (tryRest_mono m base0 sig d _ _ hm)
  obtain ⟨e1, s1⟩ := stepActs_transfer m b sig none d.body c hs hn1
  obtain ⟨e2, s2⟩ := tryRest_transfer m b sig d _ s1 hn2
  obtain ⟨e3, s3⟩ := stepActs_transfer m b sig none d.final _ s2 hn
  refine ⟨?_, ?_⟩
  · rw [planTry_eq, planTry_eq]
    simp only [e1, e2, e3]
  · rw [planTry_fst]
    exact s3

/-- The plan of `_execute` started at any depth of the stacks is the plan started with empty stacks, provided
    that one never pops an empty stack. -/
theorem plan_transfer (m : MockProbe) (b : Base) (sig : Sig) (d : ExecuteDef)
    (hn : NoHit (plan m base0 sig d).1) : plan m b sig d = plan m base0 sig d := by
  unfold plan at hn ⊢
  have hs0 : Shift b [] := shift_nil b
  -- pre
  cases hpre : stepActs m base0 sig none [] d.pre with
  | mk c1 o1 =>
    rw [hpre] at hn
    cases o1 with
    | some w =>
      simp only at hn
      have := stepActs_transfer m b sig none d.pre [] hs0 (by rw [hpre]; exact hn)
      rw [this.1, hpre]
    | none =>
      simp only at hn
      cases htry : planTry m base0 sig d c1 with
      | mk c2 o2 =>
        rw [htry] at hn
        have hn1 : NoHit c1 := by
          cases o2 with
          | some w =>
            simp only at hn
            intro hm; apply hn
            have := planTry_mono m base0 sig d c1 _ hm
            rw [htry] at this; exact this
          | none =>
            simp only at hn
            intro hm
            have h2 := planTry_mono m base0 sig d c1 _ hm
            rw [htry] at h2
            have h3 := stepActs_mono m base0 sig none d.post c2 _ h2
            revert hn
            cases hpost : stepActs m base0 sig none c2 d.post with
            | mk c3 o3 =>
              rw [hpost] at h3
              cases o3 <;> (intro hn; exact hn h3)
        obtain ⟨e1, s1⟩ := stepActs_transfer m b sig none d.pre [] hs0 (by rw [hpre]; exact hn1)
        rw [e1, hpre]
        simp only
        rw [hpre] at s1
        cases o2 with
        | some w =>
          simp only at hn
          obtain ⟨e2, _⟩ := planTry_transfer m b sig d c1 s1 (by rw [htry]; exact hn)
          rw [e2, htry]
        | none =>
          simp only at hn
          have hn2 : NoHit c2 := by
            intro hm
            have h3 := stepActs_mono m base0 sig none d.post c2 _ hm
            revert hn
            cases hpost : stepActs m base0 sig none c2 d.post with
            | mk c3 o3 =>
              rw [hpost] at h3
              cases o3 <;> (intro hn; exact hn h3)
          obtain ⟨e2, s2⟩ := planTry_transfer m b sig d c1 s1 (by rw [htry]; exact hn2)
          rw [e2, htry]
          simp only
          rw [htry] at s2
          have hn3 : NoHit (stepActs m base0 sig none c2 d.post).1 := by
            revert hn
            cases hpost : stepActs m base0 sig none c2 d.post with
            | mk c3 o3 => cases o3 <;> (intro hn; exact hn)
          obtain ⟨e3, _⟩ := stepActs_transfer m b sig none d.post c2 s2 hn3
          rw [e3]

/-! ### Decidable checks on a ladder -/

/-- C05 for one signature: from empty stacks, the ladder ends with empty stacks, only ever performs
    steps the invariant lemma covers (in particular it never pops a stack that is empty), and never goes below
    the depth it started at - whether it returns or propagates. -/
def checkC05 (m : MockProbe) (d : ExecuteDef) (sig : Sig) : Bool :=
  let r := plan m base0 sig d
  depthPs base0 r.1 == 0 && depthOs base0 r.1 == 0 && r.1.all safePrim && strictP r.1 0 && strictO r.1 0

/-- The signatures C04 speaks about: an Exception or SystemExit whose recording does not fail. -/
def Sig.contained (sig : Sig) : Bool :=
  (sig.isException || sig.isSystemExit) && !sig.captureFails && !sig.injected

/-- C04 for one signature: the call returns; a failure is recorded exactly once, as the student's exception,
    and that is what `sandbox.exception` ends up holding; a normal run records nothing and clears the slot. -/
def checkC04 (m : MockProbe) (d : ExecuteDef) (sig : Sig) : Bool :=
  let r := plan m base0 sig d
  match sig.kind with
  | .normal => r.2 == .returned && captures r.1 == [] && slot r.1 == some none
  | _ => !sig.contained ||
      (r.2 == .returned && captures r.1 == [.student] && slot r.1 == some (some .student))

/-! ### From the checks to statements about `execute` -/

theorem baseOf_inv (s : St) (hs : s.Inv) : baseOf s = base0 := by
  obtain ⟨hp, ho⟩ := hs
  simp [baseOf, base0, hp, ho]

theorem unwind_nil (g : Globals) : unwind [] g = g := rfl

/-- C05, one execution, for any configuration that passes the check. -/
theorem execute_restores (cfg : Cfg) (hr : cfg.probe.stopRestores = true)
    (hchk : ∀ sig, checkC05 cfg.probe cfg.exec sig = true)
    (style : TraceStyle) (nested : Bool) (hst : TraceOK style nested) (s : St) (hs : s.Inv) (t : Termination)
    (inject : Bool) :
    (execute cfg style nested s t inject).1.Inv ∧ (execute cfg style nested s t inject).1.g = s.g := by
  have hc := hchk (sigOf cfg t inject)
  simp only [checkC05, Bool.and_eq_true, beq_iff_eq] at hc
  obtain ⟨⟨⟨⟨hp, ho⟩, hsafe⟩, _⟩, _⟩ := hc
  have hps : s.patches = [] := hs.1
  have hos : s.stdouts = [] := hs.2
  simp only [execute, baseOf_inv s hs]
  have hst' : TraceOK (envOf cfg style nested t).style (envOf cfg style nested t).nested := by
    show TraceOK style (nested && cfg.imp.reentersTracer)
    cases hre : cfg.imp.reentersTracer
    · simpa using hst.to_false
    · simpa using hst
  have h1 := applyPrims_patches_length (envOf cfg style nested t)
    (plan cfg.probe base0 (sigOf cfg t inject) cfg.exec).1 s
  have h2 := applyPrims_stdouts_length (envOf cfg style nested t)
    (plan cfg.probe base0 (sigOf cfg t inject) cfg.exec).1 s
  have h3 := unwind_applyPrims (envOf cfg style nested t) hr hst'
    (plan cfg.probe base0 (sigOf cfg t inject) cfg.exec).1 s hsafe
  simp only [hps, hos, List.length_nil] at h1 h2
  have e1 := List.eq_nil_of_length_eq_zero (h1.trans hp)
  have e2 := List.eq_nil_of_length_eq_zero (h2.trans ho)
  refine ⟨⟨e1, e2⟩, ?_⟩
  rw [e1, hps, unwind_nil, unwind_nil] at h3
  exact h3

theorem sigOf_contained (cfg : Cfg) (t : Termination) (e : ExcDesc) (ht : t.exc? = some e)
    (hc : e.isException = true ∨ e.isSystemExit = true) (hz : hazardous cfg.unguarded e = false) :
    (sigOf cfg t false).contained = true ∧ (sigOf cfg t false).kind ≠ .normal := by
  cases t with
  | normal => simp [Termination.exc?] at ht
  | raised e' =>
    simp only [Termination.exc?, Option.some.injEq] at ht; subst ht
    rcases hc with hc | hc <;> simp [sigOf, Sig.contained, hc, hz]
  | compileFailed e' =>
    simp only [Termination.exc?, Option.some.injEq] at ht; subst ht
    rcases hc with hc | hc <;> simp [sigOf, Sig.contained, hc, hz]

/-- C04, one failing execution, for any configuration that passes the check. -/
theorem execute_contains (cfg : Cfg) (hchk : ∀ sig, checkC04 cfg.probe cfg.exec sig = true)
    (style : TraceStyle) (nested : Bool) (s : St) (hs : s.Inv) (t : Termination) (e : ExcDesc)
    (ht : t.exc? = some e)
    (hc : e.isException = true ∨ e.isSystemExit = true) (hz : hazardous cfg.unguarded e = false) :
    (execute cfg style nested s t false).2 = .returned ∧
    (execute cfg style nested s t false).1.exception = some (reportedCls e) ∧
    (execute cfg style nested s t false).1.feedbacks = s.feedbacks ++
      [{ label := mapLabel (reportedCls e), excName := reportedCls e, line := chooseLine cfg.strategy e }] := by
  have hk := hchk (sigOf cfg t false)
  obtain ⟨hcont, hkind⟩ := sigOf_contained cfg t e ht hc hz
  have hk' : (plan cfg.probe base0 (sigOf cfg t false) cfg.exec).2 = .returned ∧
      captures (plan cfg.probe base0 (sigOf cfg t false) cfg.exec).1 = [.student] ∧
      slot (plan cfg.probe base0 (sigOf cfg t false) cfg.exec).1 = some (some .student) := by
    unfold checkC04 at hk
    cases hkk : (sigOf cfg t false).kind with
    | normal => exact absurd hkk hkind
    | raised => simp [hkk, hcont] at hk; exact ⟨hk.1.1, hk.1.2, hk.2⟩
    | compileFailed => simp [hkk, hcont] at hk; exact ⟨hk.1.1, hk.1.2, hk.2⟩
  obtain ⟨hret, hcap, hslot⟩ := hk'
  have henv : (envOf cfg style nested t).exc = some e := by simp [envOf, ht]
  simp only [execute, baseOf_inv s hs]
  refine ⟨hret, ?_, ?_⟩
  · rw [applyPrims_exception, hslot]
    simp [slotValue, Env.reported, henv]
  · rw [applyPrims_feedbacks, hcap]
    simp [Env.mkFb, envOf, ht]

/-- C04, a normal execution: returns, nothing recorded, exception slot empty. -/
theorem execute_normal (cfg : Cfg) (hchk : ∀ sig, checkC04 cfg.probe cfg.exec sig = true)
    (style : TraceStyle) (nested : Bool) (s : St) (hs : s.Inv) (inject : Bool) :
    (execute cfg style nested s .normal inject).2 = .returned ∧
    (execute cfg style nested s .normal inject).1.exception = none ∧
    (execute cfg style nested s .normal inject).1.feedbacks = s.feedbacks := by
  have hk := hchk (sigOf cfg .normal inject)
  have hkind : (sigOf cfg .normal inject).kind = .normal := rfl
  unfold checkC04 at hk
  simp only [hkind, Bool.and_eq_true, beq_iff_eq] at hk
  obtain ⟨⟨hret, hcap⟩, hslot⟩ := hk
  simp only [execute, baseOf_inv s hs]
  refine ⟨hret, ?_, ?_⟩
  · rw [applyPrims_exception, hslot]; rfl
  · rw [applyPrims_feedbacks, hcap]; simp


/-! ### Executions started at any depth of the stacks, with executions nested in them -/

theorem noHit_of_safe {c : Ctl} (h : c.all safePrim = true) : NoHit c := by
  intro hm
  have := List.all_eq_true.mp h _ hm
  simp [safePrim] at this

/-- For a configuration that passes the check, `_execute` does the same whatever is on the stacks. -/
theorem plan_any_base (cfg : Cfg) (hchk : ∀ sig, checkC05 cfg.probe cfg.exec sig = true) (b : Base) (sig : Sig) :
    plan cfg.probe b sig cfg.exec = plan cfg.probe base0 sig cfg.exec := by
  have hc := hchk sig
  simp only [checkC05, Bool.and_eq_true, beq_iff_eq] at hc
  exact plan_transfer cfg.probe b sig cfg.exec (noHit_of_safe hc.1.1.2)

theorem applyPrimN_id (env : Env) (s : St) (q : Prim) : applyPrimN env id s q = applyPrim env s q := by
  cases q <;> rfl

theorem applyPrimsN_id (env : Env) (qs : List Prim) (s : St) : applyPrimsN env id s qs = applyPrims env s qs := by
  induction qs generalizing s with
  | nil => rfl
  | cons q qs ih => rw [applyPrimsN_cons, applyPrims_cons, applyPrimN_id, ih]

/-- Without nested executions `executeN` is `execute`. -/
theorem executeN_id (cfg : Cfg) (style : TraceStyle) (nested : Bool) (s : St) (t : Termination) (inject : Bool) :
    executeN cfg style nested s t inject id = execute cfg style nested s t inject := by
  simp only [executeN, execute, applyPrimsN_id]

/-- C05, one execution started in ANY state of the stacks (i.e. possibly while other executions are in progress
    on the sandbox), whose code may itself start further executions that satisfy the same: both stacks and every
    borrowed global are exactly what they were when it started. -/
theorem executeN_frames (cfg : Cfg) (hr : cfg.probe.stopRestores = true)
    (hchk : ∀ sig, checkC05 cfg.probe cfg.exec sig = true)
    (style : TraceStyle) (nested : Bool) (hst : TraceOK style nested) (inner : St → St) (hin : Framed inner)
    (s : St) (t : Termination) (inject : Bool) :
    (executeN cfg style nested s t inject inner).1.patches = s.patches ∧
    (executeN cfg style nested s t inject inner).1.stdouts = s.stdouts ∧
    (executeN cfg style nested s t inject inner).1.g = s.g := by
  have hc := hchk (sigOf cfg t inject)
  simp only [checkC05, Bool.and_eq_true, beq_iff_eq] at hc
  obtain ⟨⟨⟨⟨hp, ho⟩, hsafe⟩, hsp⟩, hso⟩ := hc
  have hst' : TraceOK (envOf cfg style nested t).style (envOf cfg style nested t).nested := by
    show TraceOK style (nested && cfg.imp.reentersTracer)
    cases hre : cfg.imp.reentersTracer
    · simpa using hst.to_false
    · simpa using hst
  simp only [executeN, plan_any_base cfg hchk]
  exact applyPrimsN_frames (envOf cfg style nested t) hr hst' inner hin _ hsafe hsp hso hp ho s

theorem stepOpN_frames (cfg : Cfg) (hr : cfg.probe.stopRestores = true)
    (hchk : ∀ sig, checkC05 cfg.probe cfg.exec sig = true) (op : Op) (hst : TraceOK op.style op.nested)
    (inner : St → St) (hin : Framed inner) (s : St) :
    (stepOpN cfg s op inner).1.patches = s.patches ∧ (stepOpN cfg s op inner).1.stdouts = s.stdouts ∧
    (stepOpN cfg s op inner).1.g = s.g := by
  unfold stepOpN
  split
  · exact ⟨rfl, rfl, rfl⟩
  · exact executeN_frames cfg hr hchk op.style op.nested hst inner hin s op.term op.inject
  · exact executeN_frames cfg hr hchk op.style op.nested hst inner hin s op.term op.inject

mutual
/-- Every execution of the tree runs under a tracer style that restores the trace function. -/
def NOp.traceOK : NOp → Bool
  | .mk op inner => decide (TraceOK op.style op.nested) && NOp.allTraceOK inner
def NOp.allTraceOK : List NOp → Bool
  | [] => true
  | n :: ns => n.traceOK && NOp.allTraceOK ns
end

mutual
theorem runN_framed (cfg : Cfg) (hr : cfg.probe.stopRestores = true)
    (hchk : ∀ sig, checkC05 cfg.probe cfg.exec sig = true) :
    (n : NOp) → n.traceOK = true → Framed (runN cfg n)
  | .mk op inner, h => by
    simp only [NOp.traceOK, Bool.and_eq_true, decide_eq_true_eq] at h
    intro s
    simp only [runN]
    exact stepOpN_frames cfg hr hchk op h.1 (runNs cfg inner) (runNs_framed cfg hr hchk inner h.2) s
theorem runNs_framed (cfg : Cfg) (hr : cfg.probe.stopRestores = true)
    (hchk : ∀ sig, checkC05 cfg.probe cfg.exec sig = true) :
    (ns : List NOp) → NOp.allTraceOK ns = true → Framed (runNs cfg ns)
  | [], _ => fun _ => ⟨rfl, rfl, rfl⟩
  | n :: ns, h => by
    simp only [NOp.allTraceOK, Bool.and_eq_true] at h
    intro s
    simp only [runNs]
    obtain ⟨a1, a2, a3⟩ := runN_framed cfg hr hchk n h.1 s
    obtain ⟨b1, b2, b3⟩ := runNs_framed cfg hr hchk ns h.2 (runN cfg n s)
    exact ⟨b1.trans a1, b2.trans a2, b3.trans a3⟩
end

end Pedal.SandboxExec

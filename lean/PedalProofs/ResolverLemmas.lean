import PedalModel.Resolver
/-
Helper lemmas for C01–C03: what the `merge` fold computes, and what a stable sort's
first match is.  Property theorems live in PedalProofs/C01.lean … C03.lean.
-/
namespace Pedal.Resolver
open Pedal.Gen.Resolver

/-- Eligible per the property: triggered, not muted, not suppressed, not a compliment. -/
def eligible (sups : List Sup) (f : Fb) : Bool :=
  f.triggered && !f.muted && !suppressed sups f && !(f.kind == some complimentKind)

/-- Eligible and carrying a message (what `merge` can show). -/
def shown (sups : List Sup) (f : Fb) : Bool := eligible sups f && f.message.isSome

/-- Feedback whose score `merge` records. -/
def counted (sups : List Sup) (f : Fb) : Bool := !suppressed sups f && scored f

/-- What the fold has computed after consuming `l` (in that order). -/
structure Summary (sups : List Sup) (l : List Fb) (st : Final) : Prop where
  used : st.used = l.find? (shown sups)
  message : st.message = (l.find? (shown sups)).bind (·.message)
  title : st.title = (l.find? (shown sups)).map (·.shownTitle)
  label : st.label = match l.find? (shown sups) with | some f => f.label | none => defaultLabel
  category : st.category = match l.find? (shown sups) with | some f => f.category | none => some completeCategory
  correct : st.correct = (l.filter (eligible sups)).all (·.correct)
  scores : st.scores = (l.filter (counted sups)).map fun f => (invertLogic f, f.score.getD "")

theorem summary_init (sups : List Sup) : Summary sups [] {} := by
  constructor <;> simp

theorem merge_scores (sups : List Sup) (st : Final) (f : Fb) :
    (merge sups st f).scores =
      if counted sups f then st.scores ++ [(invertLogic f, f.score.getD "")] else st.scores := by
  cases hsup : suppressed sups f <;> cases hsc : scored f <;> cases htr : f.triggered <;>
    cases hel : f.elseMsg <;> cases hmu : f.muted <;> cases hk : (f.kind == some complimentKind) <;>
    simp [merge, counted, *] <;> split <;> rfl

theorem merge_correct (sups : List Sup) (st : Final) (f : Fb) :
    (merge sups st f).correct = if eligible sups f then f.correct && st.correct else st.correct := by
  cases hsup : suppressed sups f <;> cases hsc : scored f <;> cases htr : f.triggered <;>
    cases hel : f.elseMsg <;> cases hmu : f.muted <;> cases hk : (f.kind == some complimentKind) <;>
    simp [merge, eligible, *] <;> split <;> rfl

/-- The five "display" fields change together, exactly when a showable feedback meets an empty slot. -/
theorem merge_display (sups : List Sup) (st : Final) (f : Fb) :
    let st' := merge sups st f
    if shown sups f && st.message.isNone then
      st'.used = some f ∧ st'.message = f.message ∧ st'.title = some f.shownTitle ∧
        st'.label = f.label ∧ st'.category = f.category
    else
      st'.used = st.used ∧ st'.message = st.message ∧ st'.title = st.title ∧
        st'.label = st.label ∧ st'.category = st.category := by
  cases hsup : suppressed sups f <;> cases hsc : scored f <;> cases htr : f.triggered <;>
    cases hel : f.elseMsg <;> cases hmu : f.muted <;> cases hk : (f.kind == some complimentKind) <;>
    cases hfm : f.message <;> cases hsm : st.message <;>
    simp [merge, shown, eligible, *]

theorem summary_step (sups : List Sup) (l : List Fb) (st : Final) (f : Fb)
    (h : Summary sups l st) : Summary sups (l ++ [f]) (merge sups st f) := by
  obtain ⟨hu, hm, ht, hl, hc, hco, hs⟩ := h
  have hd := merge_display sups st f
  have hmsg : st.message.isNone = (l.find? (shown sups)).isNone := by
    rw [hm]
    cases hf : l.find? (shown sups) with
    | none => simp
    | some g =>
      have := List.find?_some hf
      simp only [shown, Bool.and_eq_true] at this
      simpa using this.2
  refine ⟨?_, ?_, ?_, ?_, ?_, ?_, ?_⟩
  case refine_6 =>
    rw [merge_correct, hco, List.filter_append]
    cases he : eligible sups f <;> simp [he, Bool.and_comm]
  case refine_7 =>
    rw [merge_scores, hs, List.filter_append]
    cases he : counted sups f <;> simp [he]
  all_goals
    rw [List.find?_append]
    cases hf : l.find? (shown sups) with
    | some g =>
      rw [hf] at hmsg hu hm ht hl hc
      simp only [Option.isNone_some] at hmsg
      simp only [hmsg, Bool.and_false, Bool.false_eq_true, ↓reduceIte] at hd
      simp [hd, hu, hm, ht, hl, hc]
    | none =>
      rw [hf] at hmsg hu hm ht hl hc
      simp only [Option.isNone_none] at hmsg
      cases hsh : shown sups f
      · simp only [hsh, Bool.false_and, Bool.false_eq_true, ↓reduceIte] at hd
        simp [hd, hu, hm, ht, hl, hc, hsh]
      · simp only [hsh, hmsg, Bool.and_self, ↓reduceIte] at hd
        simp [hd, hsh]

theorem summary_foldl (sups : List Sup) (l pre : List Fb) (st : Final)
    (h : Summary sups pre st) : Summary sups (pre ++ l) (l.foldl (merge sups) st) := by
  induction l generalizing pre st with
  | nil => simpa using h
  | cons f l ih =>
    have := ih (pre ++ [f]) (merge sups st f) (summary_step sups pre st f h)
    simpa using this

theorem summary_fold (sups : List Sup) (l : List Fb) : Summary sups l (l.foldl (merge sups) {}) := by
  simpa using summary_foldl sups l [] {} (summary_init sups)

end Pedal.Resolver

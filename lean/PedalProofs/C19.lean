import PedalProofs.TypeOpsLemmas
/-
C19 — TIFA's operator typing and value typing agree with what CPython does at run time.
Property theorems only; helpers are in TypeOpsLemmas.  The model (`Pedal.Types.*`) is tied to pedal by the generated
tables (harness/translate_types.py: VALID_BINOP_TYPES by function identity, the `orderable` sets, and CPython's truth
by execution) and by the correspondence check (harness/c19.py).
-/
namespace Pedal.Types
open Pedal.Gen.Types

/-! ### the operator table -/

/-- Every cell: operator × ordered pair of run-time classes (the five core classes and bool) × every pedal type class
    TIFA may have given the operands.  CPython raises TypeError for all representatives ⇒ TIFA reports
    incompatible types; TIFA possibly silent ⇒ the class of the inferred type is one the run-time result class
    conforms to — except the three `**` result cells listed in `knownBad`.  (`decide` over the whole generated
    table.) -/
theorem c19_table_sound_partial_all : cpython.all (cellOk knownBad) = true := by decide +kernel

theorem c19_table_sound_partial : ∀ row ∈ cpython, cellOk knownBad row = true :=
  fun row h => List.all_eq_true.mp c19_table_sound_partial_all row h

/-- the full-strength statement: no exclusions -/
def C19_TableSound_Full : Prop := ∀ row ∈ cpython, cellOk [] row = true

/-- the partial theorem is the full one minus `knownBad` -/
theorem c19_table_full_of_no_excluded (h : ∀ row ∈ cpython, cellOk knownBad row = cellOk [] row) : C19_TableSound_Full :=
  fun row hr => (h row hr) ▸ c19_table_sound_partial row hr

/-- it is refuted on the pinned tree: `int ** int` is typed IntType but is a float for a negative exponent, and
    `int ** float` / `float ** float` are typed FloatType but are complex for a negative base -/
theorem c19_table_counterexample : ¬ C19_TableSound_Full := by
  intro h
  have : cpython.all (cellOk []) = true := List.all_eq_true.mpr h
  revert this
  decide +kernel

/-- every excluded result cell is really needed (dropping any one of them breaks the partial theorem) -/
theorem c19_known_bad_minimal :
    knownBad.all (fun b => !(cpython.all (cellOk (knownBad.filter (· != b))))) = true := by decide +kernel

/-- soundness of a single application, on the model functions: operands typed with a class fitting their run-time
    class; (1) TypeError for all representatives ⇒ flagged, (2) not flagged ⇒ the result type's class fits every
    non-excluded run-time result class. -/
theorem c19_cell_sound (op : Op) (c1 c2 : Cls) (te : Bool) (results : List Cls)
    (hrow : (op, c1, c2, te, results) ∈ cpython) (l r : Ty)
    (hl : keyOf l ∈ keysOf c1) (hr : keyOf r ∈ keysOf c2) :
    (te = true → flagged op l r = true) ∧
    (flagged op l r = false → ∀ c ∈ results, (op, c1, c2, c) ∉ knownBad → keyOf (resultTy op l r) ∈ keysOf c) := by
  have hlany : keyOf l ≠ .any := fun h => any_not_in_keysOf c1 (h ▸ hl)
  have hrany : keyOf r ≠ .any := fun h => any_not_in_keysOf c2 (h ▸ hr)
  have hcell := c19_table_sound_partial _ hrow
  simp only [cellOk, List.all_eq_true, Bool.and_eq_true, Bool.or_eq_true, Bool.not_eq_true', beq_iff_eq,
    List.contains_iff_mem] at hcell
  obtain ⟨h1, h2⟩ := hcell _ hl _ hr
  constructor
  · intro hte
    cases h1 with
    | inl h => simp [hte] at h
    | inr h => exact flagged_of_flagsKey op l r true hlany hrany h
  · intro hnf c hc hbad
    cases h2 with
    | inl h =>
      have := flagged_of_flagsKey op l r true hlany hrany h
      rw [this] at hnf; cases hnf
    | inr h =>
      rw [keyOf_resultTy op l r hlany hrany]
      cases h c hc with
      | inl hb => exact absurd hb hbad
      | inr hk => exact hk

/-! ### expression trees -/

/-- every leaf's TIFA type has a class fitting the run-time class of the value the variable holds -/
def LeavesOk : Expr → Prop
  | .leaf c t => keyOf t ∈ keysOf c
  | .node _ l r => LeavesOk l ∧ LeavesOk r

/-- run-time classes an expression can evaluate to, according to the CPython table (minus the excluded cells) -/
inductive Runs : Expr → Cls → Prop
  | leaf (c : Cls) (t : Ty) : Runs (.leaf c t) c
  | node (op : Op) (l r : Expr) (c1 c2 c : Cls) (te : Bool) (results : List Cls) :
      Runs l c1 → Runs r c2 → (op, c1, c2, te, results) ∈ cpython → c ∈ results → (op, c1, c2, c) ∉ knownBad →
      Runs (.node op l r) c

/-- the evaluation raises TypeError: at some node whose operands evaluated, CPython raises TypeError for these classes -/
inductive RaisesTypeError : Expr → Prop
  | here (op : Op) (l r : Expr) (c1 c2 : Cls) (results : List Cls) :
      Runs l c1 → Runs r c2 → (op, c1, c2, true, results) ∈ cpython → RaisesTypeError (.node op l r)
  | left (op : Op) (l r : Expr) : RaisesTypeError l → RaisesTypeError (.node op l r)
  | right (op : Op) (l r : Expr) : RaisesTypeError r → RaisesTypeError (.node op l r)

/-- TIFA silent on an expression ⇒ the inferred type's class fits the class the expression evaluates to —
    ALL expression trees over core-typed leaves, by induction, from the table theorem. -/
theorem c19_expr_sound_partial (e : Expr) (hleaves : LeavesOk e) (c : Cls) (hrun : Runs e c)
    (hsilent : (infer e).2 = false) : keyOf (infer e).1 ∈ keysOf c := by
  induction hrun with
  | leaf c t => exact hleaves
  | node op l r c1 c2 c te results hl hr hrow hc hbad ihl ihr =>
    simp only [infer, Bool.or_eq_false_iff] at hsilent
    obtain ⟨⟨hfl, hfr⟩, hf⟩ := hsilent
    have kl := ihl hleaves.1 hfl
    have kr := ihr hleaves.2 hfr
    exact (c19_cell_sound op c1 c2 te results hrow _ _ kl kr).2 hf c hc hbad

/-- CPython raises TypeError somewhere in the expression ⇒ TIFA reports incompatible types — ALL expression trees. -/
theorem c19_expr_type_error_flagged (e : Expr) (hleaves : LeavesOk e) (hte : RaisesTypeError e) :
    (infer e).2 = true := by
  induction hte with
  | here op l r c1 c2 results hl hr hrow =>
    simp only [infer, Bool.or_eq_true]
    cases hfl : (infer l).2 with
    | true => exact Or.inl (Or.inl rfl)
    | false =>
      cases hfr : (infer r).2 with
      | true => exact Or.inl (Or.inr rfl)
      | false =>
        have kl := c19_expr_sound_partial l hleaves.1 c1 hl hfl
        have kr := c19_expr_sound_partial r hleaves.2 c2 hr hfr
        exact Or.inr ((c19_cell_sound op c1 c2 true results hrow _ _ kl kr).1 rfl)
  | left op l r _ ih => simp [infer, ih hleaves.1]
  | right op l r _ ih => simp [infer, ih hleaves.2]

/-- non-vacuity: `3 + 2.5` is silent, typed FloatType, and runs to float; `3 + 'ab'` raises and is flagged -/
example : infer (.node (.bin .add) (.leaf .int .litInt) (.leaf .float .litFloat)) = (.float, false) := by rfl
example : (infer (.node (.bin .add) (.leaf .int .litInt) (.leaf .str .litStr))).2 = true := by decide
example : Runs (.node (.bin .add) (.leaf .int .litInt) (.leaf .float .litFloat)) .float :=
  Runs.node _ _ _ .int .float .float false [.float] (Runs.leaf _ _) (Runs.leaf _ _) (by decide +kernel) (by decide) (by decide)

/-! ### value typing -/

/-- the pedal type of ANY nested value is a subtype of itself (with any `seen` state) -/
theorem c19_value_type_stable (v : Val) : isSubtype (typeOf v) (typeOf v) = true :=
  isSub_refl (typeOf v) {}

/-- `is_subtype` is reflexive on every pedal type, whatever is already in `seen` -/
theorem c19_is_subtype_reflexive (t : Ty) (s : Seen) : (isSub t t s).1 = true := isSub_refl t s

/-- the pedal type of ANY nested value conforms to the normalised form of the value's own Python type -/
theorem c19_value_type_conforms (v : Val) : isSubtype (typeOf v) (normForm v) = true := by
  cases v with
  | none => simp [typeOf, normForm, isSubtype, isSub, keyOf]
  | bool b => simp [typeOf, normForm, isSubtype, isSub, boolObj, keyOf, isAny]
  | int i => simp [typeOf, normForm, isSubtype, isSub, intObj, keyOf, isAny]
  | float => simp [typeOf, normForm, isSubtype, isSub, floatObj, keyOf, isAny]
  | str => simp [typeOf, normForm, isSubtype, isSub, keyOf]
  | list xs =>
    simp only [typeOf, normForm, isSubtype]
    split <;> simp [isSub, isSub_any]
  | tuple xs => simp [typeOf, normForm, isSubtype, isSub, isSubAll]
  | set xs =>
    simp only [typeOf, normForm, isSubtype]
    split <;> simp [isSub, isSub_any]
  | dict items =>
    obtain ⟨ps, hps⟩ := dictType_is_dict (pairTypes items)
    simp [typeOf, normForm, isSubtype, hps, isSub, dictAll_anyany]

/-- non-vacuity: a nested value, its type, and both facts evaluated -/
example : typeOf (.tuple (.cons (.int 1) (.cons .str .nil))) = .tuple (.cons .litInt (.cons .litStr .nil)) := by rfl
example : typeOf (.list (.cons (.int 1) (.cons .float .nil))) = .list false .litInt := by rfl

end Pedal.Types

import PedalProofs.TimeoutLemmas
namespace Pedal.Timeout

-- the grader's steps: E2's two writes land in E2's own buffer because `sys.stdout` is it
set_option maxHeartbeats 4000000 in
theorem invd_stepG (p : Prog) (s : St) (h : Inv s) (d : InvData p s) : InvData p (stepG fixed s) := by
  obtain ⟨hl, hstk, hpend, -, -, -, -, -, -, -, -, hctx, -, -, -, -, -, -, -, -⟩ := h
  obtain ⟨hbuf2, hout2v, hreal, haux⟩ := d
  rcases s with ⟨gpc, tpc, claim, pending, tExit, timedOut, patches, stdouts, sysStdout, buf1, buf2, real, raw, out1, out2, ctxs, id1, id2, nextId, exc, feedback, excAtReturn, depthAtReturn, excBeforeNext, e2Escaped, e1Escaped⟩
  simp only at hl hstk hpend hctx hbuf2 hout2v hreal haux
  cases gpc <;> rcases claim with _ | (_ | _) <;> cases tpc <;>
    simp [legal, GPc.rank, TPc.rank] at hl <;>
    (simp only [expStacks, Prod.mk.injEq] at hstk
     obtain ⟨rfl, rfl, rfl⟩ := hstk
     constructor <;>
       first
       | assumption
       | (simp_all [stepG, fixed, expBuf2, GPc.rank, TPc.rank,
           St.stopPatches, St.write, St.appendOutput, St.capture, St.lastCtx, St.content] <;> try assumption))

-- T's steps outside student code write nothing
set_option maxHeartbeats 4000000 in
theorem invd_stepT_other (p : Prog) (s : St) (c : TChoice) (h : Inv s) (d : InvData p s) (hrun : s.tpc ≠ .run) :
    InvData p (stepT fixed p s c) := by
  obtain ⟨hl, hstk, hpend, -, -, -, -, -, -, -, -, hctx, -, -, -, -, -, -, -, -⟩ := h
  obtain ⟨hbuf2, hout2v, hreal, haux⟩ := d
  rcases s with ⟨gpc, tpc, claim, pending, tExit, timedOut, patches, stdouts, sysStdout, buf1, buf2, real, raw, out1, out2, ctxs, id1, id2, nextId, exc, feedback, excAtReturn, depthAtReturn, excBeforeNext, e2Escaped, e1Escaped⟩
  simp only at hl hstk hpend hctx hbuf2 hout2v hreal haux hrun
  cases tpc <;> rcases claim with _ | (_ | _) <;> cases gpc <;>
    simp [legal, GPc.rank, TPc.rank] at hl hrun <;>
    (simp only [expStacks, Prod.mk.injEq] at hstk
     obtain ⟨rfl, rfl, rfl⟩ := hstk
     cases tExit <;>
     constructor <;>
       first
       | assumption
       | (simp_all [stepT, fixed, expBuf2, GPc.rank, TPc.rank,
           St.stopPatches, St.write, St.appendOutput, St.capture, St.lastCtx, St.content] <;> try assumption))

-- T's steps in student code: it writes only while no SystemExit is pending and it does not
-- swallow; by then `sys.stdout` is E1's buffer or the real stdout, never E2's buffer
set_option maxHeartbeats 4000000 in
theorem invd_stepT_run (p : Prog) (hp : p.swallows = true → p.prints = false) (s : St) (c : TChoice)
    (h : Inv s) (d : InvData p s) (hrun : s.tpc = .run) : InvData p (stepT fixed p s c) := by
  obtain ⟨hl, hstk, hpend, -, -, -, -, -, -, -, -, hctx, -, -, -, -, -, -, -, -⟩ := h
  obtain ⟨hbuf2, hout2v, hreal, haux⟩ := d
  rcases s with ⟨gpc, tpc, claim, pending, tExit, timedOut, patches, stdouts, sysStdout, buf1, buf2, real, raw, out1, out2, ctxs, id1, id2, nextId, exc, feedback, excAtReturn, depthAtReturn, excBeforeNext, e2Escaped, e1Escaped⟩
  rcases p with ⟨prints, swallows, blocked⟩
  simp only at hl hstk hpend hctx hbuf2 hout2v hreal haux hrun hp
  subst hrun
  cases blocked <;> cases pending <;> cases swallows <;> cases prints <;> cases c <;>
    rcases claim with _ | (_ | _) <;> cases gpc <;>
    simp [legal, GPc.rank, TPc.rank] at hl hpend hp <;>
    (simp only [expStacks, Prod.mk.injEq] at hstk
     obtain ⟨rfl, rfl, rfl⟩ := hstk
     constructor <;>
       first
       | assumption
       | (simp_all [stepT, fixed, expBuf2, GPc.rank, TPc.rank, St.write] <;> try assumption))

end Pedal.Timeout

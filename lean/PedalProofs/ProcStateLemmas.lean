import PedalModel.ProcState
import PedalProofs.FeedbackCoreLemmas
/-
Lemmas for C13: field bookkeeping, what the table obligation gives, the invariant every history keeps,
and the simulation between two runs that start from states `Report.clear` cannot tell apart.
-/
namespace Pedal.ProcState
open Pedal.FeedbackCore

/-! ### plain fields -/

theorem dirty_other (fs : Fields) (f g tok : String) (h : g ≠ f) : dirty fs f tok g = fs g := by
  simp [dirty, h]

theorem dirtyAll_notin (names : List String) (tok g : String) :
    ∀ fs : Fields, g ∉ names → dirtyAll fs names tok g = fs g := by
  induction names with
  | nil => intro fs _; rfl
  | cons n rest ih =>
    intro fs hg
    have h1 : g ≠ n := fun e => hg (e ▸ List.mem_cons_self)
    have h2 : g ∉ rest := fun e => hg (List.mem_cons_of_mem _ e)
    show dirtyAll (dirty fs n tok) rest tok g = fs g
    rw [ih _ h2, dirty_other _ _ _ _ h1]

theorem pokeField_other (ext : List String) (fs : Fields) (f g tok : String) (h : g ≠ f) :
    pokeField ext fs f tok g = fs g := by
  unfold pokeField; split
  · exact dirty_other _ _ _ _ h
  · rfl

theorem pokeField_notin (ext : List String) (fs : Fields) (f g tok : String) (h : ext.contains f = false) :
    pokeField ext fs f tok g = fs g := by
  unfold pokeField
  simp only [h, Bool.false_eq_true, ↓reduceIte]

theorem applyStep_nil (T : Tables) (fs : Fields) (s : ClearStep) (g : String) (h : fs g = []) :
    applyStep T fs s g = [] := by
  cases s with
  | restoreEach _ => exact h
  | reset f how =>
    simp only [applyStep]
    cases T.kindOf f with
    | none => exact h
    | some k =>
      dsimp only
      split
      · simp only [resetField]; split <;> simp [h]
      · exact h

theorem foldl_applyStep_nil (T : Tables) (steps : List ClearStep) (g : String) :
    ∀ fs : Fields, fs g = [] → (steps.foldl (applyStep T) fs) g = [] := by
  induction steps with
  | nil => intro fs h; exact h
  | cons s rest ih => intro fs h; exact ih _ (applyStep_nil T fs s g h)

theorem applyStep_resets (T : Tables) (fs : Fields) (s : ClearStep) (f : String) (h : T.isResetOf f s = true) :
    applyStep T fs s f = [] := by
  cases s with
  | restoreEach _ => simp [Tables.isResetOf] at h
  | reset g how =>
    simp only [Tables.isResetOf, Bool.and_eq_true, beq_iff_eq] at h
    obtain ⟨rfl, hk⟩ := h
    simp only [applyStep]
    split at hk
    · rename_i k hk'
      rw [hk']; simp [hk, resetField]
    · cases hk

theorem foldl_applyStep_resets (T : Tables) (f : String) (steps : List ClearStep) :
    ∀ fs : Fields, steps.any (T.isResetOf f) = true → (steps.foldl (applyStep T) fs) f = [] := by
  induction steps with
  | nil => intro fs h; simp at h
  | cons s rest ih =>
    intro fs h
    rw [List.any_cons, Bool.or_eq_true] at h
    rcases h with h | h
    · exact foldl_applyStep_nil T rest f _ (applyStep_resets T fs s f h)
    · exact ih _ h

theorem clearFields_resets (T : Tables) (fs : Fields) (f : String) (h : T.resets f = true) :
    clearFields T fs f = [] := foldl_applyStep_resets T f T.clearSteps fs h

theorem clearFields_nil (T : Tables) (fs : Fields) (g : String) (h : fs g = []) : clearFields T fs g = [] :=
  foldl_applyStep_nil T T.clearSteps g fs h

/-! ### what the table obligation gives -/

theorem lookup_mem {α β} [BEq α] [LawfulBEq α] (l : List (α × β)) (k : α) (v : β) (h : l.lookup k = some v) :
    (k, v) ∈ l := by
  induction l with
  | nil => simp at h
  | cons p rest ih =>
    obtain ⟨a, b⟩ := p
    by_cases hk : k == a
    · rw [List.lookup_cons, hk] at h
      have : k = a := by simpa using hk
      cases h; subst this; exact List.mem_cons_self
    · rw [List.lookup_cons] at h
      simp only [hk] at h
      exact List.mem_cons_of_mem _ (ih h)

structure TableFacts (T : Tables) : Prop where
  initReset : ∀ f, f ∈ T.names → f ∈ exempt ∨ T.resets f = true
  methodOk : ∀ m fs, T.dirtiesOf m = some fs → ∀ f, f ∈ fs → f ∈ T.names ∧ f ∉ exempt
  externalOk : ∀ f, T.externalDirties.contains f = true → f ∈ T.names ∧ f ∉ exempt
  classOk : ∀ m cfs, T.classDirties.lookup m = some cfs → m ≠ "register_tool" →
    cfs.all (fun f => T.classAttrs.contains f) = false
  toolsReset : T.resets "_tool_data" = true
  restores : T.restoresOverrides = true
  lazy : T.lazyToolReset = true
  poolsCleared : T.restoreClearsPools = true
  poolRegisters : T.poolOverrideRegisters = true
  envClears : T.envClearsFirst = true
  rebuilds : T.tifaResetRebuilds = true

theorem tableFacts (T : Tables) (h : tableOk T = true) : TableFacts T := by
  simp only [tableOk, Bool.and_eq_true] at h
  obtain ⟨⟨⟨⟨⟨⟨⟨⟨⟨⟨⟨⟨⟨h1, h2⟩, h3⟩, _⟩, _⟩, h6⟩, h7⟩, h8⟩, _⟩, _⟩, h11⟩, h12⟩, h13⟩, h14⟩ := h
  have hd : ∀ f, f ∈ allDirtied T → f ∈ T.names ∧ f ∉ exempt := by
    intro f hf
    have := (List.all_eq_true.mp h2) f hf
    simpa using this
  refine ⟨?_, ?_, ?_, ?_, h6, h7, h8, h11, h12, h13, h14⟩
  · intro f hf
    have := (List.all_eq_true.mp h1) f hf
    simpa using this
  · intro m fs hm f hf
    apply hd
    unfold allDirtied
    apply List.mem_append_left
    exact List.mem_flatMap.mpr ⟨(m, fs), lookup_mem _ _ _ hm, hf⟩
  · intro f hf
    apply hd
    unfold allDirtied
    apply List.mem_append_right
    simpa using hf
  · intro m cfs hm hne
    have := (List.all_eq_true.mp h3) (m, cfs) (lookup_mem _ _ _ hm)
    simpa [hne] using this

/-! ### the class store: two stores that differ only in `None` vs `{}` backups behave alike -/

/-- Same class dictionaries, same hierarchy, same backed-up values, same registrations
    (a class whose `_override_backups` is missing and one whose dictionary is empty are alike). -/
structure StoreEq (s t : Store) : Prop where
  own : s.own = t.own
  mro : s.mro = t.mro
  backupOf : ∀ c, s.backupOf c = t.backupOf c
  overridden : s.overridden = t.overridden

theorem StoreEq.lookup {s t : Store} (h : StoreEq s t) (c a : String) : s.lookup c a = t.lookup c a :=
  Store.lookup_congr s t h.own h.mro c a

/-- outcomes of two runs of the same store operation -/
def RelE : Except Exc Store → Except Exc Store → Prop
  | .ok s, .ok t => StoreEq s t
  | .error e, .error e' => e = e'
  | _, _ => False

theorem overrideOne_eq (s t : Store) (h : StoreEq s t) (c f : String) (v : AVal) :
    RelE (s.overrideOne c f v) (t.overrideOne c f v) := by
  unfold Store.overrideOne
  rw [h.backupOf c, h.lookup c f, h.own]
  cases (t.backupOf c).lookup f with
  | some _ => exact ⟨rfl, h.mro, h.backupOf, h.overridden⟩
  | none =>
    dsimp only
    cases t.lookup c f with
    | none => exact rfl
    | some _ =>
      refine ⟨rfl, h.mro, ?_, h.overridden⟩
      intro k
      show (Store.setBackups s.backups c _ k).getD [] = (Store.setBackups t.backups c _ k).getD []
      rw [Store.backupOf_setBackups, Store.backupOf_setBackups, h.backupOf k]

theorem overrideLoop_eq (c : String) (fs : List (String × AVal)) :
    ∀ s t : Store, StoreEq s t →
      StoreEq (s.overrideLoop c fs).1 (t.overrideLoop c fs).1 ∧ (s.overrideLoop c fs).2 = (t.overrideLoop c fs).2 := by
  induction fs with
  | nil => intro s t h; exact ⟨h, rfl⟩
  | cons p rest ih =>
    intro s t h
    obtain ⟨f, v⟩ := p
    have hr := overrideOne_eq s t h c f v
    simp only [Store.overrideLoop]
    cases hs : s.overrideOne c f v with
    | ok s' =>
      cases ht : t.overrideOne c f v with
      | ok t' => rw [hs, ht] at hr; exact ih s' t' hr
      | error e => rw [hs, ht] at hr; exact hr.elim
    | error e =>
      cases ht : t.overrideOne c f v with
      | ok t' => rw [hs, ht] at hr; exact hr.elim
      | error e' =>
        rw [hs, ht] at hr
        have : e = e' := hr
        subst this
        exact ⟨h, rfl⟩

theorem override_eq (s t : Store) (h : StoreEq s t) (c : String) (fs : List (String × AVal)) :
    StoreEq (s.override c fs).1 (t.override c fs).1 ∧ (s.override c fs).2 = (t.override c fs).2 := by
  unfold Store.override
  apply overrideLoop_eq
  refine ⟨h.own, h.mro, ?_, ?_⟩
  · intro k
    show (Store.setBackups s.backups c _ k).getD [] = (Store.setBackups t.backups c _ k).getD []
    rw [Store.backupOf_setBackups, Store.backupOf_setBackups, h.backupOf k, h.backupOf c]
  · show (if c ∈ s.overridden then s.overridden else s.overridden ++ [c]) = _
    rw [h.overridden]

theorem override_registered (s : Store) (c : String) (fs : List (String × AVal)) :
    c ∈ (s.override c fs).1.overridden := by
  unfold Store.override
  obtain ⟨_, o, _, _⟩ := Store.overrideLoop_spec c fs
    { s with backups := Store.setBackups s.backups c (some (s.backupOf c)),
             overridden := if c ∈ s.overridden then s.overridden else s.overridden ++ [c] }
  rw [o]
  show c ∈ (if c ∈ s.overridden then s.overridden else s.overridden ++ [c])
  split <;> simp_all

theorem register_mem (s : Store) (c : String) : c ∈ (register s c).overridden := by
  show c ∈ (if c ∈ s.overridden then s.overridden else s.overridden ++ [c])
  split <;> simp_all

theorem register_inv (s0 s : Store) (c : String) (h : Store.Inv s0 s) : Store.Inv s0 (register s c) := by
  refine ⟨h.mro, h.orig, ?_⟩
  intro k hk
  have := h.reg k hk
  show k ∈ (if c ∈ s.overridden then s.overridden else s.overridden ++ [c])
  split <;> simp_all

theorem register_eq (s t : Store) (h : StoreEq s t) (c : String) : StoreEq (register s c) (register t c) := by
  refine ⟨h.own, h.mro, h.backupOf, ?_⟩
  show (if c ∈ s.overridden then s.overridden else s.overridden ++ [c]) = _
  rw [h.overridden]; rfl

/-! ### the invariant every history keeps -/

structure Inv (T : Tables) (s0 : Store) (w : World) : Prop where
  store : Store.Inv s0 w.store
  exemptNil : ∀ f, f ∈ exempt → w.fields f = []
  outside : ∀ f, f ∉ T.names → w.fields f = []
  pools : w.pools ≠ [] → w.store.overridden ≠ []

/-- what `Report.clear` leaves behind -/
structure Fresh (s0 : Store) (w : World) : Prop where
  fields : w.fields = fun _ => []
  tools : w.tools = []
  pools : w.pools = []
  own : w.store.own = s0.own
  mro : w.store.mro = s0.mro
  pristine : w.store.Pristine

theorem fresh_init (s0 : Store) (hp : s0.Pristine) : Fresh s0 (init s0) := ⟨rfl, rfl, rfl, rfl, rfl, hp⟩

theorem fresh_inv (T : Tables) (s0 : Store) (w : World) (h : Fresh s0 w) : Inv T s0 w := by
  refine ⟨⟨h.mro, ?_, ?_⟩, ?_, ?_, ?_⟩
  · intro c a
    simp only [Store.orig, h.pristine.1 c, List.lookup]
    exact congrFun (congrFun h.own c) a
  · intro c hc; exact absurd (h.pristine.1 c) hc
  · intro f _; rw [h.fields]
  · intro f _; rw [h.fields]
  · intro hp; exact absurd h.pools hp

theorem dirtyAll_inv {T : Tables} {s0 : Store} {w : World} (hw : Inv T s0 w) (fs : List String) (tok : String)
    (hfs : ∀ f, f ∈ fs → f ∈ T.names ∧ f ∉ exempt) :
    Inv T s0 { w with fields := dirtyAll w.fields fs tok } := by
  refine ⟨hw.store, ?_, ?_, hw.pools⟩
  · intro f hf
    show dirtyAll w.fields fs tok f = []
    rw [dirtyAll_notin fs tok f w.fields (fun hm => (hfs f hm).2 hf)]
    exact hw.exemptNil f hf
  · intro f hf
    show dirtyAll w.fields fs tok f = []
    rw [dirtyAll_notin fs tok f w.fields (fun hm => hf (hfs f hm).1)]
    exact hw.outside f hf

theorem pokeField_inv {T : Tables} {s0 : Store} {w : World} (F : TableFacts T) (hw : Inv T s0 w) (f tok : String) :
    Inv T s0 { w with fields := pokeField T.externalDirties w.fields f tok } := by
  cases hc : T.externalDirties.contains f with
  | false =>
    refine ⟨hw.store, ?_, ?_, hw.pools⟩
    · intro g hg; show pokeField _ _ _ _ g = []; rw [pokeField_notin _ _ _ _ _ hc]; exact hw.exemptNil g hg
    · intro g hg; show pokeField _ _ _ _ g = []; rw [pokeField_notin _ _ _ _ _ hc]; exact hw.outside g hg
  | true =>
    obtain ⟨hn, he⟩ := F.externalOk f hc
    refine ⟨hw.store, ?_, ?_, hw.pools⟩
    · intro g hg
      show pokeField _ _ _ _ g = []
      rw [pokeField_other _ _ _ _ _ (fun e => he (by rw [← e]; exact hg))]; exact hw.exemptNil g hg
    · intro g hg
      show pokeField _ _ _ _ g = []
      rw [pokeField_other _ _ _ _ _ (fun e => hg (by rw [e]; exact hn))]; exact hw.outside g hg

theorem callMethod_inv {T : Tables} {s0 : Store} {w : World} (F : TableFacts T) (hw : Inv T s0 w) (m tok : String) :
    Inv T s0 (callMethod T w m tok).w := by
  unfold callMethod
  cases hm : T.dirtiesOf m with
  | some fs => exact dirtyAll_inv hw fs tok (F.methodOk m fs hm)
  | none =>
    dsimp only
    cases hc : T.classDirties.lookup m with
    | none => exact hw
    | some cfs =>
      dsimp only
      split
      · exact hw
      · rename_i hne
        rw [F.classOk m cfs hc hne]
        exact hw

theorem clear_fresh {T : Tables} {s0 : Store} {w : World} (F : TableFacts T) (hw : Inv T s0 w) :
    Fresh s0 (w.clear T) := by
  obtain ⟨ho, hm, hp⟩ := Store.clearIn_restores s0 w.store hw.store w.store.overridden (fun _ hc => hc)
  refine ⟨?_, ?_, ?_, ?_, ?_, ?_⟩
  · funext f
    show clearFields T w.fields f = []
    by_cases hf : f ∈ T.names
    · rcases F.initReset f hf with he | hr
      · exact clearFields_nil T _ f (hw.exemptNil f he)
      · exact clearFields_resets T _ f hr
    · exact clearFields_nil T _ f (hw.outside f hf)
  · simp [World.clear, F.toolsReset]
  · simp only [World.clear, F.restores, F.poolsCleared, Bool.true_and]
    cases he : w.store.overridden.isEmpty with
    | false => rfl
    | true =>
      simp only [Bool.not_true, Bool.false_eq_true, ↓reduceIte]
      have : w.store.overridden = [] := by simpa using he
      exact Classical.byContradiction fun hne => hw.pools hne this
  · simp only [World.clear, F.restores, ↓reduceIte]; exact ho
  · simp only [World.clear, F.restores, ↓reduceIte]; exact hm
  · simp only [World.clear, F.restores, ↓reduceIte]; exact hp

theorem ensureTool_fields (T : Tables) (w : World) (t : String) :
    (ensureTool T w t).fields = w.fields ∧ (ensureTool T w t).store = w.store ∧ (ensureTool T w t).pools = w.pools := by
  unfold ensureTool
  split
  · exact ⟨rfl, rfl, rfl⟩
  · split <;> exact ⟨rfl, rfl, rfl⟩

theorem ensureTool_inv {T : Tables} {s0 : Store} {w : World} (hw : Inv T s0 w) (t : String) :
    Inv T s0 (ensureTool T w t) := by
  obtain ⟨hf, hs, hp⟩ := ensureTool_fields T w t
  exact ⟨hs ▸ hw.store, fun f h => hf ▸ hw.exemptNil f h, fun f h => hf ▸ hw.outside f h,
    by rw [hp, hs]; exact hw.pools⟩

theorem step_inv {T : Tables} {s0 : Store} {w : World} (F : TableFacts T) (hw : Inv T s0 w) (op : Op) :
    Inv T s0 (step T w op).w := by
  cases op with
  | call m tok => exact callMethod_inv F hw m tok
  | poke f tok => exact pokeField_inv F hw f tok
  | feedback c attrs trig tok => exact callMethod_inv F hw _ tok
  | override c fs =>
    have hreg := override_registered w.store c fs
    refine ⟨Store.override_inv s0 w.store c fs hw.store, hw.exemptNil, hw.outside, ?_⟩
    intro _ he
    have he' : (w.store.override c fs).1.overridden = [] := he
    rw [he'] at hreg
    exact absurd hreg List.not_mem_nil
  | overrideForPool c pool fs =>
    simp only [step, ok, F.poolRegisters, ↓reduceIte]
    have hreg := register_mem w.store c
    refine ⟨register_inv s0 w.store c hw.store, hw.exemptNil, hw.outside, ?_⟩
    intro _ he
    have he' : (register w.store c).overridden = [] := he
    rw [he'] at hreg
    exact absurd hreg List.not_mem_nil
  | useTool t => exact ensureTool_inv hw t
  | mutateTool t tok =>
    have h := ensureTool_inv hw t
    exact ⟨h.store, h.exemptNil, h.outside, h.pools⟩
  | tifa tok =>
    have h := ensureTool_inv hw "tifa"
    exact ⟨h.store, h.exemptNil, h.outside, h.pools⟩
  | resolve probes =>
    have h1 := callMethod_inv F hw "finalize_pools" "resolve"
    have h2 := pokeField_inv F h1 "result" "resolve"
    exact pokeField_inv F h2 "resolves" "resolve"
  | clearReport => exact fresh_inv T s0 _ (clear_fresh F hw)
  | crash e => exact hw

theorem run_inv {T : Tables} {s0 : Store} (F : TableFacts T) (ops : List Op) :
    ∀ w : World, Inv T s0 w → Inv T s0 (run T w ops).w := by
  induction ops with
  | nil => intro w hw; exact hw
  | cons op rest ih =>
    intro w hw
    have h1 := step_inv F hw op
    simp only [run]
    split
    · exact h1
    · exact ih _ h1

theorem grade_inv {T : Tables} {s0 : Store} {w : World} (F : TableFacts T) (hw : Inv T s0 w) (g : Grading) :
    Inv T s0 (grade T w g).w := by
  have h1 : Inv T s0 (w.clear T) := fresh_inv T s0 _ (clear_fresh F hw)
  have h2 := callMethod_inv F h1 "contextualize" g.sub
  simp only [grade, F.envClears, ↓reduceIte]
  split
  · exact h2
  · exact run_inv F _ _ h2

theorem runAll_inv {T : Tables} {s0 : Store} (F : TableFacts T) (h : List Grading) :
    ∀ w : World, Inv T s0 w → Inv T s0 (runAll T w h) := by
  induction h with
  | nil => intro w hw; exact hw
  | cons g rest ih => intro w hw; exact ih _ (grade_inv F hw g)


/-! ### simulation: states that differ only in what `Report.clear` legitimately leaves behind -/

/-- `w` and `w'` agree on everything a grading can read: all fields, tool data, the pool table, the class
    store up to `None`-vs-`{}` backups — and on the builtin-module table AS SOON AS the TIFA tool has been
    (lazily) reset, which is the only way to reach that table. -/
structure Sim (w w' : World) : Prop where
  fields : w.fields = w'.fields
  tools : w.tools = w'.tools
  pools : w.pools = w'.pools
  store : StoreEq w.store w'.store
  modules : (w.tools.lookup "tifa").isSome = true → w.modules = w'.modules

def SimR (r r' : StepR) : Prop := r.obs = r'.obs ∧ r.halt = r'.halt ∧ Sim r.w r'.w

theorem fresh_sim {s0 : Store} {w w' : World} (h : Fresh s0 w) (h' : Fresh s0 w') : Sim w w' := by
  refine ⟨h.fields.trans h'.fields.symm, h.tools.trans h'.tools.symm, h.pools.trans h'.pools.symm,
    ⟨h.own.trans h'.own.symm, h.mro.trans h'.mro.symm, fun c => (h.pristine.1 c).trans (h'.pristine.1 c).symm,
     h.pristine.2.trans h'.pristine.2.symm⟩, ?_⟩
  intro ht
  rw [h.tools] at ht
  simp at ht

theorem sim_fields {w w' : World} (h : Sim w w') (g : Fields → Fields) :
    Sim { w with fields := g w.fields } { w' with fields := g w'.fields } :=
  ⟨by show g w.fields = g w'.fields; rw [h.fields], h.tools, h.pools, h.store, h.modules⟩

theorem callMethod_sim {T : Tables} {w w' : World} (h : Sim w w') (m tok : String) :
    SimR (callMethod T w m tok) (callMethod T w' m tok) := by
  unfold callMethod
  cases T.dirtiesOf m with
  | some fs => exact ⟨rfl, rfl, sim_fields h (fun f => dirtyAll f fs tok)⟩
  | none =>
    dsimp only
    cases T.classDirties.lookup m with
    | none => exact ⟨rfl, rfl, h⟩
    | some cfs =>
      dsimp only
      split
      · exact ⟨rfl, rfl, h⟩
      · split
        · exact ⟨rfl, rfl, sim_fields h (fun f => dirtyAll f cfs tok)⟩
        · exact ⟨rfl, rfl, h⟩

theorem lookup_append_ne (l : List (String × List String)) (t k : String) (v : List String) (h : k ≠ t) :
    (l ++ [(t, v)]).lookup k = l.lookup k := by
  induction l with
  | nil => simp [h]
  | cons p rest ih =>
    obtain ⟨a, b⟩ := p
    simp only [List.cons_append, List.lookup_cons]
    cases (k == a) <;> simp [ih]

theorem lookup_append_self (l : List (String × List String)) (t : String) (v : List String) :
    ((l ++ [(t, v)]).lookup t).isSome = true := by
  induction l with
  | nil => simp
  | cons p rest ih =>
    obtain ⟨a, b⟩ := p
    simp only [List.cons_append, List.lookup_cons]
    cases (t == a) <;> simp [ih]

theorem lookup_map_isSome (f : String × List String → String × List String) (hf : ∀ p, (f p).1 = p.1)
    (l : List (String × List String)) (k : String) : ((l.map f).lookup k).isSome = (l.lookup k).isSome := by
  induction l with
  | nil => rfl
  | cons p rest ih =>
    have h1 : f p = (p.1, (f p).2) := by rw [← hf p]
    obtain ⟨a, b⟩ := p
    rw [List.map_cons, h1, List.lookup_cons, List.lookup_cons]
    cases (k == a) <;> simp [ih]

theorem lookup_touchTool_isSome (tools : List (String × List String)) (t tok k : String) :
    ((touchTool tools t tok).lookup k).isSome = (tools.lookup k).isSome := by
  unfold touchTool
  apply lookup_map_isSome
  intro p
  split <;> rfl

theorem ensureTool_has {T : Tables} (F : TableFacts T) (w : World) (t : String) :
    ((ensureTool T w t).tools.lookup t).isSome = true := by
  unfold ensureTool
  split
  · assumption
  · simp only [F.lazy, ↓reduceIte]
    exact lookup_append_self _ _ _

theorem ensureTool_sim {T : Tables} (F : TableFacts T) {w w' : World} (h : Sim w w') (t : String) :
    Sim (ensureTool T w t) (ensureTool T w' t) := by
  unfold ensureTool
  rw [← h.tools]
  split
  · exact h
  · simp only [F.lazy, ↓reduceIte, F.rebuilds, Bool.and_true]
    refine ⟨h.fields, rfl, h.pools, h.store, ?_⟩
    by_cases ht : t = "tifa"
    · intro _; simp [ht]
    · intro hl
      have hl' : ((w.tools ++ [(t, [])]).lookup "tifa").isSome = true := hl
      rw [lookup_append_ne _ _ _ _ (fun e => ht e.symm)] at hl'
      have := h.modules hl'
      simp [ht, this]

theorem step_sim {T : Tables} {s0 : Store} (F : TableFacts T) {w w' : World}
    (hw : Inv T s0 w) (hw' : Inv T s0 w') (h : Sim w w') (op : Op) :
    SimR (step T w op) (step T w' op) := by
  cases op with
  | call m tok => exact callMethod_sim h m tok
  | poke f tok => exact ⟨rfl, rfl, sim_fields h (fun fs => pokeField T.externalDirties fs f tok)⟩
  | feedback c attrs trig tok =>
    obtain ⟨ho, hh, hs⟩ := callMethod_sim (T := T) h (if trig then "add_feedback" else "add_ignored_feedback") tok
    refine ⟨?_, hh, hs⟩
    simp only [step]
    rw [ho, h.fields]
    congr 2
    apply List.map_congr_left
    intro a _
    rw [h.store.lookup]
  | override c fs =>
    obtain ⟨hs, he⟩ := override_eq w.store w'.store h.store c fs
    refine ⟨rfl, ?_, ⟨h.fields, h.tools, h.pools, hs, h.modules⟩⟩
    show (w.store.override c fs).2.map (·.cls) = (w'.store.override c fs).2.map (·.cls)
    rw [he]
  | overrideForPool c pool fs =>
    refine ⟨rfl, rfl, ⟨h.fields, h.tools, ?_, ?_, h.modules⟩⟩
    · show addPool w.pools pool fs = addPool w'.pools pool fs
      rw [h.pools]
    · show StoreEq (if T.poolOverrideRegisters then register w.store c else w.store)
        (if T.poolOverrideRegisters then register w'.store c else w'.store)
      split
      · exact register_eq _ _ h.store c
      · exact h.store
  | useTool t =>
    have h1 := ensureTool_sim F h t
    refine ⟨?_, rfl, h1⟩
    show [Obs.tool t ((ensureTool T w t).tools.lookup t)] = [Obs.tool t ((ensureTool T w' t).tools.lookup t)]
    rw [h1.tools]
  | mutateTool t tok =>
    have h1 := ensureTool_sim F h t
    refine ⟨rfl, rfl, ⟨h1.fields, ?_, h1.pools, h1.store, ?_⟩⟩
    · show touchTool (ensureTool T w t).tools t tok = touchTool (ensureTool T w' t).tools t tok
      rw [h1.tools]
    · intro hl
      have hl' : ((touchTool (ensureTool T w t).tools t tok).lookup "tifa").isSome = true := hl
      rw [lookup_touchTool_isSome] at hl'
      exact h1.modules hl'
  | tifa tok =>
    have h1 := ensureTool_sim F h "tifa"
    have hm := h1.modules (ensureTool_has F w "tifa")
    refine ⟨?_, rfl, ⟨h1.fields, ?_, h1.pools, h1.store, ?_⟩⟩
    · show [Obs.tool "tifa" ((ensureTool T w "tifa").tools.lookup "tifa"), Obs.modules (ensureTool T w "tifa").modules]
        = [Obs.tool "tifa" ((ensureTool T w' "tifa").tools.lookup "tifa"), Obs.modules (ensureTool T w' "tifa").modules]
      rw [h1.tools, hm]
    · show touchTool (ensureTool T w "tifa").tools "tifa" tok = touchTool (ensureTool T w' "tifa").tools "tifa" tok
      rw [h1.tools]
    · intro _
      show (ensureTool T w "tifa").modules ++ [tok] = (ensureTool T w' "tifa").modules ++ [tok]
      rw [hm]
  | resolve probes =>
    obtain ⟨_, hh, hs⟩ := callMethod_sim (T := T) h "finalize_pools" "resolve"
    refine ⟨?_, hh, ?_⟩
    · simp only [step, snapshot]
      rw [h.fields, h.pools, h.store.overridden]
      congr 1
      apply List.map_congr_left
      intro p _
      rw [h.store.lookup]
    · exact sim_fields hs (fun fs => pokeField T.externalDirties (pokeField T.externalDirties fs "result" "resolve")
        "resolves" "resolve")
  | clearReport => exact ⟨rfl, rfl, fresh_sim (clear_fresh F hw) (clear_fresh F hw')⟩
  | crash e => exact ⟨rfl, rfl, h⟩

theorem run_sim {T : Tables} {s0 : Store} (F : TableFacts T) (ops : List Op) :
    ∀ w w' : World, Inv T s0 w → Inv T s0 w' → Sim w w' → SimR (run T w ops) (run T w' ops) := by
  induction ops with
  | nil => intro w w' _ _ h; exact ⟨rfl, rfl, h⟩
  | cons op rest ih =>
    intro w w' hw hw' h
    obtain ⟨ho, hh, hs⟩ := step_sim F hw hw' h op
    have i1 := step_inv F hw op
    have i2 := step_inv F hw' op
    simp only [run]
    rw [← hh]
    cases hhalt : (step T w op).halt with
    | some e => exact ⟨ho, rfl, hs⟩
    | none =>
      obtain ⟨ho2, hh2, hs2⟩ := ih _ _ i1 i2 hs
      refine ⟨?_, hh2, hs2⟩
      show (step T w op).obs ++ _ = (step T w' op).obs ++ _
      rw [ho, ho2]

/-- From ANY two states a history can reach, the same grading observes the same things, ends the same way,
    and leaves states that are again indistinguishable. -/
theorem grade_sim {T : Tables} {s0 : Store} (F : TableFacts T) {w w' : World}
    (hw : Inv T s0 w) (hw' : Inv T s0 w') (g : Grading) : SimR (grade T w g) (grade T w' g) := by
  have f1 := clear_fresh F hw
  have f2 := clear_fresh F hw'
  have hs := fresh_sim f1 f2
  obtain ⟨_, hh, hs2⟩ := callMethod_sim (T := T) hs "contextualize" g.sub
  have i1 := callMethod_inv F (fresh_inv T s0 _ f1) "contextualize" g.sub
  have i2 := callMethod_inv F (fresh_inv T s0 _ f2) "contextualize" g.sub
  simp only [grade, F.envClears, ↓reduceIte]
  rw [← hh]
  cases (callMethod T (w.clear T) "contextualize" g.sub).halt with
  | some e => exact ⟨rfl, rfl, hs2⟩
  | none => exact run_sim F _ _ _ i1 i2 hs2

end Pedal.ProcState

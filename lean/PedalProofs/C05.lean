import PedalProofs.SandboxExecLemmas
/-
C05 — whatever the sandbox patches is restored after every execution, however it ends.

Statements are about `Pedal.SandboxExec.execute / stepOp / runOps` on the GENERATED configuration `genCfg`
(handler ladder from the AST of `Sandbox._execute`, probed mocking/tracer behaviour), for EVERY termination
descriptor (normal, any raised exception whatever its class flags and hazards, compile failure), with or without
a failure injected into the recording of the exception, whether the call returns or propagates, and for every
sequence of such executions (induction over histories).

Timeouts (threaded execution) are C14's and are not modelled.
-/
namespace Pedal.SandboxExec
open Pedal.Gen.SandboxExec

/-- The generated ladder contains no statement or `except` class the translator did not understand. -/
def ExecuteDef.wellFormed (d : ExecuteDef) : Bool :=
  let ok := fun (as : List Act) => as.all (· != .unknown)
  ok d.pre && ok d.body && ok d.orelse && ok d.final && ok d.post &&
    d.handlers.all (fun h => h.catches != .unknown && ok h.body)

theorem c05_ladder_well_formed : executeDef.wellFormed = true := by decide

/-- For each of the 48 control signatures, from empty stacks the generated ladder ends with empty stacks
    and performs only steps covered by the restoration invariant - by evaluation of `plan`. -/
theorem c05_ladder_balanced : allSigs.all (checkC05 mockProbe executeDef) = true := by decide

/-- Probe: `_start_mocking; _stop_mocking` (also nested) leaves every borrowed global as found. -/
theorem c05_probe_restores : mockProbe.stopRestores = true := by decide

theorem gen_checkC05 (sig : Sig) : checkC05 genCfg.probe genCfg.exec sig = true :=
  forall_sig_of_all c05_ladder_balanced sig

/-- After one `_execute` - returning or propagating, whatever the student code did, even if recording the
    failure itself failed - both stacks are empty again and stdout / time.sleep / sys.modules / the trace
    function / the process builtins are what they were (tracer styles that restore the trace function). -/
theorem c05_restored_after_execute (style : TraceStyle) (nested : Bool) (hst : TraceOK style nested) (s : St)
    (hs : s.Inv) (t : Termination) (inject : Bool) :
    (execute genCfg style nested s t inject).1.Inv ∧ (execute genCfg style nested s t inject).1.g = s.g :=
  execute_restores genCfg c05_probe_restores gen_checkC05 style nested hst s hs t inject

/-- The same through the entry points `run`, `call` (including the missing-function early return), `evaluate`. -/
theorem c05_restored_after_op (s : St) (hs : s.Inv) (op : Op) (hst : TraceOK op.style op.nested) :
    (stepOp genCfg s op).1.Inv ∧ (stepOp genCfg s op).1.g = s.g := by
  unfold stepOp
  split
  · exact ⟨hs, rfl⟩
  · exact c05_restored_after_execute op.style op.nested hst s hs op.term op.inject
  · exact c05_restored_after_execute op.style op.nested hst s hs op.term op.inject

/-- The hypothesis `StacksRestored` of `c04_history` (PedalProofs/C04.lean), discharged. -/
theorem c05_discharges_c04_hypothesis (s : St) (op : Op) (hs : s.Inv) (hst : TraceOK op.style op.nested) :
    (stepOp genCfg s op).1.Inv :=
  (c05_restored_after_op s hs op hst).1

/-- After ANY sequence of executions the stacks are empty and the borrowed globals are the original ones. -/
theorem c05_restored_after_history (ops : List Op) (hst : ∀ op ∈ ops, TraceOK op.style op.nested) (s : St)
    (hs : s.Inv) :
    (runOps genCfg s ops).Inv ∧ (runOps genCfg s ops).g = s.g := by
  induction ops generalizing s with
  | nil => exact ⟨hs, rfl⟩
  | cons op ops ih =>
    have h1 := c05_restored_after_op s hs op (hst op (List.mem_cons_self ..))
    have h2 := ih (fun o ho => hst o (List.mem_cons_of_mem _ ho)) (stepOp genCfg s op).1 h1.1
    exact ⟨h2.1, h2.2.trans h1.2⟩

/-- Student code gets a private copy of the builtins: no execution history changes the process-wide ones. -/
theorem c05_builtins_private (ops : List Op) (hst : ∀ op ∈ ops, TraceOK op.style op.nested) (s : St)
    (hs : s.Inv) :
    mockProbe.builtinsPrivate = true ∧ (runOps genCfg s ops).g.builtins = s.g.builtins :=
  ⟨by decide, by rw [(c05_restored_after_history ops hst s hs).2]⟩

/-- Non-vacuity: the initial state satisfies the invariant, and a history mixing a normal run, a
    KeyboardInterrupt-like exception (neither Exception nor SystemExit) and an injected recording failure
    is covered (evaluated). -/
example : St.init.Inv := by decide

def exampleStyle : TraceStyle := { name := "native", installs := true, restores := true, restoresNested := true }
def exampleBase : ExcDesc :=
  { cls := "KeyboardInterrupt", isException := false, isSystemExit := false, isKeyError := false, hazards := [],
    synLine := none, frames := [{ kind := .student, line := 2 }] }
def exampleOps : List Op :=
  [{ entry := .run, style := exampleStyle, nested := true, inject := false, term := .normal },
   { entry := .run, style := exampleStyle, nested := false, inject := false, term := .raised exampleBase },
   { entry := .call true, style := exampleStyle, nested := true, inject := true,
     term := .raised { exampleBase with cls := "ValueError", isException := true } }]

example : (stepOp genCfg St.init exampleOps[1]).2.1 = .propagated .student := by decide
example : (runOps genCfg St.init exampleOps).Inv := by decide

/-! ### The full statement over every generated tracer style, and the region where it fails -/

/-- A tracer style that installs a trace function and does not put the previous one back - at all, or (when the
    executed code imports another student file) after being re-entered. -/
def Excluded (style : TraceStyle) (nested : Bool) : Bool := style.leaks nested

theorem traceOK_of_not_excluded (style : TraceStyle) (nested : Bool) (h : Excluded style nested = false) :
    TraceOK style nested := h

/-- `Sandbox._import` leaves failure handling and patching to the `_execute` it runs inside (from its AST). -/
theorem c05_import_transparent : importDef.transparent = true := by decide

/-- The property as stated: for EVERY tracer style pedal offers, importing student files or not. -/
def C05_Restored_Full : Prop :=
  ∀ style ∈ traceStyles, ∀ (nested : Bool) (s : St), s.Inv → ∀ t inject,
    (execute genCfg style nested s t inject).1.Inv ∧ (execute genCfg style nested s t inject).1.g = s.g

theorem c05_restored_partial (style : TraceStyle) (nested : Bool) (hx : Excluded style nested = false) (s : St)
    (hs : s.Inv) (t : Termination) (inject : Bool) :
    (execute genCfg style nested s t inject).1.Inv ∧ (execute genCfg style nested s t inject).1.g = s.g :=
  c05_restored_after_execute style nested (traceOK_of_not_excluded style nested hx) s hs t inject

theorem c05_restored_full_of_no_excluded (h : ∀ style ∈ traceStyles, Excluded style true = false) :
    C05_Restored_Full :=
  fun style hm nested s hs t inject =>
    c05_restored_partial style nested (TraceOK.of_nested (h style hm) nested) s hs t inject

/-- The data layer reads a tracer style only through whether it leaks. -/
theorem applyPrim_style (env : Env) (style' : TraceStyle) (h : style'.leaks env.nested = env.style.leaks env.nested)
    (s : St) (q : Prim) :
    applyPrim { env with style := style' } s q = applyPrim env s q := by
  cases q <;> simp [applyPrim, Env.reported, Env.mkFb, h]

theorem applyPrims_style (env : Env) (style' : TraceStyle) (h : style'.leaks env.nested = env.style.leaks env.nested)
    (qs : List Prim) (s : St) :
    applyPrims { env with style := style' } s qs = applyPrims env s qs := by
  induction qs generalizing s with
  | nil => rfl
  | cons q qs ih => rw [applyPrims_cons, applyPrims_cons, applyPrim_style env style' h, ih]

def leakyStyle : TraceStyle := { name := "", installs := true, restores := false, restoresNested := false }

/-- With a leaking style even a program that ends normally (after importing a student file) leaves another
    trace function (evaluated). -/
def traceLeakCheck : Bool :=
  (execute genCfg leakyStyle true St.init .normal false).1.g.trace != St.init.g.trace

/-- Whenever the probe table lists a style that leaks (at least when re-entered), the full statement is false:
    a normal run that imports a student file, from the initial state with that style, ends with a different trace
    function. -/
theorem c05_restored_counterexample (hx : traceStyles.any (Excluded · true) = true) (hre : importDef.reentersTracer = true)
    (hc : traceLeakCheck = true) : ¬ C05_Restored_Full := by
  intro hfull
  obtain ⟨style, hm, he⟩ := List.any_eq_true.mp hx
  have := (hfull style hm true St.init (by decide) .normal false).2
  have hsame : (execute genCfg style true St.init .normal false).1 =
      (execute genCfg leakyStyle true St.init .normal false).1 := by
    simp only [execute]
    have hn : (envOf genCfg leakyStyle true .normal).nested = true := by
      show (true && importDef.reentersTracer) = true
      simp [hre]
    exact (applyPrims_style (envOf genCfg leakyStyle true .normal) style
      (by rw [hn]; simpa [Excluded, envOf, leakyStyle, TraceStyle.leaks] using he) _ _)
  rw [hsame] at this
  simp only [traceLeakCheck, bne_iff_ne, ne_eq] at hc
  exact hc (by rw [this])

/-- The counterexample applies to the tree under test exactly when the table lists such a style (evaluated). -/
theorem c05_counterexample_applies :
    traceStyles.any (Excluded · true) = true → importDef.reentersTracer = true ∧ traceLeakCheck = true := by decide

end Pedal.SandboxExec

import PedalProofs.SandboxExecLemmas
/-
C05 — whatever the sandbox patches is restored after every execution, however it ends.

Statements are about `Pedal.SandboxExec.execute / stepOp / runOps` on the GENERATED configuration `genCfg`
(handler ladder from the AST of `Sandbox._execute`, probed mocking/tracer behaviour), for EVERY termination
descriptor (normal, any raised exception whatever its class flags and hazards, compile failure), with or without
a failure injected into the recording of the exception, whether the call returns or propagates, and for every
sequence of such executions (induction over histories).

Timeouts (threaded execution) are C14's and are not modelled.
-/
namespace Pedal.SandboxExec
open Pedal.Gen.SandboxExec

/-- The generated ladder contains no statement or `except` class the translator did not understand. -/
def ExecuteDef.wellFormed (d : ExecuteDef) : Bool :=
  let ok := fun (as : List Act) => as.all (· != .unknown)
  ok d.pre && ok d.body && ok d.orelse && ok d.final && ok d.post &&
    d.handlers.all (fun h => h.catches != .unknown && ok h.body)

theorem c05_ladder_well_formed : executeDef.wellFormed = true := by decide

/-- For each of the 48 control signatures, from empty stacks the generated ladder ends with empty stacks
    and performs only steps covered by the restoration invariant - by evaluation of `plan`. -/
theorem c05_ladder_balanced : allSigs.all (checkC05 mockProbe executeDef) = true := by decide

/-- Probe: `_start_mocking; _stop_mocking` (also nested) leaves every borrowed global as found. -/
theorem c05_probe_restores : mockProbe.stopRestores = true := by decide

/-- The model has no notion of the thread the grader runs on (`_stop_mocking` consults the current thread for the
    finish claim of a timed execution): the probe above, repeated with the caller on a plain threading.Thread, a pool
    worker, a thread `threading` did not start and a Timer, measures the same as on the main thread and restores
    everything there too. -/
theorem c05_probe_thread_independent : mockProbeOnThread.all (fun p => p.2) = true := by decide

theorem gen_checkC05 (sig : Sig) : checkC05 genCfg.probe genCfg.exec sig = true :=
  forall_sig_of_all c05_ladder_balanced sig

/-- After one `_execute` - returning or propagating, whatever the student code did, even if recording the
    failure itself failed - both stacks are empty again and stdout / time.sleep / sys.modules / the trace
    function / the process builtins are what they were (tracer styles that restore the trace function). -/
theorem c05_restored_after_execute (style : TraceStyle) (nested : Bool) (hst : TraceOK style nested) (s : St)
    (hs : s.Inv) (t : Termination) (inject : Bool) :
    (execute genCfg style nested s t inject).1.Inv ∧ (execute genCfg style nested s t inject).1.g = s.g :=
  execute_restores genCfg c05_probe_restores gen_checkC05 style nested hst s hs t inject

/-- The same through the entry points `run`, `call` (including the missing-function early return), `evaluate`. -/
theorem c05_restored_after_op (s : St) (hs : s.Inv) (op : Op) (hst : TraceOK op.style op.nested) :
    (stepOp genCfg s op).1.Inv ∧ (stepOp genCfg s op).1.g = s.g := by
  unfold stepOp
  split
  · exact ⟨hs, rfl⟩
  · exact c05_restored_after_execute op.style op.nested hst s hs op.term op.inject
  · exact c05_restored_after_execute op.style op.nested hst s hs op.term op.inject

/-- The hypothesis `StacksRestored` of `c04_history` (PedalProofs/C04.lean), discharged. -/
theorem c05_discharges_c04_hypothesis (s : St) (op : Op) (hs : s.Inv) (hst : TraceOK op.style op.nested) :
    (stepOp genCfg s op).1.Inv :=
  (c05_restored_after_op s hs op hst).1

/-- After ANY sequence of executions the stacks are empty and the borrowed globals are the original ones. -/
theorem c05_restored_after_history (ops : List Op) (hst : ∀ op ∈ ops, TraceOK op.style op.nested) (s : St)
    (hs : s.Inv) :
    (runOps genCfg s ops).Inv ∧ (runOps genCfg s ops).g = s.g := by
  induction ops generalizing s with
  | nil => exact ⟨hs, rfl⟩
  | cons op ops ih =>
    have h1 := c05_restored_after_op s hs op (hst op (List.mem_cons_self ..))
    have h2 := ih (fun o ho => hst o (List.mem_cons_of_mem _ ho)) (stepOp genCfg s op).1 h1.1
    exact ⟨h2.1, h2.2.trans h1.2⟩

/-! ### Executions nested in one another (the reason why `_current_patches` / `_current_stdout` are stacks) -/

/-- The generated ladder does the same whatever is already on the stacks: the plan computed at any depth is the
    plan computed from empty stacks (`c05_ladder_balanced` includes: it never pops a stack that is empty and never
    goes below the depth it started at). -/
theorem c05_ladder_depth_independent (b : Base) (sig : Sig) :
    plan mockProbe b sig executeDef = plan mockProbe base0 sig executeDef :=
  plan_any_base genCfg gen_checkC05 b sig

/-- The hypothesis `DepthIndependent` of `c04_contained_when_nested` (PedalProofs/C04.lean), discharged
    (stated here in full because C05.lean does not import C04.lean). -/
theorem c05_discharges_c04_depth_hypothesis :
    ∀ (b : Base) (sig : Sig), plan mockProbe b sig executeDef = plan mockProbe base0 sig executeDef :=
  c05_ladder_depth_independent

/-- An execution started in ANY state of the stacks - i.e. while any number of other executions are in progress
    on the same sandbox - whose running code starts further executions `inner` that leave things as they found
    them: both stacks and every borrowed global are exactly what they were when it started, however it ends. -/
theorem c05_restored_when_nested (style : TraceStyle) (nested : Bool) (hst : TraceOK style nested)
    (inner : St → St) (hin : Framed inner) (s : St) (t : Termination) (inject : Bool) :
    (executeN genCfg style nested s t inject inner).1.patches = s.patches ∧
    (executeN genCfg style nested s t inject inner).1.stdouts = s.stdouts ∧
    (executeN genCfg style nested s t inject inner).1.g = s.g :=
  executeN_frames genCfg c05_probe_restores gen_checkC05 style nested hst inner hin s t inject

/-- Every tree of executions - an execution through run / call / evaluate whose code starts further executions
    on the same sandbox, to any depth, each ending in any way - leaves both stacks and the borrowed globals as
    they were when its root started (induction over the tree). -/
theorem c05_restored_after_nested (n : NOp) (h : n.traceOK = true) (s : St) :
    (runN genCfg n s).patches = s.patches ∧ (runN genCfg n s).stdouts = s.stdouts ∧ (runN genCfg n s).g = s.g :=
  runN_framed genCfg c05_probe_restores gen_checkC05 n h s

/-- After ANY sequence of such trees, started with empty stacks: empty stacks, the original globals. -/
theorem c05_restored_after_nested_history (ns : List NOp) (h : NOp.allTraceOK ns = true) (s : St) (hs : s.Inv) :
    (runHistN genCfg s ns).Inv ∧ (runHistN genCfg s ns).g = s.g := by
  obtain ⟨h1, h2, h3⟩ := runNs_framed genCfg c05_probe_restores gen_checkC05 ns h s
  exact ⟨⟨h1.trans hs.1, h2.trans hs.2⟩, h3⟩

/-- Without nested executions the two models coincide (the driver runs `execute` for plain histories). -/
theorem c05_executeN_extends_execute (style : TraceStyle) (nested : Bool) (s : St) (t : Termination) (inject : Bool) :
    executeN genCfg style nested s t inject id = execute genCfg style nested s t inject :=
  executeN_id genCfg style nested s t inject

/-- Student code gets a private copy of the builtins: no execution history changes the process-wide ones. -/
theorem c05_builtins_private (ops : List Op) (hst : ∀ op ∈ ops, TraceOK op.style op.nested) (s : St)
    (hs : s.Inv) :
    mockProbe.builtinsPrivate = true ∧ (runOps genCfg s ops).g.builtins = s.g.builtins :=
  ⟨by decide, by rw [(c05_restored_after_history ops hst s hs).2]⟩

/-- Non-vacuity: the initial state satisfies the invariant, and a history mixing a normal run, a
    KeyboardInterrupt-like exception (neither Exception nor SystemExit) and an injected recording failure
    is covered (evaluated). -/
example : St.init.Inv := by decide

def exampleStyle : TraceStyle := { name := "native", installs := true, restores := true, restoresNested := true }
def exampleBase : ExcDesc :=
  { cls := "KeyboardInterrupt", isException := false, isSystemExit := false, isKeyError := false, hazards := [],
    synLine := none, frames := [{ kind := .student, line := 2 }] }
def exampleOps : List Op :=
  [{ entry := .run, style := exampleStyle, nested := true, inject := false, term := .normal },
   { entry := .run, style := exampleStyle, nested := false, inject := false, term := .raised exampleBase },
   { entry := .call true, style := exampleStyle, nested := true, inject := true,
     term := .raised { exampleBase with cls := "ValueError", isException := true } }]

example : (stepOp genCfg St.init exampleOps[1]).2.1 = .propagated .student := by decide
example : (runOps genCfg St.init exampleOps).Inv := by decide

/-- Non-vacuity (evaluated): a run whose code starts an evaluate that raises and then a call whose own code starts
    a run ending by KeyboardInterrupt (depth 3), the outer run then failing; inside, the stacks are NOT empty. -/
def exampleTree : NOp :=
  .mk { entry := .run, style := exampleStyle, nested := true, inject := false,
        term := .raised { exampleBase with cls := "ZeroDivisionError", isException := true } }
    [.mk { entry := .evaluate, style := exampleStyle, nested := false, inject := false,
           term := .raised { exampleBase with cls := "ValueError", isException := true } } [],
     .mk { entry := .call true, style := exampleStyle, nested := true, inject := false, term := .normal }
       [.mk { entry := .run, style := exampleStyle, nested := false, inject := false, term := .raised exampleBase } []]]

example : exampleTree.traceOK = true := by decide
example : (runHistN genCfg St.init [exampleTree, exampleTree]).Inv := by decide
example : (Wire.statePre genCfg St.init { entry := .run, style := exampleStyle, nested := false, inject := false,
                                          term := .normal }).map (fun s => s.patches.length) = some 1 := by decide
example : (runHistN genCfg St.init [exampleTree]).feedbacks.length = 2 := by decide

/-- What the stack discipline is for (evaluated): a `_stop_patches` that pops the OLDEST frame instead of the
    newest (probe `stopRestores` false for nested start/stop) would be invisible to every theorem about un-nested
    executions only through the probe; the nested theorems need `c05_probe_restores`. -/
example : mockProbe.stopRestores = true := c05_probe_restores

/-! ### The full statement over every generated tracer style, and the region where it fails -/

/-- A tracer style that installs a trace function and does not put the previous one back - at all, or (when the
    executed code imports another student file) after being re-entered. -/
def Excluded (style : TraceStyle) (nested : Bool) : Bool := style.leaks nested

theorem traceOK_of_not_excluded (style : TraceStyle) (nested : Bool) (h : Excluded style nested = false) :
    TraceOK style nested := h

/-- `Sandbox._import` leaves failure handling and patching to the `_execute` it runs inside (from its AST). -/
theorem c05_import_transparent : importDef.transparent = true := by decide

/-- The property as stated: for EVERY tracer style pedal offers, importing student files or not. -/
def C05_Restored_Full : Prop :=
  ∀ style ∈ traceStyles, ∀ (nested : Bool) (s : St), s.Inv → ∀ t inject,
    (execute genCfg style nested s t inject).1.Inv ∧ (execute genCfg style nested s t inject).1.g = s.g

theorem c05_restored_partial (style : TraceStyle) (nested : Bool) (hx : Excluded style nested = false) (s : St)
    (hs : s.Inv) (t : Termination) (inject : Bool) :
    (execute genCfg style nested s t inject).1.Inv ∧ (execute genCfg style nested s t inject).1.g = s.g :=
  c05_restored_after_execute style nested (traceOK_of_not_excluded style nested hx) s hs t inject

theorem c05_restored_full_of_no_excluded (h : ∀ style ∈ traceStyles, Excluded style true = false) :
    C05_Restored_Full :=
  fun style hm nested s hs t inject =>
    c05_restored_partial style nested (TraceOK.of_nested (h style hm) nested) s hs t inject

/-- The data layer reads a tracer style only through whether it leaks. -/
theorem applyPrim_style (env : Env) (style' : TraceStyle) (h : style'.leaks env.nested = env.style.leaks env.nested)
    (s : St) (q : Prim) :
    applyPrim { env with style := style' } s q = applyPrim env s q := by
  cases q <;> simp [applyPrim, Env.reported, Env.mkFb, h]

theorem applyPrims_style (env : Env) (style' : TraceStyle) (h : style'.leaks env.nested = env.style.leaks env.nested)
    (qs : List Prim) (s : St) :
    applyPrims { env with style := style' } s qs = applyPrims env s qs := by
  induction qs generalizing s with
  | nil => rfl
  | cons q qs ih => rw [applyPrims_cons, applyPrims_cons, applyPrim_style env style' h, ih]

def leakyStyle : TraceStyle := { name := "", installs := true, restores := false, restoresNested := false }

/-- With a leaking style even a program that ends normally (after importing a student file) leaves another
    trace function (evaluated). -/
def traceLeakCheck : Bool :=
  (execute genCfg leakyStyle true St.init .normal false).1.g.trace != St.init.g.trace

/-- Whenever the probe table lists a style that leaks (at least when re-entered), the full statement is false:
    a normal run that imports a student file, from the initial state with that style, ends with a different trace
    function. -/
theorem c05_restored_counterexample (hx : traceStyles.any (Excluded · true) = true) (hre : importDef.reentersTracer = true)
    (hc : traceLeakCheck = true) : ¬ C05_Restored_Full := by
  intro hfull
  obtain ⟨style, hm, he⟩ := List.any_eq_true.mp hx
  have := (hfull style hm true St.init (by decide) .normal false).2
  have hsame : (execute genCfg style true St.init .normal false).1 =
      (execute genCfg leakyStyle true St.init .normal false).1 := by
    simp only [execute]
    have hn : (envOf genCfg leakyStyle true .normal).nested = true := by
      show (true && importDef.reentersTracer) = true
      simp [hre]
    exact (applyPrims_style (envOf genCfg leakyStyle true .normal) style
      (by rw [hn]; simpa [Excluded, envOf, leakyStyle, TraceStyle.leaks] using he) _ _)
  rw [hsame] at this
  simp only [traceLeakCheck, bne_iff_ne, ne_eq] at hc
  exact hc (by rw [this])

/-- The counterexample applies to the tree under test exactly when the table lists such a style (evaluated). -/
theorem c05_counterexample_applies :
    traceStyles.any (Excluded · true) = true → importDef.reentersTracer = true ∧ traceLeakCheck = true := by decide

end Pedal.SandboxExec

import PedalModel.Timeout
import PedalProofs.TimeoutLemmasG
import PedalProofs.TimeoutLemmasT
import PedalProofs.TimeoutLemmasR
import PedalProofs.TimeoutLemmasD
import PedalProofs.TimeoutLemmasIR
/-
C14 — a time-limit violation yields exactly one timeout report and a usable sandbox.

All theorems are about `Pedal.Timeout.run p sched` = the interleaving machine instantiated
with the protocol facts translated from the tree under test (`cfg`), i.e. the function the
driver executes, for EVERY student program `p : Prog` and EVERY schedule `sched : List Act`
(any interleaving of the grader thread and the student thread, of any length), by induction
over the schedule with the invariants `Inv` / `InvData` (TimeoutLemmas*).

`cfg_fixed` is where the tree under test enters.  `cfg` is COMPUTED (PedalModel/Timeout.lean, TimeoutIR.lean) from the
decision trees of `timeout()`, `Sandbox._stop_mocking` and the TimeoutError handler that the translator regenerates on
every run (read from the AST with helpers inlined and locals followed, and measured on the running code): the trees
are evaluated on every answer to the questions the code asks, so `cfg_fixed` holds for every way of writing the same
protocol, and fails when a fact is absent, not established by either source, contradictory, or present on one side
only (PedalProofs/TimeoutLemmasIR.lean pins what the fact functions accept and refuse).
-/
namespace Pedal.Timeout

/-- the tree under test implements the whole protocol -/
theorem cfg_fixed : cfg = fixed := rfl

theorem inv_step (p : Prog) (s : St) (a : Act) (h : Inv s) : Inv (step fixed p s a) := by
  cases a with
  | g => exact inv_stepG s h
  | t c =>
    by_cases hr : s.tpc = .run
    · exact inv_stepT_run p s c h hr
    · exact inv_stepT_other p s c h hr

theorem invd_step (p : Prog) (hp : p.swallows = true → p.prints = false) (s : St) (a : Act)
    (h : Inv s) (d : InvData p s) : InvData p (step fixed p s a) := by
  cases a with
  | g => exact invd_stepG p s h d
  | t c =>
    by_cases hr : s.tpc = .run
    · exact invd_stepT_run p hp s c h d hr
    · exact invd_stepT_other p s c h d hr

/-- induction over the schedule -/
theorem inv_runSched (p : Prog) (sched : List Act) (s : St) (h : Inv s) : Inv (runSched fixed p s sched) := by
  induction sched generalizing s with
  | nil => exact h
  | cons a rest ih => exact ih _ (inv_step p s a h)

theorem invd_runSched (p : Prog) (hp : p.swallows = true → p.prints = false) (sched : List Act) (s : St)
    (h : Inv s) (d : InvData p s) : InvData p (runSched fixed p s sched) := by
  induction sched generalizing s with
  | nil => exact d
  | cons a rest ih => exact ih _ (inv_step p s a h) (invd_step p hp s a h d)

theorem inv_run (p : Prog) (sched : List Act) : Inv (run p sched) := by
  unfold run; rw [cfg_fixed]; exact inv_runSched p sched init inv_init

theorem invd_run (p : Prog) (hp : p.swallows = true → p.prints = false) (sched : List Act) :
    InvData p (run p sched) := by
  unfold run; rw [cfg_fixed]; exact invd_runSched p hp sched init inv_init (invd_init p)

/-! ### the property -/

/-- Exactly one runtime feedback for the timed-out execution, and it is the timeout — under every
schedule, whenever and whether the abandoned thread reaches its handlers.  (If the student code
ended just in time instead, the execution has its ordinary feedback: none, or its own exception;
never two, never a SystemExit.) -/
theorem c14_one_timeout_feedback (p : Prog) (sched : List Act) (hdone : (run p sched).gpc = .done) :
    ((run p sched).timedOut = true → (run p sched).feedback = [(.timeout, .one)]) ∧
    ((run p sched).timedOut = false →
      (run p sched).feedback = [] ∨ (run p sched).feedback = [(.student, .one)]) := by
  have h := inv_run p sched
  obtain ⟨hl, -, -, htimed, hexit, -, hfb, -⟩ := h
  generalize run p sched = s at *
  rcases s with ⟨gpc, tpc, claim, pending, tExit, timedOut, patches, stdouts, sysStdout, buf1, buf2, real, raw, out1, out2, ctxs, id1, id2, nextId, exc, feedback, excAtReturn, depthAtReturn, excBeforeNext, e2Escaped, e1Escaped⟩
  simp only at hdone hl htimed hexit hfb ⊢
  subst hdone
  rcases claim with _ | (_ | _) <;> cases tpc <;> cases tExit <;>
    simp_all [legal, expFb, GPc.rank, TPc.rank, excOfExit]

/-- From the moment the TimeoutError handler has recorded it until the next execution starts,
`sandbox.exception` is the timeout error, whatever the abandoned thread does meanwhile; in
particular it is what `run(threaded=True)` returns with and what the next execution finds. -/
theorem c14_exception_is_timeout (p : Prog) (sched : List Act) (ht : (run p sched).timedOut = true) :
    (6 ≤ (run p sched).gpc.rank → (run p sched).gpc.rank ≤ 9 → (run p sched).exc = .timeout) ∧
    (9 ≤ (run p sched).gpc.rank → (run p sched).excAtReturn = some .timeout) ∧
    (10 ≤ (run p sched).gpc.rank → (run p sched).excBeforeNext = some .timeout) := by
  have h := inv_run p sched
  obtain ⟨hl, -, -, htimed, -, -, -, hexc, -, -, -, -, -, -, -, hret, -, hbefore, -⟩ := h
  generalize run p sched = s at *
  rcases s with ⟨gpc, tpc, claim, pending, tExit, timedOut, patches, stdouts, sysStdout, buf1, buf2, real, raw, out1, out2, ctxs, id1, id2, nextId, exc, feedback, excAtReturn, depthAtReturn, excBeforeNext, e2Escaped, e1Escaped⟩
  simp only at ht hl htimed hexc hret hbefore ⊢
  subst ht
  rcases claim with _ | (_ | _) <;> cases gpc <;>
    simp [legal, GPc.rank] at hl htimed <;>
    simp [hexc, hret, hbefore, expExc, e1Exc, GPc.rank]

/-- The patch stack and the stdout stack are empty and `sys.stdout` is the real one when the
timed-out call returns, while the next execution has not pushed its own yet, and again after
it — under every schedule, wherever the abandoned thread is. -/
theorem c14_stacks_clean_after (p : Prog) (sched : List Act) :
    (9 ≤ (run p sched).gpc.rank → (run p sched).depthAtReturn = some (0, 0)) ∧
    (((run p sched).gpc = .ret ∨ (run p sched).gpc = .n0 ∨ (run p sched).gpc = .nPush ∨
      (run p sched).gpc = .nBump ∨ (run p sched).gpc = .done) →
      (run p sched).patches = [] ∧ (run p sched).stdouts = [] ∧ (run p sched).sysStdout = .real) := by
  have h := inv_run p sched
  obtain ⟨-, hstk, -, -, -, -, -, -, -, -, -, -, -, -, -, -, hdepth, -, -⟩ := h
  generalize run p sched = s at *
  rcases s with ⟨gpc, tpc, claim, pending, tExit, timedOut, patches, stdouts, sysStdout, buf1, buf2, real, raw, out1, out2, ctxs, id1, id2, nextId, exc, feedback, excAtReturn, depthAtReturn, excBeforeNext, e2Escaped, e1Escaped⟩
  simp only at hstk hdepth ⊢
  refine ⟨fun h9 => by simp [hdepth, h9], ?_⟩
  intro hg
  rcases hg with rfl | rfl | rfl | rfl | rfl <;> simp_all [expStacks]

/-- The next execution is not altered by the abandoned thread: it gets a fresh context id, its
record and the raw output hold exactly what it wrote, in order, after E1's share; nothing it
wrote went anywhere else; it ends without exception and nothing escapes.  The output part needs
the student thread not to be one that survives termination AND prints (`swallows → ¬ prints`):
`sys.stdout` is process-global, see `c14_surviving_printer_pollutes`. -/
theorem c14_next_run_unaffected (p : Prog) (sched : List Act) (hdone : (run p sched).gpc = .done) :
    (run p sched).exc = .none ∧ (run p sched).e2Escaped = false ∧
    (run p sched).id2 = (run p sched).id1 + 1 ∧ (run p sched).nextId = 2 ∧
    (run p sched).raw = (run p sched).out1 ++ (run p sched).out2 ∧
    ((p.swallows = true → p.prints = false) →
      (run p sched).out2 = [.n, .x] ∧ (∀ k ∈ (run p sched).real, k = Tok.e1)) := by
  have h := inv_run p sched
  refine ⟨?_, ?_, ?_, ?_, ?_, ?_⟩
  · have := h.hexc; rw [hdone] at this; simpa [expExc, GPc.rank] using this
  · exact h.hesc
  · have h1 := h.hid1; have h2 := h.hid2; have hl := h.hl
    rw [hdone] at h2 hl
    have : (run p sched).tpc ≠ .start := by
      intro ht; rw [ht] at hl
      cases hc : (run p sched).claim with
      | none => rw [hc] at hl; simp [legal] at hl
      | some w => rw [hc] at hl; cases w <;> simp [legal, TPc.rank] at hl
    rw [h1 this, h2 (by simp [GPc.rank])]
  · have hn := h.hnext; have hl := h.hl
    rw [hdone] at hn hl
    cases hc : (run p sched).claim with
    | none => rw [hc] at hl; simp [legal] at hl
    | some w =>
      rw [hc] at hl hn
      cases w with
      | g => simpa [expNext, GPc.rank] using hn
      | t =>
        cases ht : (run p sched).tpc <;> rw [ht] at hl <;> simp [legal, GPc.rank, TPc.rank] at hl
        rw [ht] at hn; simpa [expNext] using hn
  · exact h.hraw
  · intro hp
    have d := invd_run p hp sched
    refine ⟨?_, d.hreal⟩
    have := d.hout2v; rw [hdone] at this; simpa [GPc.rank] using this

/-- Nothing escapes from `run(threaded=True)` or from the next execution — under every schedule,
including the one where the student thread ends by itself between the grader's decision to give
up on it and the `terminate()` call (`c14_intolerant_terminate_escapes` is what happens there
when `terminate()` insists on a live thread). -/
theorem c14_nothing_escapes (p : Prog) (sched : List Act) :
    (run p sched).e1Escaped = false ∧ (run p sched).e2Escaped = false :=
  ⟨(inv_run p sched).hesc1, (inv_run p sched).hesc⟩

/-- "Returns within a bounded delay", as far as a schedule-level model can say it: after the
timer fired the grader thread blocks on the student thread in exactly one situation — the
student thread has already left the student's code, holds the claim and is running pedal's own
(loop-free) finalization.  It never waits for student code.  The wall-clock bound itself is a
runtime fact and is only sampled by the harness. -/
theorem c14_grader_waits_only_for_finalization (p : Prog) (sched : List Act)
    (hw : (run p sched).gpc = .wait) :
    (run p sched).claim = some .t ∧ 3 ≤ (run p sched).tpc.rank := by
  have hl := (inv_run p sched).hl
  rw [hw] at hl
  cases hc : (run p sched).claim with
  | none => rw [hc] at hl; simp [legal] at hl
  | some w =>
    rw [hc] at hl
    cases w with
    | g => simp [legal] at hl
    | t => simp [legal] at hl; exact ⟨rfl, hl⟩

/-- every other grader step makes progress by itself (T's prologue is assumed done at the timer) -/
theorem c14_grader_progress (c : Cfg) (s : St) (h1 : s.gpc ≠ .wait) (h2 : s.gpc ≠ .done)
    (h3 : s.gpc = .join → s.tpc ≠ .start) : (stepG c s).gpc ≠ s.gpc := by
  rcases s with ⟨gpc, tpc, claim, pending, tExit, timedOut, patches, stdouts, sysStdout, buf1, buf2, real, raw, out1, out2, ctxs, id1, id2, nextId, exc, feedback, excAtReturn, depthAtReturn, excBeforeNext, e2Escaped, e1Escaped⟩
  rcases c with ⟨a, b, d, e⟩
  cases gpc <;> simp_all [stepG, St.stopPatches] <;>
    first
    | (cases tpc <;> simp_all; done)
    | (cases e <;> cases tpc <;> simp; done)
    | (cases a <;> cases tpc <;> cases claim <;> simp; done)
    | (cases b <;> cases patches <;> simp; done)
    | (cases stdouts <;> simp [St.appendOutput, St.lastCtx] <;> split <;> simp; done)
    | (cases d <;> simp [St.capture]; done)
    | (cases patches <;> simp; done)
    | (cases stdouts <;> simp [St.appendOutput]; done)
    | (simp [St.write]; split <;> simp; done)

/-- and a finalizing student thread reaches its end in at most four more of its own steps -/
theorem c14_finalization_is_short (p : Prog) (s : St) (c : TChoice) (h : 3 ≤ s.tpc.rank) (hd : s.tpc ≠ .dead) :
    s.tpc.rank < (stepT fixed p s c).tpc.rank := by
  rcases s with ⟨gpc, tpc, claim, pending, tExit, timedOut, patches, stdouts, sysStdout, buf1, buf2, real, raw, out1, out2, ctxs, id1, id2, nextId, exc, feedback, excAtReturn, depthAtReturn, excBeforeNext, e2Escaped, e1Escaped⟩
  cases tpc <;> simp [TPc.rank] at h hd <;> simp [stepT, TPc.rank, St.stopPatches, St.capture]
  cases stdouts <;> cases tExit <;> simp [TPc.rank, St.appendOutput]

/-! ### what goes wrong without the protocol (the pinned tree), and what stays wrong with it -/

def busy : Prog := { prints := false, swallows := false, blocked := false }
def printer : Prog := { prints := true, swallows := false, blocked := false }
def survivingPrinter : Prog := { prints := true, swallows := true, blocked := false }

private def gs (n : Nat) : List Act := List.replicate n .g
private def ws (n : Nat) : List Act := List.replicate n (.t .work)

/-- Pinned tree, the interrupted thread runs its handler after `run()` returned: the stdout
buffer is still on the stack at return, a second runtime feedback appears and the timeout is
replaced by SystemExit before the next execution starts. -/
theorem c14_pinned_counterexample :
    ∃ sched, let s := runSched pinned busy init sched
      s.gpc = .done ∧ s.timedOut = true ∧ s.depthAtReturn = some (0, 1) ∧
      s.feedback = [(.timeout, .one), (.systemExit, .one)] ∧ s.excBeforeNext = some .systemExit :=
  ⟨ws 2 ++ gs 6 ++ ws 7 ++ gs 9, by decide⟩

/-- Pinned tree, the interrupted (printing) thread runs its handler while the NEXT execution is
running: it pops the next execution's patches and buffer, so the next execution's record holds
the abandoned thread's output and part of its own output is filed under the old execution. -/
theorem c14_pinned_late_pop :
    ∃ sched, let s := runSched pinned printer init sched
      s.gpc = .done ∧ s.out2 = [.e1] ∧ s.out1 = [.n] ∧ s.real = [.x] ∧
      s.feedback = [(.timeout, .one), (.systemExit, .two)] :=
  ⟨ws 2 ++ gs 10 ++ ws 7 ++ gs 8, by decide⟩

/-- The claim protocol with the original `terminate()` (`assert self.is_alive()`): the student
code ends right after the grader won the claim, its thread is gone when `terminate()` runs, the
AssertionError leaves `run()` with the patches still on and nothing recorded. -/
theorem c14_intolerant_terminate_escapes :
    ∃ sched, let s := runSched intolerant busy init sched
      s.e1Escaped = true ∧ s.feedback = [] ∧ s.patches = [.real] ∧ s.stdouts = [.b1] ∧ s.sysStdout = .b1 :=
  ⟨ws 2 ++ gs 2 ++ [.t .finish, .t .work] ++ gs 1, by decide⟩

/-- With the protocol in place one thing remains: a thread that swallows the termination AND
keeps printing writes into whatever `sys.stdout` currently is — the next execution's buffer. -/
theorem c14_surviving_printer_pollutes :
    ∃ sched, let s := runSched fixed survivingPrinter init sched
      s.gpc = .done ∧ s.timedOut = true ∧ s.out2 = [.n, .e1, .x] :=
  ⟨ws 2 ++ gs 12 ++ ws 2 ++ gs 8, by decide⟩

/-! ### non-vacuity: the hypotheses of the theorems are met by real schedules -/

example : (run busy (ws 2 ++ gs 8 ++ ws 7 ++ gs 9)).gpc = .done ∧
    (run busy (ws 2 ++ gs 8 ++ ws 7 ++ gs 9)).timedOut = true := by decide
-- the student thread ends between the grader's claim and `terminate()`: still exactly the timeout
example : (run busy (ws 2 ++ gs 2 ++ [.t .finish, .t .work] ++ gs 20)).gpc = .done ∧
    (run busy (ws 2 ++ gs 2 ++ [.t .finish, .t .work] ++ gs 20)).feedback = [(.timeout, .one)] ∧
    (run busy (ws 2 ++ gs 2 ++ [.t .finish, .t .work] ++ gs 20)).tpc = .dead := by decide
-- the student code ends at the bell and claims first: no timeout, the grader waits for the finalization
example : (run busy ([.t .work, .g, .t .finish, .t .work, .g, .g])).gpc = .wait := by decide
example : (run busy ([.t .work, .g, .t .raise] ++ ws 5 ++ gs 12)).feedback = [(.student, .one)] := by decide
#guard (run printer (ws 3 ++ gs 12 ++ ws 4 ++ gs 8)).out2 == [.n, .x]
#guard (run printer (ws 3 ++ gs 12 ++ ws 4 ++ gs 8)).raw == [.e1, .e1, .n, .x]

end Pedal.Timeout

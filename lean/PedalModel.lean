-- This module serves as the root of the `PedalModel` library.
-- Import modules here that should be built as part of the library.
import PedalModel.Basic

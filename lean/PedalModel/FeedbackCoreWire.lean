import PedalModel.Wire
import PedalModel.FeedbackCore
/-
Line protocol for the C20 driver: one `session` request = an oracle, a class table, and a list of
operations run against one report; the answer lists what every operation produced.
Parsing only — every function that decides anything lives in FeedbackCore*.lean.
-/
namespace Pedal.FeedbackCore.WireFC
open Pedal.Wire Pedal.FeedbackCore Pedal.Gen.FeedbackCore

abbrev P (α : Type) := List String → Option (α × List String)

def pStr : P String
  | t :: ts => (decStr t).map (·, ts)
  | [] => none

def pOptStr : P (Option String)
  | t :: ts => (decOptStr t).map (·, ts)
  | [] => none

def pNat : P Nat
  | t :: ts => t.toNat?.map (·, ts)
  | [] => none

def pBool : P Bool
  | t :: ts => (decBool t).map (·, ts)
  | [] => none

def pPair : P (String × String) := fun ts => do
  let (k, ts) ← pStr ts
  let (v, ts) ← pStr ts
  pure ((k, v), ts)

def pList {α} (p : P α) : P (List α) := fun ts => do
  let (n, ts) ← pNat ts
  takeN p n ts

def pSeg : P Seg
  | "L" :: ts => do let (s, ts) ← pStr ts; pure (.lit s, ts)
  | "F" :: ts => do
    let (n, ts) ← pStr ts
    let (a, ts) ← pStr ts
    let (c, ts) ← pStr ts
    let (s, ts) ← pStr ts
    pure (.field n a c s, ts)
  | _ => none

def pTemplate : P Template
  | "T" :: ts => pList pSeg ts
  | _ => none

def pOptTemplate : P (Option Template)
  | "-" :: ts => some (none, ts)
  | ts => (pTemplate ts).map fun (t, ts) => (some t, ts)

def pAVal : P AVal
  | "AN" :: ts => some (.none, ts)
  | "AS" :: ts => do let (s, ts) ← pStr ts; pure (.str s, ts)
  | "AK" :: ts => do let (s, ts) ← pStr ts; pure (.tok s, ts)
  | "AT" :: ts => do
    let (raw, ts) ← pStr ts
    let (t, ts) ← pTemplate ts
    pure (.tmpl raw t, ts)
  | "AF" :: ts => do let (f, ts) ← pList pPair ts; pure (.fields f, ts)
  | "AM" :: ts => do let (f, ts) ← pList pStr ts; pure (.names f, ts)
  | _ => none

def pParent : P Parent
  | "PN" :: ts => some (.none, ts)
  | "PS" :: ts => do let (s, ts) ← pStr ts; pure (.scalar s, ts)
  | "PG" :: ts => do let (n, ts) ← pNat ts; pure (.group n, ts)
  | _ => none

def pCond : P CondOutcome
  | "CD" :: ts => some (.default, ts)
  | "CT" :: ts => some (.returns true, ts)
  | "CF" :: ts => some (.returns false, ts)
  | "CE" :: ts => do let (s, ts) ← pStr ts; pure (.raises ⟨s⟩, ts)
  | _ => none

def pMsg : P MsgOutcome
  | "MD" :: ts => some (.default, ts)
  | "MR" :: ts => do let (s, ts) ← pOptStr ts; pure (.returns s, ts)
  | "ME" :: ts => do let (s, ts) ← pStr ts; pure (.raises ⟨s⟩, ts)
  | _ => none

def pOptFields : P (Option (List (String × FVal)))
  | "-" :: ts => some (none, ts)
  | "D" :: ts => do let (f, ts) ← pList pPair ts; pure (some f, ts)
  | _ => none

def pOptNames : P (Option (List String))
  | "-" :: ts => some (none, ts)
  | "M" :: ts => do let (f, ts) ← pList pStr ts; pure (some f, ts)
  | _ => none

def pSpec : P FbSpec := fun ts => do
  let (cls, ts) ← pStr ts
  let (label, ts) ← pOptStr ts
  let (title, ts) ← pOptStr ts
  let (message, ts) ← pOptStr ts
  let (mt, ts) ← pOptTemplate ts
  let (em, ts) ← pOptStr ts
  let (emt, ts) ← pOptTemplate ts
  let (just, ts) ← pOptStr ts
  let (fields, ts) ← pOptFields ts
  let (names, ts) ← pOptNames ts
  let (kwargs, ts) ← pList pPair ts
  let (activate, ts) ← pBool ts
  let (delay, ts) ← pBool ts
  let (parent, ts) ← pParent ts
  let (cond, ts) ← pCond ts
  let (msg, ts) ← pMsg ts
  pure ({ cls := cls, label := label, title := title, message := message, messageTemplate := mt,
          elseMessage := em, elseMessageTemplate := emt, justification := just, fields := fields,
          fieldNames := names, kwargs := kwargs, activate := activate, delay := delay, parent := parent,
          cond := cond, msg := msg }, ts)

def pPrim : P PrimCall
  | "Pf" :: ts => do
    let (f, ts) ← pStr ts
    let (n, ts) ← pStr ts
    let (v, ts) ← pStr ts
    let (a, ts) ← pStr ts
    let (r, ts) ← pStr ts
    pure (.fmt f n v a r, ts)
  | "Pp" :: ts => do
    let (v, ts) ← pStr ts
    let (a, ts) ← pStr ts
    let (r, ts) ← pStr ts
    pure (.plain v a r, ts)
  | "Pc" :: ts => do
    let (c, ts) ← pStr ts
    let (v, ts) ← pStr ts
    let (a, ts) ← pStr ts
    let (r, ts) ← pStr ts
    pure (.conv c v a r, ts)
  | _ => none

def pOutcome : P (Except Exc String)
  | "O" :: ts => do let (s, ts) ← pStr ts; pure (.ok s, ts)
  | "E" :: ts => do let (s, ts) ← pStr ts; pure (.error ⟨s⟩, ts)
  | _ => none

def pEntry : P (PrimCall × Except Exc String) := fun ts => do
  let (c, ts) ← pPrim ts
  let (o, ts) ← pOutcome ts
  pure ((c, o), ts)

/-- private-use delimiters of the symbolic tags -/
def tagOpen : String := String.singleton (Char.ofNat 0xE000)
def tagSep : String := String.singleton (Char.ofNat 0xE001)
def tagClose : String := String.singleton (Char.ofNat 0xE002)

def tagOf : PrimCall → String
  | .fmt f n v a r => tagOpen ++ "f" ++ tagSep ++ f ++ tagSep ++ n ++ tagSep ++ v ++ tagSep ++ a ++ tagSep ++ r ++ tagClose
  | .plain v a r => tagOpen ++ "p" ++ tagSep ++ v ++ tagSep ++ a ++ tagSep ++ r ++ tagClose
  | .conv c v a r => tagOpen ++ "c" ++ tagSep ++ c ++ tagSep ++ v ++ tagSep ++ a ++ tagSep ++ r ++ tagClose

/-- phase 1: every primitive "succeeds", returning a tag naming the call -/
def symbolicOracle : Oracle := fun c => .ok (tagOf c)

/-- phase 2: the outcomes the harness obtained from the real primitives; a call outside the table is
    answered with an exception class no real code raises, so it can only show up as a disagreement -/
def tableOracle (tab : List (PrimCall × Except Exc String)) : Oracle := fun c =>
  match tab.lookup c with
  | some r => r
  | none => .error ⟨"OracleMissing"⟩

structure ClassDecl where
  name : String
  mro : List String
  attrs : List (String × AVal)

def pAttr : P (String × AVal) := fun ts => do
  let (a, ts) ← pStr ts
  let (v, ts) ← pAVal ts
  pure ((a, v), ts)

def pClass : P ClassDecl := fun ts => do
  let (name, ts) ← pStr ts
  let (mro, ts) ← pList pStr ts
  let (attrs, ts) ← pList pAttr ts
  pure ({ name := name, mro := mro, attrs := attrs }, ts)

def mkStore (cs : List ClassDecl) : Store :=
  { mro := fun c => match cs.find? (fun d => d.name == c) with
      | some d => d.mro
      | none => [c]
    own := fun c a => match cs.find? (fun d => d.name == c) with
      | some d => d.attrs.lookup a
      | none => none
    backups := fun _ => none
    overridden := [] }

inductive SOp where
  | new (sp : FbSpec)
  | handle (id : Nat)
  | override (c : String) (fs : List (String × AVal))
  | clear
  | start (p : Parent)
  | stop (p : Parent)
  | setAvail (f : String) (a : Option (List String))
  | probe (c a : String)

def pAvail : P (Option (List String))
  | "gen" :: ts => some (none, ts)
  | ts => (pList pStr ts).map fun (l, ts) => (some l, ts)

def pOp : P SOp
  | "new" :: ts => do let (sp, ts) ← pSpec ts; pure (.new sp, ts)
  | "handle" :: ts => do let (n, ts) ← pNat ts; pure (.handle n, ts)
  | "override" :: ts => do
    let (c, ts) ← pStr ts
    let (fs, ts) ← pList pAttr ts
    pure (.override c fs, ts)
  | "clear" :: ts => some (.clear, ts)
  | "start" :: ts => do let (p, ts) ← pParent ts; pure (.start p, ts)
  | "stop" :: ts => do let (p, ts) ← pParent ts; pure (.stop p, ts)
  | "setavail" :: ts => do
    let (f, ts) ← pStr ts
    let (a, ts) ← pAvail ts
    pure (.setAvail f a, ts)
  | "probe" :: ts => do
    let (c, ts) ← pStr ts
    let (a, ts) ← pStr ts
    pure (.probe c a, ts)
  | _ => none

def encOpt (o : Option String) : String := encOptStr o

def encExc : Option Exc → String
  | none => "-"
  | some e => encStr e.cls

def encParent : Parent → String
  | .none => "PN"
  | .scalar s => "PS" ++ encStr s
  | .group g => "PG" ++ toString g

def encFields (fs : List (String × FVal)) : String :=
  ",".intercalate (fs.map fun (k, v) => encStr k ++ ":" ++ encStr v)

/-- every primitive call any of the object's templates could make (harness bookkeeping for the
    two-phase oracle: which real primitives to evaluate) -/
def callsOf (F : String) (avail : List String) (st : Store) (o : FbObj) : List PrimCall :=
  let one (t : Option Template) : List PrimCall :=
    (t.getD []).filterMap fun
      | .lit _ => none
      | .field n a c s => (o.fields.lookup n).map fun v => primOf F avail v a c s
  one (o.messageTemplate st) ++ one (o.elseMessageTemplate st) ++ one (o.justificationTemplate st)

def encCalls (F : String) (avail : List String) (st : Store) (o : FbObj) : String :=
  encStr (String.join ((callsOf F avail st o).map tagOf))

def encObj (st : Store) (a : Answer) : String :=
  let o := a.obj
  s!"fb id={o.id} met={encBool o.met} status={o.status.text} raised={encExc a.raised} message={encOpt (o.message st)} else={encOpt (o.elseMessage st)} unused={encOpt o.unusedMessage} just={encOpt (o.justification st)} title={encOpt (o.title st)} label={encStr o.label} parent={encParent o.parent} fields={encFields o.fields}"

def encAVal : Option AVal → String
  | none => "pv -"
  | some .none => "pv N"
  | some (.str s) => "pv S" ++ encStr s
  | some (.tok s) => "pv K" ++ encStr s
  | some (.tmpl raw _) => "pv T" ++ encStr raw
  | some (.fields f) => "pv F" ++ encFields f
  | some (.names f) => "pv M" ++ ",".intercalate (f.map encStr)

/-- `Report.clear()` as far as this model's world goes: both lists, the group stack, a fresh default
    formatter, and the overridden classes restored. -/
def clearWorld (w : World) : World :=
  { w with store := w.store.clear, feedback := [], ignored := [], groups := [], fmtId := "default", avail := available }

structure Sess where
  w : World
  objs : List (Nat × FbObj)
  out : List String

def stepOp (O : Oracle) (s : Sess) : SOp → Sess
  | .new sp =>
    let (w', a) := construct O s.w sp
    { w := w', objs := (a.obj.id, a.obj) :: s.objs,
      out := (encObj w'.store a ++ " calls=" ++ encCalls s.w.fmtId s.w.avail w'.store a.obj) :: s.out }
  | .handle id =>
    match s.objs.lookup id with
    | none => { s with out := "nohandle" :: s.out }
    | some o =>
      let (w', a) := handle O s.w o
      { w := w', objs := (id, a.obj) :: s.objs,
        out := (encObj w'.store a ++ " calls=" ++ encCalls s.w.fmtId s.w.avail w'.store a.obj) :: s.out }
  | .override c fs =>
    let (st, e) := s.w.store.override c fs
    { s with w := { s.w with store := st }, out := ("ov raised=" ++ encExc e) :: s.out }
  | .clear => { s with w := clearWorld s.w, out := "ok" :: s.out }
  | .start p => { s with w := startGroup s.w p, out := "ok" :: s.out }
  | .stop p => { s with w := stopGroup s.w p, out := "ok" :: s.out }
  | .setAvail f a => { s with w := { s.w with fmtId := f, avail := a.getD available }, out := "ok" :: s.out }
  | .probe c a => { s with out := encAVal (s.w.store.lookup c a) :: s.out }

def encIds (l : List Nat) : String := ",".intercalate (l.map toString)

def handleSession (ts : List String) : String :=
  match (do
    let (mode, ts) ← (match ts with | m :: ts => some (m, ts) | [] => none)
    let (tab, ts) ← pList pEntry ts
    let (classes, ts) ← pList pClass ts
    let (ops, ts) ← pList pOp ts
    if ts.isEmpty then pure (mode, tab, classes, ops) else none) with
  | none => "bad-request"
  | some (mode, tab, classes, ops) =>
    if mode ≠ "sym" ∧ mode ≠ "tab" then "bad-request" else
    let O : Oracle := if mode = "sym" then symbolicOracle else tableOracle tab
    let w0 : World := { store := mkStore classes, fmtId := "default", avail := available, feedback := [], ignored := [],
                        groups := [], childLog := [], nextId := 0 }
    let s := ops.foldl (stepOp O) { w := w0, objs := [], out := [] }
    let log := ",".intercalate (s.w.childLog.map fun (g, i, b) => s!"{g}:{i}:{encBool b}")
    " ; ".intercalate s.out.reverse ++
      s!" ; end feedback={encIds s.w.feedback} ignored={encIds s.w.ignored} childlog={log}"

/-- `dispatch <n> <names...> <spec>` (or `dispatch gen <spec>`): which formatter a spec selects. -/
def handleDispatch (ts : List String) : String :=
  match (do
    let (a, ts) ← pAvail ts
    let (spec, ts) ← pStr ts
    if ts.isEmpty then pure (a.getD available, spec) else none) with
  | none => "bad-request"
  | some (a, spec) =>
    match dispatch a spec with
    | none => "plain"
    | some (n, rest) => s!"fmt name={encStr n} rest={encStr rest}"

end Pedal.FeedbackCore.WireFC

import PedalModel.Gen.TypeTables
/-
C19 — executable model of TIFA's operator typing and of pedal's value typing.

Modelled code:
* `apply_binary_operation` + the generated `VALID_BINOP_TYPES` (pedal/types/operations.py),
* `visit_BinOp` / `visit_Compare` (pedal/tifa/tifa_visitor.py): when `incompatible_types` is issued,
* `is_subtype` and the `is_subtype` methods of the type classes, including the shared `seen` set
  (pedal/types/new_types.py),
* `get_pedal_type_from_value`, `widen_type`, `widest_type` (pedal/types/normalize.py, new_types.py),
* `normalize_type(type(v)).as_type()` for the builtin classes (`normForm`).
-/
namespace Pedal.Types
open Pedal.Gen.Types

/-! ### pedal types -/

mutual
inductive Ty
  | any | impossible | none | num | int | float | bool | str
  | litInt | litFloat | litBool | litStr
  | list (empty : Bool) (elem : Ty)
  | set (empty : Bool) (elem : Ty)
  | fset (empty : Bool) (elem : Ty)
  | tuple (elems : TyList)
  | dict (items : TyPairs)
  | other (name : String)          -- anything else (function types, unions, raw Python objects): opaque
inductive TyList
  | nil
  | cons (head : Ty) (tail : TyList)
inductive TyPairs
  | nil
  | cons (key value : Ty) (tail : TyPairs)
end

instance : Inhabited Ty := ⟨.any⟩

def TyList.append : TyList → TyList → TyList
  | .nil, ys => ys
  | .cons x xs, ys => .cons x (xs.append ys)

def TyList.ofList : List Ty → TyList
  | [] => .nil
  | x :: xs => .cons x (ofList xs)

def TyPairs.ofList : List (Ty × Ty) → TyPairs
  | [] => .nil
  | (k, v) :: xs => .cons k v (ofList xs)

/-- `type(t)` -/
def keyOf : Ty → Key
  | .any => .any | .impossible => .impossible | .none => .none | .num => .num | .int => .int | .float => .float
  | .bool => .bool | .str => .str | .litInt => .litInt | .litFloat => .litFloat | .litBool => .litBool
  | .litStr => .litStr | .list _ _ => .list | .set _ _ => .set | .fset _ _ => .fset | .tuple _ => .tuple
  | .dict _ => .dict | .other n => .other n

/-- `t.promote() if isinstance(t, LiteralValue) else t` -/
def promote : Ty → Ty
  | .litInt => .int | .litFloat => .float | .litBool => .bool | .litStr => .str
  | t => t

/-- `t.is_empty` (class default `False`; containers carry a flag; tuples and dicts derive it) -/
def isEmpty : Ty → Bool
  | .list e _ => e | .set e _ => e | .fset e _ => e
  | .tuple .nil => true
  | .dict .nil => true
  | _ => false

/-! ### binary operators -/

def lookupBinop (op : BinOp) (l r : Key) : Option ResFn :=
  (binopTable.find? (fun row => row.1 == op && row.2.1 == l && row.2.2.1 == r)).map (·.2.2.2)

/-- calling the result function of a cell on the (promoted) operand types -/
def applyFn : ResFn → Ty → Ty → Ty
  | .numAny, _, _ => .num
  | .intAny, _, _ => .int
  | .floatAny, _, _ => .float
  | .strAny, _, _ => .str
  | .boolAny, _, _ => .bool
  | .keepLeft, l, _ => l
  | .keepRight, _, r => r
  | .addContainers, l, r => if isEmpty l then r else l
  | .addTuples, .tuple xs, .tuple ys => .tuple (xs.append ys)
  | .addTuples, _, _ => .other "error"
  | .unknown n, _, _ => .other n

def isAny : Ty → Bool | .any => true | _ => false

/-- `apply_binary_operation(op, left, right)` -/
def applyBinary (op : BinOp) (l r : Ty) : Ty :=
  if isAny l then r
  else if isAny r then l
  else
    let l' := promote l
    let r' := promote r
    match lookupBinop op (keyOf l') (keyOf r') with
    | some fn => applyFn fn l' r'
    | none => .impossible

def isImpossible : Ty → Bool
  | .impossible => true
  | _ => false

/-! ### is_subtype, with the `seen` set

`seen` holds object identities.  Types built from values are trees of fresh objects, so the only objects that can be
met twice in one query are the class-level parent instances every literal / numeric type shares:
`LiteralInt.parents[0]` (an IntType), `LiteralFloat.parents[0]`, `LiteralBool.parents[0]`, and the NumType
instances in `IntType.parents` / `FloatType.parents`.  One flag each. -/
structure Seen where
  pInt : Bool := false      -- LiteralInt.parents[0]
  pFloat : Bool := false    -- LiteralFloat.parents[0]
  pBool : Bool := false     -- LiteralBool.parents[0]
  nInt : Bool := false      -- IntType.parents[0]
  nFloat : Bool := false    -- FloatType.parents[0]
  deriving DecidableEq, Repr

/-- `IntType.parents[0].is_subtype(other, seen)` (a NumType instance, `Type.is_subtype`) -/
def numUnderInt (other : Ty) (s : Seen) : Bool × Seen :=
  if isAny other then (true, s)
  else if keyOf other = .num then (true, s)
  else if s.nInt then (true, s)
  else (false, { s with nInt := true })

def numUnderFloat (other : Ty) (s : Seen) : Bool × Seen :=
  if isAny other then (true, s)
  else if keyOf other = .num then (true, s)
  else if s.nFloat then (true, s)
  else (false, { s with nFloat := true })

/-- `IntType.is_subtype` on an IntType instance; `shared` = it is `LiteralInt.parents[0]` -/
def intObj (shared : Bool) (other : Ty) (s : Seen) : Bool × Seen :=
  if keyOf other = .litInt then (true, s)
  else if isAny other then (true, s)
  else if keyOf other = .int then (true, s)
  else if shared && s.pInt then (true, s)
  else numUnderInt other (if shared then { s with pInt := true } else s)

def floatObj (shared : Bool) (other : Ty) (s : Seen) : Bool × Seen :=
  if keyOf other = .litFloat then (true, s)
  else if isAny other then (true, s)
  else if keyOf other = .float then (true, s)
  else if shared && s.pFloat then (true, s)
  else numUnderFloat other (if shared then { s with pFloat := true } else s)

def boolObj (shared : Bool) (other : Ty) (s : Seen) : Bool × Seen :=
  if keyOf other = .litBool then (true, s)
  else if isAny other then (true, s)
  else if keyOf other = .bool then (true, s)
  else if shared && s.pBool then (true, s)
  else (false, if shared then { s with pBool := true } else s)

/-- `TyPairs.any f` — `any(f(k, v) for k, v in pairs)` -/
def TyPairs.anyP (f : Ty → Ty → Bool) : TyPairs → Bool
  | .nil => false
  | .cons k v rest => f k v || rest.anyP f

mutual
/-- `self.is_subtype(other, seen)` -/
def isSub : Ty → Ty → Seen → Bool × Seen
  | .any, _, s => (true, s)
  | .impossible, o, s => (isAny o || keyOf o = .impossible, s)
  | .none, o, s => (isAny o || keyOf o = .none, s)
  | .num, o, s => (isAny o || keyOf o = .num, s)
  | .int, o, s => intObj false o s
  | .float, o, s => floatObj false o s
  | .bool, o, s => boolObj false o s
  | .str, o, s => (keyOf o = .litStr || isAny o || keyOf o = .str, s)
  | .litInt, o, s => if isAny o || keyOf o = .litInt then (true, s) else intObj true o s
  | .litFloat, o, s => if isAny o || keyOf o = .litFloat then (true, s) else floatObj true o s
  | .litBool, o, s => if keyOf o = .litBool || isAny o then (true, s) else boolObj true o s
  | .litStr, o, s => (keyOf o = .litStr || isAny o || keyOf o = .str, s)
  | .list _ e, o, s =>
    match o with
    | .any => (true, s)
    | .list _ e' => isSub e e' s
    | _ => (false, s)
  | .set _ e, o, s =>
    match o with
    | .any => (true, s)
    | .set _ e' => isSub e e' s
    | _ => (false, s)
  | .fset _ e, o, s =>
    match o with
    | .any => (true, s)
    | .fset _ e' => isSub e e' s
    | _ => (false, s)
  | .tuple xs, o, s =>
    match o with
    | .any => (true, s)
    | .tuple ys => isSubAll xs ys s
    | _ => (false, s)
  | .dict items, o, s =>
    match o with
    | .any => (true, s)
    | .dict others => (dictAll items others s, s)
    | _ => (false, s)
  | .other n, o, s => (isAny o || keyOf o = .other n, s)
/-- `all(e.is_subtype(e2, seen) for e, e2 in zip(xs, ys))`, lazily, one shared `seen` -/
def isSubAll : TyList → TyList → Seen → Bool × Seen
  | .cons x xs, .cons y ys, s =>
    match isSub x y s with
    | (true, s') => isSubAll xs ys s'
    | (false, s') => (false, s')
  | _, _, s => (true, s)
/-- `all(any(k.is_subtype(ok, seen.copy()) and v.is_subtype(ov, seen.copy()) for ok, ov in others) for k, v in items)` -/
def dictAll : TyPairs → TyPairs → Seen → Bool
  | .nil, _, _ => true
  | .cons k v rest, others, s =>
    others.anyP (fun ok ov => (isSub k ok s).1 && (isSub v ov s).1) && dictAll rest others s
end

/-- `is_subtype(left, right)` : a fresh `seen` per query -/
def isSubtype (l r : Ty) : Bool := (isSub l r {}).1

/-! ### the Compare rule -/

def TyList.anyL (f : Ty → Bool) : TyList → Bool
  | .nil => false
  | .cons x xs => f x || xs.anyL f

/-- `container.allows_membership(key)` -/
def allowsMembership (container key : Ty) : Bool :=
  match container with
  | .any => true
  | .str | .litStr => isSubtype key .str
  | .list _ e | .set _ e | .fset _ e => isSubtype key e
  | .tuple xs => xs.anyL (fun t => isSubtype key t)
  | .dict items => items.anyP (fun k _ => isSubtype key k)
  | _ => false

/-- does `visit_Compare` issue `incompatible_types` for `left <op> right` -/
def compareFlags (op : CmpOp) (l r : Ty) : Bool :=
  match op with
  | .eq | .noteq | .is | .isnot => false
  | .lt | .lte | .gt | .gte => !(orderable.contains (keyOf l, keyOf r))
  | .in | .notin => !(allowsMembership r l)
  | .unknown _ => true

/-! ### expressions -/

inductive Expr
  | leaf (cls : Cls) (ty : Ty)                 -- a variable holding a value of run-time class `cls`, typed `ty` by TIFA
  | node (op : Op) (l r : Expr)

/-- the type `visit_BinOp` / `visit_Compare` return -/
def resultTy : Op → Ty → Ty → Ty
  | .bin o, l, r => applyBinary o l r
  | .cmp _, _, _ => .bool

/-- is `incompatible_types` issued at this node -/
def flagged : Op → Ty → Ty → Bool
  | .bin o, l, r => isImpossible (applyBinary o l r)
  | .cmp o, l, r => compareFlags o l r

/-- TIFA on an expression: (inferred type, was `incompatible_types` issued anywhere) -/
def infer : Expr → Ty × Bool
  | .leaf _ ty => (ty, false)
  | .node op l r =>
    ((resultTy op (infer l).1 (infer r).1), (infer l).2 || (infer r).2 || flagged op (infer l).1 (infer r).1)

/-! ### values and their types -/

mutual
inductive Val
  | none
  | bool (b : Bool)
  | int (i : Int)
  | float
  | str
  | list (xs : ValList)
  | tuple (xs : ValList)
  | set (xs : ValList)          -- in iteration order
  | dict (items : ValPairs)     -- in insertion order
inductive ValList
  | nil
  | cons (head : Val) (tail : ValList)
inductive ValPairs
  | nil
  | cons (key value : Val) (tail : ValPairs)
end

/-- `widen_type(left, right)` -/
def widen (l r : Ty) : Option Ty :=
  if isSubtype r l && !isSubtype l r then some l
  else if isSubtype l r then some r
  else none

/-- `widest_type(types)` for a non-empty list given as head and tail -/
def widestFrom (first : Ty) : List Ty → Option Ty
  | [] => some first
  | t :: ts =>
    match widen first t with
    | some w => widestFrom w ts
    | none => none

def widest : List Ty → Option Ty
  | [] => none
  | t :: ts => widestFrom t ts

def isLiteral : Ty → Bool
  | .litInt | .litFloat | .litBool | .litStr => true
  | _ => false

/-- the element type `get_pedal_type_from_value` gives a non-empty list / set -/
def elementType (ts : List Ty) : Ty :=
  match widest ts with
  | some w => w
  | none => ts.headD .any

/-- the DictType built from the (key type, value type) items -/
def dictType (items : List (Ty × Ty)) : Ty :=
  if items.isEmpty then .dict .nil
  else if items.all (fun kv => isLiteral kv.1) then .dict (TyPairs.ofList items)
  else
    match widest (items.map (·.1)), widest (items.map (·.2)) with
    | some k, some v => .dict (.cons k v .nil)
    | _, _ => .dict (TyPairs.ofList items)

mutual
/-- `get_pedal_type_from_value` -/
def typeOf : Val → Ty
  | .none => .none
  | .bool _ => .litBool
  | .int _ => .litInt
  | .float => .litFloat
  | .str => .litStr
  | .tuple xs => .tuple (TyList.ofList (typesOf xs))
  | .list xs => match typesOf xs with
    | [] => .list true .any
    | ts => .list false (elementType ts)
  | .set xs => match typesOf xs with
    | [] => .set true .any
    | ts => .set false (elementType ts)
  | .dict items => dictType (pairTypes items)
def typesOf : ValList → List Ty
  | .nil => []
  | .cons x xs => typeOf x :: typesOf xs
def pairTypes : ValPairs → List (Ty × Ty)
  | .nil => []
  | .cons k v rest => (typeOf k, typeOf v) :: pairTypes rest
end

/-- `normalize_type(type(v)).as_type()` : the normalised form of the value's own Python type -/
def normForm : Val → Ty
  | .none => .none
  | .bool _ => .bool
  | .int _ => .int
  | .float => .float
  | .str => .str
  | .list _ => .list false .any
  | .tuple _ => .tuple .nil
  | .set _ => .set false .any
  | .dict _ => .dict (.cons .any .any .nil)

end Pedal.Types

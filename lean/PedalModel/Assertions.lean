/-
C07 — model of pedal's runtime assertions (pedal/assertions/runtime.py, feedbacks.py,
utilities/comparisons.py, commands.unit_test).

* `PyVal`: the value universe (no NaN/inf, no user-defined `__eq__`/`__lt__`; floats are dyadic
  rationals `m * 2^-k`, strings are lists of code points).
* the Python relations the assertion conditions use: `pyEq`, `pyCmp` (four-valued: sets are only
  partially ordered), `pyIn`, `pyLen`, `truthy`, `pyIsInstance`, `pyIs`, and pedal's own
  `equality_test` (`eqTest`).  These are the *trusted* part: they say what CPython does and are
  validated by the differential correspondence on every run.
* `CondExpr`: the expression language into which `harness/translate_assertions.py` translates the body
  of every `condition` method (PedalModel/Gen/AssertionConds.lean); `eval` interprets it.
* `outcome`: the guard `RuntimeAssertionFeedback.__init__` puts around the condition.
* `Group`: the counting done by `assert_group` / `unit_test`.

Core Lean only (the driver links this file).
-/
namespace Pedal.Assertions

/-! ## Values -/

inductive TyTag
  | int | float | bool | str | list | tuple | set | dict | noneType | object | exception | type | other
  deriving DecidableEq, Repr, Inhabited

inductive PyVal
  | none
  | bool (b : Bool)
  | int (i : Int)
  | flt (m : Int) (k : Nat)            -- m * 2^-k
  | str (s : List Nat)                 -- code points
  | list (xs : List PyVal)
  | tuple (xs : List PyVal)
  | set (xs : List PyVal)              -- iteration order; elements pairwise distinct (harness invariant)
  | dict (ks : List PyVal) (vs : List PyVal)   -- insertion order, same length (harness invariant)
  | typ (t : TyTag)
  | exc (id : Nat)                     -- an exception instance (compared by identity)
  | obj (id : Nat)                     -- an instance of a plain class (compared by identity)
  deriving Repr, Inhabited

inductive Err
  | raised        -- CPython raises (TypeError, KeyError, AttributeError, ... — the kind is never observed)
  | unmodelled    -- outside the modelled universe: the driver reports it, nothing is compared
  deriving DecidableEq, Repr, Inhabited

/-- Four-valued comparison result: `un` = neither `<`, `==` nor `>` (incomparable sets). -/
inductive Ord4
  | lt | eq | gt | un
  deriving DecidableEq, Repr, Inhabited

abbrev Res (α : Type) := Except Err α

instance {α} [DecidableEq α] : DecidableEq (Res α) := fun a b =>
  match a, b with
  | .ok x, .ok y => if h : x = y then isTrue (by rw [h]) else isFalse (by intro e; cases e; exact h rfl)
  | .error x, .error y => if h : x = y then isTrue (by rw [h]) else isFalse (by intro e; cases e; exact h rfl)
  | .ok _, .error _ => isFalse (by intro e; cases e)
  | .error _, .ok _ => isFalse (by intro e; cases e)

/-! ## Numbers (bool ⊂ int, float as dyadic) -/

/-- `(m, k)` stands for `m * 2^-k`. -/
def num? : PyVal → Option (Int × Nat)
  | .bool b => some (if b then 1 else 0, 0)
  | .int i => some (i, 0)
  | .flt m k => some (m, k)
  | _ => none

def isFloat : PyVal → Bool
  | .flt _ _ => true
  | _ => false

def numCmp (a b : Int × Nat) : Ord4 :=
  let x := a.1 * (2 : Int) ^ b.2
  let y := b.1 * (2 : Int) ^ a.2
  if x < y then .lt else if x = y then .eq else .gt

def numEq (a b : Int × Nat) : Bool := a.1 * (2 : Int) ^ b.2 == b.1 * (2 : Int) ^ a.2

/-- `abs(a - b) < d`, exactly. -/
def numClose (a b d : Int × Nat) : Bool :=
  ((a.1 * (2 : Int) ^ b.2 - b.1 * (2 : Int) ^ a.2).natAbs : Int) * (2 : Int) ^ d.2 < d.1 * (2 : Int) ^ (a.2 + b.2)

/-! ## Strings -/

def strCmp : List Nat → List Nat → Ord4
  | [], [] => .eq
  | [], _ :: _ => .lt
  | _ :: _, [] => .gt
  | a :: as, b :: bs => if a < b then .lt else if b < a then .gt else strCmp as bs

def isPrefix : List Nat → List Nat → Bool
  | [], _ => true
  | _ :: _, [] => false
  | a :: as, b :: bs => a == b && isPrefix as bs

/-- `needle in haystack` for two `str`. -/
def isSubstr (n : List Nat) : List Nat → Bool
  | [] => n.isEmpty
  | h :: hs => isPrefix n (h :: hs) || isSubstr n hs

def lowerC (c : Nat) : Nat := if 65 ≤ c ∧ c ≤ 90 then c + 32 else c

/-- `string.punctuation` -/
def isPunct (c : Nat) : Bool := (33 ≤ c && c ≤ 47) || (58 ≤ c && c ≤ 64) || (91 ≤ c && c ≤ 96) || (123 ≤ c && c ≤ 126)

/-- ASCII characters `str.split()` treats as whitespace. -/
def isSpace (c : Nat) : Bool := c == 32 || (9 ≤ c && c ≤ 13) || (28 ≤ c && c ≤ 31)

def isAscii (s : List Nat) : Bool := s.all (· < 128)

/-- `s.split("\n")` -/
def splitLines : List Nat → List (List Nat)
  | [] => [[]]
  | c :: cs =>
    match splitLines cs with
    | [] => [[]]      -- unreachable
    | l :: ls => if c == 10 then [] :: l :: ls else (c :: l) :: ls

/-- `s.split()`: maximal runs of non-whitespace. -/
def splitWords : List Nat → List (List Nat)
  | [] => []
  | c :: cs =>
    if isSpace c then splitWords cs
    else match cs with
      | [] => [[c]]
      | d :: _ =>
        if isSpace d then [c] :: splitWords cs
        else match splitWords cs with
          | [] => [[c]]   -- unreachable
          | w :: ws => (c :: w) :: ws

def wordsLe : List (List Nat) → List (List Nat) → Bool
  | [], _ => true
  | _ :: _, [] => false
  | a :: as, b :: bs =>
    match strCmp a b with
    | .lt => true
    | .gt => false
    | _ => wordsLe as bs

def insertLine (l : List (List Nat)) : List (List (List Nat)) → List (List (List Nat))
  | [] => [l]
  | m :: ms => if wordsLe l m then l :: m :: ms else m :: insertLine l ms

def sortLines : List (List (List Nat)) → List (List (List Nat))
  | [] => []
  | l :: ls => insertLine l (sortLines ls)

/-- `_normalize_string` (numeric_endings=False): lower-case, punctuation → blank, split into lines,
    lines into words, drop empty lines, sort. -/
def normStr (s : List Nat) : List (List (List Nat)) :=
  let t := (s.map lowerC).map (fun c => if isPunct c then 32 else c)
  sortLines (((splitLines t).map splitWords).filter (fun l => !l.isEmpty))

/-! ## `==`, `<`, `in` -/

mutual
/-- Python `a == b` on the modelled universe (never raises). -/
def pyEq : PyVal → PyVal → Bool
  | .none, .none => true
  | .str a, .str b => a == b
  | .list xs, .list ys => pyEqList xs ys
  | .tuple xs, .tuple ys => pyEqList xs ys
  | .set xs, .set ys => xs.length == ys.length && pyAllMem xs ys
  | .dict ks vs, .dict ks2 vs2 => ks.length == ks2.length && dictSub ks vs ks2 vs2
  | .typ s, .typ t => s == t
  | .exc i, .exc j => i == j
  | .obj i, .obj j => i == j
  | a, b =>
    match num? a, num? b with
    | some x, some y => numEq x y
    | _, _ => false
termination_by a b => sizeOf a + sizeOf b
def pyEqList : List PyVal → List PyVal → Bool
  | [], [] => true
  | x :: xs, y :: ys => pyEq x y && pyEqList xs ys
  | _, _ => false
termination_by a b => sizeOf a + sizeOf b
/-- `x in ys` by `==`. -/
def pyMem (x : PyVal) : List PyVal → Bool
  | [] => false
  | y :: ys => pyEq x y || pyMem x ys
termination_by ys => sizeOf x + sizeOf ys
def pyAllMem : List PyVal → List PyVal → Bool
  | [], _ => true
  | x :: xs, ys => pyMem x ys && pyAllMem xs ys
termination_by a b => sizeOf a + sizeOf b
/-- every `(k, v)` of the first dict is in the second. -/
def dictSub : List PyVal → List PyVal → List PyVal → List PyVal → Bool
  | k :: ks, v :: vs, ks2, vs2 => dictHas k v ks2 vs2 && dictSub ks vs ks2 vs2
  | _, _, _, _ => true
termination_by a b c d => sizeOf a + sizeOf b + sizeOf c + sizeOf d
def dictHas (k v : PyVal) : List PyVal → List PyVal → Bool
  | k2 :: ks2, v2 :: vs2 => (pyEq k k2 && pyEq v v2) || dictHas k v ks2 vs2
  | _, _ => false
termination_by c d => sizeOf k + sizeOf v + sizeOf c + sizeOf d
end

mutual
/-- Python's rich comparison folded into one four-valued answer; raises for unorderable operands. -/
def pyCmp : PyVal → PyVal → Res Ord4
  | .str a, .str b => .ok (strCmp a b)
  | .list xs, .list ys => pyCmpList xs ys
  | .tuple xs, .tuple ys => pyCmpList xs ys
  | .set xs, .set ys =>
    .ok (match pyAllMem xs ys, pyAllMem ys xs with
      | true, true => .eq
      | true, false => .lt
      | false, true => .gt
      | false, false => .un)
  | a, b =>
    match num? a, num? b with
    | some x, some y => .ok (numCmp x y)
    | _, _ => .error .raised
termination_by a b => sizeOf a + sizeOf b
/-- list/tuple comparison: the first pair that is not `==` decides, else the lengths. -/
def pyCmpList : List PyVal → List PyVal → Res Ord4
  | [], [] => .ok .eq
  | [], _ :: _ => .ok .lt
  | _ :: _, [] => .ok .gt
  | x :: xs, y :: ys => if pyEq x y then pyCmpList xs ys else pyCmp x y
termination_by a b => sizeOf a + sizeOf b
end

def ord4Test : String → Ord4 → Bool
  | "lt", o => o == .lt
  | "le", o => o == .lt || o == .eq
  | "gt", o => o == .gt
  | "ge", o => o == .gt || o == .eq
  | _, _ => false

mutual
def hashable : PyVal → Bool
  | .list _ => false
  | .set _ => false
  | .dict _ _ => false
  | .tuple xs => hashableList xs
  | _ => true
def hashableList : List PyVal → Bool
  | [] => true
  | x :: xs => hashable x && hashableList xs
end

/-- `needle in haystack` for raw operands. -/
def pyIn (needle hay : PyVal) : Res Bool :=
  match hay with
  | .str h =>
    match needle with
    | .str n => .ok (isSubstr n h)
    | _ => .error .raised
  | .list xs => .ok (pyMem needle xs)
  | .tuple xs => .ok (pyMem needle xs)
  | .set xs =>
    match needle with
    | .set _ => .ok false          -- looked up as a frozenset; the universe has none
    | _ => if hashable needle then .ok (pyMem needle xs) else .error .raised
  | .dict ks _ => if hashable needle then .ok (pyMem needle ks) else .error .raised
  | _ => .error .raised

/-- `list(iter(v))` -/
def pyIter : PyVal → Res (List PyVal)
  | .str s => .ok (s.map fun c => .str [c])
  | .list xs => .ok xs
  | .tuple xs => .ok xs
  | .set xs => .ok xs
  | .dict ks _ => .ok ks
  | _ => .error .raised

/-- `all(n in hay for n in ns)` with Python's short circuit. -/
def allInList (hay : PyVal) : List PyVal → Res Bool
  | [] => .ok true
  | n :: ns =>
    match pyIn n hay with
    | .error e => .error e
    | .ok false => .ok false
    | .ok true => allInList hay ns

def pyAllIn (needles hay : PyVal) : Res Bool :=
  match pyIter needles with
  | .error e => .error e
  | .ok ns => allInList hay ns

def pyLen : PyVal → Res Int
  | .str s => .ok (Int.ofNat s.length)
  | .list xs => .ok (Int.ofNat xs.length)
  | .tuple xs => .ok (Int.ofNat xs.length)
  | .set xs => .ok (Int.ofNat xs.length)
  | .dict ks _ => .ok (Int.ofNat ks.length)
  | _ => .error .raised

def truthy : PyVal → Bool
  | .none => false
  | .bool b => b
  | .int i => i != 0
  | .flt m _ => m != 0
  | .str s => !s.isEmpty
  | .list xs => !xs.isEmpty
  | .tuple xs => !xs.isEmpty
  | .set xs => !xs.isEmpty
  | .dict ks _ => !ks.isEmpty
  | _ => true

def tyOf : PyVal → TyTag
  | .none => .noneType
  | .bool _ => .bool
  | .int _ => .int
  | .flt _ _ => .float
  | .str _ => .str
  | .list _ => .list
  | .tuple _ => .tuple
  | .set _ => .set
  | .dict _ _ => .dict
  | .typ _ => .type
  | .exc _ => .exception
  | .obj _ => .other

def subTy (a b : TyTag) : Bool := a == b || b == .object || (a == .bool && b == .int)

/-- `isinstance(v, c)` for `c` a class or a flat tuple of classes. -/
def isinstanceAny (v : PyVal) : List PyVal → Res Bool
  | [] => .ok false
  | .typ t :: cs => if subTy (tyOf v) t then .ok true else isinstanceAny v cs
  | .tuple _ :: _ => .error .unmodelled
  | _ :: _ => .error .raised

def pyIsInstance (v c : PyVal) : Res Bool :=
  match c with
  | .typ t => .ok (subTy (tyOf v) t)
  | .tuple cs => isinstanceAny v cs
  | _ => .error .raised

/-! ## pedal's `equality_test(actual, expected, _exact_strings, _delta)` -/

def isIntOrFloat (v : PyVal) : Bool := (num? v).isSome

/-- Three-way merge for the value loop of the dict branch: Python iterates `set(expected.keys())`
    in hash order and stops at the first `False`; when both a `False` and a raising lookup are present
    the answer depends on that order, which is not modelled. -/
def dictMerge (r acc : Res Bool) : Res Bool :=
  match r, acc with
  | .error .unmodelled, _ => .error .unmodelled
  | _, .error .unmodelled => .error .unmodelled
  | .ok true, x => x
  | x, .ok true => x
  | .ok false, .ok false => .ok false
  | .error .raised, .error .raised => .error .raised
  | _, _ => .error .unmodelled

mutual
def eqTest (ex : Bool) (d : Option (Int × Nat)) : PyVal → PyVal → Res Bool
  | a, e =>
    -- float comparison (either side a float, the other float/int/bool)
    if (isFloat e || isFloat a) && isIntOrFloat a && isIntOrFloat e then
      match d, num? a, num? e with
      | some dd, some x, some y => .ok (numClose y x dd)
      | _, _, _ => .error .raised
    else match a, e with
      | .str sa, .str se =>
        if ex then .ok (sa == se)
        else if isAscii sa && isAscii se then .ok (normStr se == normStr sa) else .error .unmodelled
      | .list xs, .list ys =>
        if pyEq a e then .ok true else if xs.length != ys.length then .ok false else eqSeq ex d xs ys
      | .tuple xs, .tuple ys =>
        if pyEq a e then .ok true else if xs.length != ys.length then .ok false else eqSeq ex d xs ys
      | .set xs, .set ys =>
        if pyEq a e then .ok true
        else if xs.length != ys.length then .ok false
        else match eqAllContained ex d xs ys with
          | .error err => .error err
          | .ok false => .ok false
          | .ok true => eqAllContained ex d ys xs
      | .dict ks vs, .dict ks2 vs2 =>
        if pyEq a e then .ok true
        -- `_are_sets_equal(set(expected.keys()), set(actual.keys()))`: the key sets are matched
        -- *approximately* (tolerance / normalisation) ...
        else if ks2.length != ks.length then .ok false
        else match eqAllContained ex d ks2 ks with
          | .error err => .error err
          | .ok false => .ok false
          | .ok true =>
            match eqAllContained ex d ks ks2 with
            | .error err => .error err
            | .ok false => .ok false
            -- ... but the values are then fetched by *exact* lookup: a key that only has an
            -- approximate partner raises KeyError (`eqDictLookup`)
            | .ok true => eqDictVals ex d ks2 vs2 ks vs
      | _, _ => .ok (pyEq a e)
termination_by a e => sizeOf a + sizeOf e
/-- the loop of `_are_sequences_equal` (`zip`, in order, stop at the first `False`). -/
def eqSeq (ex : Bool) (d : Option (Int × Nat)) : List PyVal → List PyVal → Res Bool
  | x :: xs, y :: ys =>
    match eqTest ex d x y with
    | .error e => .error e
    | .ok false => .ok false
    | .ok true => eqSeq ex d xs ys
  | _, _ => .ok true
termination_by a b => sizeOf a + sizeOf b
/-- one direction of `_are_sets_equal`: every `x` of the first is `_set_contains`-ed by the second. -/
def eqAllContained (ex : Bool) (d : Option (Int × Nat)) : List PyVal → List PyVal → Res Bool
  | [], _ => .ok true
  | x :: xs, ys =>
    match eqContains ex d x ys with
    | .error e => .error e
    | .ok false => .ok false
    | .ok true => eqAllContained ex d xs ys
termination_by a b => sizeOf a + sizeOf b
/-- `_set_contains(needle, haystack)`: some element `y` with `equality_test(y, needle)`. -/
def eqContains (ex : Bool) (d : Option (Int × Nat)) (needle : PyVal) : List PyVal → Res Bool
  | [] => .ok false
  | y :: ys =>
    match eqTest ex d y needle with
    | .error e => .error e
    | .ok true => .ok true
    | .ok false => eqContains ex d needle ys
termination_by ys => sizeOf needle + sizeOf ys
/-- the value loop of the dict branch: for each expected key
    `equality_test(expected[key], actual[key])` (a missing key raises). -/
def eqDictVals (ex : Bool) (d : Option (Int × Nat)) : List PyVal → List PyVal → List PyVal → List PyVal → Res Bool
  | k :: eks, v :: evs, aks, avs =>
    dictMerge (eqDictLookup ex d k v aks avs) (eqDictVals ex d eks evs aks avs)
  | _, _, _, _ => .ok true
termination_by a b c e => sizeOf a + sizeOf b + sizeOf c + sizeOf e
def eqDictLookup (ex : Bool) (d : Option (Int × Nat)) (k v : PyVal) : List PyVal → List PyVal → Res Bool
  | k2 :: aks, v2 :: avs => if pyEq k k2 then eqTest ex d v v2 else eqDictLookup ex d k v aks avs
  | _, _ => .error .raised
termination_by c e => sizeOf k + sizeOf v + sizeOf c + sizeOf e
end

end Pedal.Assertions

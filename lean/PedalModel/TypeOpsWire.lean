import PedalModel.Wire
import PedalModel.TypeOps
/-
Line protocol for the C19 model (driver_c19).

type  : any imp none num int float bool str Lint Lfloat Lbool Lstr | list <0|1> T | set <0|1> T | fset <0|1> T
        | tuple <n> T* | dict <n> (K V)* | other x<hex>
value : n | b0 | b1 | i<int> | f | s | list <n> V* | tuple <n> V* | set <n> V* | dict <n> (K V)*
expr  : L <cls> T | N <b:op|c:op> E E
requests / answers:
  expr E            -> `flag=<0|1> ty=<type tokens joined by ,>`
  typeof V          -> `ty=<...>`
  valcheck V        -> `refl=<0|1> conf=<0|1> ty=<...>`     (is_subtype(t,t); is_subtype(t, normalised own type))
  subval V V        -> `sub=<0|1>`                          (is_subtype(typeOf a, typeOf b))
  sub T T           -> `sub=<0|1>`
Anything unparsable is answered `bad-request`.
-/
namespace Pedal.Types
open Pedal.Wire

mutual
def parseTy : Nat → List String → Option (Ty × List String)
  | 0, _ => none
  | fuel + 1, tok :: ts =>
    if tok = "any" then some (.any, ts) else if tok = "imp" then some (.impossible, ts)
    else if tok = "none" then some (.none, ts) else if tok = "num" then some (.num, ts)
    else if tok = "int" then some (.int, ts) else if tok = "float" then some (.float, ts)
    else if tok = "bool" then some (.bool, ts) else if tok = "str" then some (.str, ts)
    else if tok = "Lint" then some (.litInt, ts) else if tok = "Lfloat" then some (.litFloat, ts)
    else if tok = "Lbool" then some (.litBool, ts) else if tok = "Lstr" then some (.litStr, ts)
    else if tok = "list" || tok = "set" || tok = "fset" then
      match ts with
      | e :: ts => do
        let empty ← decBool e
        let (elem, ts) ← parseTy fuel ts
        pure ((if tok = "list" then Ty.list empty elem else if tok = "set" then Ty.set empty elem else Ty.fset empty elem), ts)
      | [] => none
    else if tok = "tuple" then
      match ts with
      | n :: ts => do
        let n ← n.toNat?
        let (xs, ts) ← parseTys fuel n ts
        pure (.tuple xs, ts)
      | [] => none
    else if tok = "dict" then
      match ts with
      | n :: ts => do
        let n ← n.toNat?
        let (ps, ts) ← parseTyPairs fuel n ts
        pure (.dict ps, ts)
      | [] => none
    else if tok = "other" then
      match ts with
      | n :: ts => (decStr n).map fun n => (.other n, ts)
      | [] => none
    else none
  | _ + 1, [] => none
def parseTys : Nat → Nat → List String → Option (TyList × List String)
  | 0, _, _ => none
  | _ + 1, 0, ts => some (.nil, ts)
  | fuel + 1, n + 1, ts => do
    let (t, ts) ← parseTy fuel ts
    let (rest, ts) ← parseTys fuel n ts
    pure (.cons t rest, ts)
def parseTyPairs : Nat → Nat → List String → Option (TyPairs × List String)
  | 0, _, _ => none
  | _ + 1, 0, ts => some (.nil, ts)
  | fuel + 1, n + 1, ts => do
    let (k, ts) ← parseTy fuel ts
    let (v, ts) ← parseTy fuel ts
    let (rest, ts) ← parseTyPairs fuel n ts
    pure (.cons k v rest, ts)
end

mutual
def showTy : Ty → List String
  | .any => ["any"] | .impossible => ["imp"] | .none => ["none"] | .num => ["num"] | .int => ["int"]
  | .float => ["float"] | .bool => ["bool"] | .str => ["str"] | .litInt => ["Lint"] | .litFloat => ["Lfloat"]
  | .litBool => ["Lbool"] | .litStr => ["Lstr"]
  | .list e t => "list" :: encBool e :: showTy t
  | .set e t => "set" :: encBool e :: showTy t
  | .fset e t => "fset" :: encBool e :: showTy t
  | .tuple xs => let r := showTys xs; "tuple" :: toString r.1 :: r.2
  | .dict ps => let r := showTyPairs ps; "dict" :: toString r.1 :: r.2
  | .other n => ["other", encStr n]
def showTys : TyList → Nat × List String
  | .nil => (0, [])
  | .cons x xs => let r := showTys xs; (r.1 + 1, showTy x ++ r.2)
def showTyPairs : TyPairs → Nat × List String
  | .nil => (0, [])
  | .cons k v rest => let r := showTyPairs rest; (r.1 + 1, showTy k ++ showTy v ++ r.2)
end

def tyStr (t : Ty) : String := ",".intercalate (showTy t)

mutual
def parseVal : Nat → List String → Option (Val × List String)
  | 0, _ => none
  | fuel + 1, tok :: ts =>
    if tok = "n" then some (.none, ts) else if tok = "b0" then some (.bool false, ts)
    else if tok = "b1" then some (.bool true, ts) else if tok = "f" then some (.float, ts)
    else if tok = "s" then some (.str, ts)
    else if tok = "list" || tok = "tuple" || tok = "set" then
      match ts with
      | n :: ts => do
        let n ← n.toNat?
        let (xs, ts) ← parseVals fuel n ts
        pure ((if tok = "list" then Val.list xs else if tok = "tuple" then Val.tuple xs else Val.set xs), ts)
      | [] => none
    else if tok = "dict" then
      match ts with
      | n :: ts => do
        let n ← n.toNat?
        let (ps, ts) ← parseValPairs fuel n ts
        pure (.dict ps, ts)
      | [] => none
    else match tok.toList with
      | 'i' :: rest => (String.ofList rest).toInt?.map fun i => (.int i, ts)
      | _ => none
  | _ + 1, [] => none
def parseVals : Nat → Nat → List String → Option (ValList × List String)
  | 0, _, _ => none
  | _ + 1, 0, ts => some (.nil, ts)
  | fuel + 1, n + 1, ts => do
    let (v, ts) ← parseVal fuel ts
    let (rest, ts) ← parseVals fuel n ts
    pure (.cons v rest, ts)
def parseValPairs : Nat → Nat → List String → Option (ValPairs × List String)
  | 0, _, _ => none
  | _ + 1, 0, ts => some (.nil, ts)
  | fuel + 1, n + 1, ts => do
    let (k, ts) ← parseVal fuel ts
    let (v, ts) ← parseVal fuel ts
    let (rest, ts) ← parseValPairs fuel n ts
    pure (.cons k v rest, ts)
end

def decCls (tok : String) : Option Cls :=
  if tok = "int" then some .int else if tok = "float" then some .float else if tok = "str" then some .str
  else if tok = "list" then some .list else if tok = "tuple" then some .tuple else if tok = "bool" then some .bool
  else if tok = "complex" then some .complex else none

def decOp (tok : String) : Option Op :=
  let bins : List (String × BinOp) := [("add", .add), ("sub", .sub), ("mult", .mult), ("div", .div), ("floordiv", .floordiv),
    ("mod", .mod), ("pow", .pow), ("lshift", .lshift), ("rshift", .rshift), ("bitor", .bitor), ("bitxor", .bitxor),
    ("bitand", .bitand), ("matmult", .matmult)]
  let cmps : List (String × CmpOp) := [("eq", .eq), ("noteq", .noteq), ("lt", .lt), ("lte", .lte), ("gt", .gt), ("gte", .gte),
    ("is", .is), ("isnot", .isnot), ("in", .in), ("notin", .notin)]
  match tok.splitOn ":" with
  | ["b", n] => (bins.lookup n).map Op.bin
  | ["c", n] => (cmps.lookup n).map Op.cmp
  | _ => none

def parseExpr : Nat → List String → Option (Expr × List String)
  | 0, _ => none
  | _ + 1, "L" :: c :: ts => do
    let c ← decCls c
    let (t, ts) ← parseTy (ts.length + 1) ts
    pure (.leaf c t, ts)
  | fuel + 1, "N" :: o :: ts => do
    let op ← decOp o
    let (l, ts) ← parseExpr fuel ts
    let (r, ts) ← parseExpr fuel ts
    pure (.node op l r, ts)
  | _ + 1, _ => none

def handle : List String → String
  | "expr" :: ts =>
    match parseExpr (ts.length + 1) ts with
    | some (e, []) => let r := infer e; "flag=" ++ encBool r.2 ++ " ty=" ++ tyStr r.1
    | _ => "bad-request"
  | "typeof" :: ts =>
    match parseVal (ts.length + 1) ts with
    | some (v, []) => "ty=" ++ tyStr (typeOf v)
    | _ => "bad-request"
  | "valcheck" :: ts =>
    match parseVal (ts.length + 1) ts with
    | some (v, []) =>
      "refl=" ++ encBool (isSubtype (typeOf v) (typeOf v)) ++ " conf=" ++ encBool (isSubtype (typeOf v) (normForm v))
        ++ " ty=" ++ tyStr (typeOf v)
    | _ => "bad-request"
  | "subval" :: ts =>
    match parseVal (ts.length + 1) ts with
    | some (a, ts) =>
      match parseVal (ts.length + 1) ts with
      | some (b, []) => "sub=" ++ encBool (isSubtype (typeOf a) (typeOf b))
      | _ => "bad-request"
    | none => "bad-request"
  | "sub" :: ts =>
    match parseTy (ts.length + 1) ts with
    | some (a, ts) =>
      match parseTy (ts.length + 1) ts with
      | some (b, []) => "sub=" ++ encBool (isSubtype a b)
      | _ => "bad-request"
    | none => "bad-request"
  | _ => "bad-request"

end Pedal.Types

/-
C06 — what the sandbox WRAPS AROUND CPython's own execution (pedal/sandbox/sandbox.py):

  A. input()/output: `_track_inputs._input_tracker` (echo the prompt with print, pop the queue's front, default
     reply when the queue is empty, record the reply in the context, MAXIMUM_INPUTS) against CPython's own
     input() on a stdin holding the same replies.  A program is an interaction tree (`Prog`): what it writes,
     and how it goes on after each reply.  CPython's execution of the student's source is NOT modelled — it is
     the parameter (the tree).
  B. call(): `_construct_call` / `_make_temporary` (argument written as its repr when short and a faithful
     literal, else bound to `_temporary_<category>_<name>`, shadowed globals backed up), execution of
     `target = f(args…)` in the student namespace (CPython's evaluation of a literal text and of the function
     call itself are parameters), `_purge_temporaries`.
  C. `_start_mocking`/`_mock_builtins`/`_execute`: which names of the student namespace an execution rewrites
     before the student's code runs.

Everything that depends on pedal's source text (constants, which branch does what) is in `InputCfg`, `CallCfg`,
`MockCfg`; the values for the tree under test are regenerated into `PedalModel/Gen/SandboxEquivGen.lean`.
-/
namespace Pedal.SandboxEquiv

/-! ## A. input and output -/

/-- What `input()` hands back to the program. -/
inductive Reply where
  | value (s : String)
  | eof                 -- CPython: stdin exhausted, EOFError raised inside the program
  | tooMany             -- sandbox: MAXIMUM_INPUTS reached, OSError raised inside the program
  deriving Repr, DecidableEq

/-- A deterministic program as seen from outside: it ends in some final state (globals + outcome, opaque),
writes text, or asks for input and continues according to the reply. `unexplored` marks a branch the harness
did not materialise. -/
inductive Prog where
  | done (fin : Nat)
  | out (s : String) (k : Prog)
  | inp (prompt : String) (k : Reply → Prog)
  | unexplored

inductive Chunk where
  | text (s : String)
  | echo (prompt : String)
  deriving Repr, DecidableEq

structure Obs where
  chunks : List Chunk        -- standard output, prompts marked
  consumed : List String     -- replies handed to the program, in order
  rest : List String         -- what is left of the queue
  fin : Option Nat           -- final state reached (none: unexplored branch)
  deriving Repr, DecidableEq

/-- Unmodified CPython: the prompt is written as it is, the next line of stdin is the reply, EOF otherwise. -/
def plainRun : Prog → List String → Obs
  | .done f, q => ⟨[], [], q, some f⟩
  | .unexplored, q => ⟨[], [], q, none⟩
  | .out s k, q =>
    let o := plainRun k q
    { o with chunks := .text s :: o.chunks }
  | .inp p k, [] =>
    let o := plainRun (k .eof) []
    { o with chunks := .echo p :: o.chunks }
  | .inp p k, x :: q =>
    let o := plainRun (k (.value x)) q
    { o with chunks := .echo p :: o.chunks, consumed := x :: o.consumed }

/-- What the translator read from `_track_inputs`. -/
structure InputCfg where
  echoNewline : Bool            -- `print(prompt)`: prompt followed by a newline
  popFront : Bool               -- `self.inputs.pop(0)` (false: some other element)
  defaultReply : String         -- the reply when the queue is empty
  records : Bool                -- `self._context[-1].inputs.append(value_entered)`
  maxInputs : Option Nat        -- MAXIMUM_INPUTS
  understood : Bool             -- false: the translator met a shape it does not know
  deriving Repr, DecidableEq

def takeInput (cfg : InputCfg) : List String → String × List String
  | [] => (cfg.defaultReply, [])
  | x :: xs => if cfg.popFront then (x, xs) else ((x :: xs).getLast!, (x :: xs).dropLast)

def limitHit (cfg : InputCfg) (count : Nat) : Bool :=
  match cfg.maxInputs with
  | some m => decide (m ≤ count)
  | none => false

/-- The sandbox: `count` = `_called_inputs` so far in this execution. -/
def sandboxRun (cfg : InputCfg) : Prog → List String → Nat → Obs
  | .done f, q, _ => ⟨[], [], q, some f⟩
  | .unexplored, q, _ => ⟨[], [], q, none⟩
  | .out s k, q, n =>
    let o := sandboxRun cfg k q n
    { o with chunks := .text s :: o.chunks }
  | .inp p k, q, n =>
    let x := (takeInput cfg q).1
    let q' := (takeInput cfg q).2
    let o := sandboxRun cfg (k (if limitHit cfg (n + 1) then .tooMany else .value x)) q' (n + 1)
    { o with chunks := .echo p :: o.chunks, consumed := if cfg.records then x :: o.consumed else o.consumed }

/-- The queue holds a reply for every input() the program makes along its path, and the input limit is not reached. -/
def sufficient (cfg : InputCfg) : Prog → List String → Nat → Bool
  | .done _, _, _ => true
  | .unexplored, _, _ => true
  | .out _ k, q, n => sufficient cfg k q n
  | .inp _ _, [], _ => false
  | .inp _ k, x :: q, n => !limitHit cfg (n + 1) && sufficient cfg (k (.value x)) q (n + 1)

/-- Printed text apart from prompt echoes. -/
def printed (cs : List Chunk) : List String :=
  cs.filterMap fun c => match c with
    | .text s => some s
    | .echo _ => none

def prompts (cs : List Chunk) : List String :=
  cs.filterMap fun c => match c with
    | .text _ => none
    | .echo p => some p

def renderPlain (cs : List Chunk) : String :=
  String.join (cs.map fun c => match c with
    | .text s => s
    | .echo p => p)

def renderSandbox (cfg : InputCfg) (cs : List Chunk) : String :=
  String.join (cs.map fun c => match c with
    | .text s => s
    | .echo p => if cfg.echoNewline then p ++ "\n" else p)

/-! ## B. call(): arguments, temporaries, target -/

/-- A key of the student namespace. `temp kw idx name` is `_temporary_arg_<idx>` (kw = false) or
`_temporary_kwarg_<name>` (kw = true); every other string is `name s`. -/
inductive Key where
  | name (s : String)
  | temp (kw : Bool) (idx : Nat) (kwname : String)
  deriving Repr, DecidableEq

abbrev NS := List (Key × Nat)

def NS.get? (ns : NS) (k : Key) : Option Nat := List.lookup k ns
def NS.erase (ns : NS) (k : Key) : NS := ns.filter fun e => e.1 != k
def NS.set (ns : NS) (k : Key) (v : Nat) : NS := (k, v) :: NS.erase ns k
def NS.has (ns : NS) (k : Key) : Bool := (NS.get? ns k).isSome

/-- An argument the instructor hands to call(), with what CPython says about it. -/
structure Arg where
  val : Nat                    -- the value (identity)
  reprText : String            -- repr(value)
  reprLen : Nat                -- len(repr(value))
  literal : Bool               -- ast.literal_eval(repr(value)) is an equal value of the same type
  varName : Option String      -- value is a SandboxVariable: its name
  deriving Repr, DecidableEq

/-- What the translator read from `_make_temporary`, `_construct_call`, `_purge_temporaries`, `call`. -/
structure CallCfg where
  maxLen : Nat                 -- MAXIMUM_TEMPORARY_LENGTH
  checksLiteral : Bool         -- the repr is used only when it is a faithful literal
  backsUp : Bool               -- a global shadowed by a temporary is saved
  purgeRestores : Bool         -- … and put back by `_purge_temporaries`
  purgeDeletes : Bool          -- temporaries that shadowed nothing are deleted
  purgeClears : Bool           -- the set of temporaries is emptied
  assignsTarget : Bool         -- the source is `target = f(…)`
  purgesAfterCall : Bool       -- call() runs `_purge_temporaries` after executing
  tempPrefix : String          -- temporaries are called <prefix>arg_<i> / <prefix>kwarg_<name> (only spelling)
  understood : Bool
  deriving Repr, DecidableEq

inductive ArgRef where
  | lit (text : String)        -- the repr, re-evaluated in the student namespace
  | var (name : String)
  | tmp (key : Key)
  deriving Repr, DecidableEq

structure St where
  data : NS
  temps : List Key
  backups : NS
  deriving Repr, DecidableEq

def usesLiteral (cfg : CallCfg) (a : Arg) : Bool :=
  decide (a.reprLen ≤ cfg.maxLen) && (!cfg.checksLiteral || a.literal)

/-- `if key in self.data: self._backup_variables[key] = self.data[key]` -/
def tmpBackups (cfg : CallCfg) (st : St) (key : Key) : NS :=
  match NS.get? st.data key with
  | some old => if cfg.backsUp then NS.set st.backups key old else st.backups
  | none => st.backups

/-- `_make_temporary(category, name, value)` -/
def makeTemporary (cfg : CallCfg) (st : St) (key : Key) (a : Arg) : ArgRef × St :=
  match a.varName with
  | some n => (.var n, st)
  | none =>
    if usesLiteral cfg a then (.lit a.reprText, st)
    else
      (.tmp key, { data := NS.set st.data key a.val,
                   temps := if st.temps.contains key then st.temps else key :: st.temps,
                   backups := tmpBackups cfg st key })

/-- The keys `_construct_call` uses: positional arguments are numbered from `i`, keyword arguments go by name. -/
def posKeys : Nat → List Arg → List (Key × Arg)
  | _, [] => []
  | i, a :: rest => (.temp false i "", a) :: posKeys (i + 1) rest

def kwKeys (kwargs : List (String × Arg)) : List (Key × Arg) :=
  kwargs.map fun e => (.temp true 0 e.1, e.2)

/-- `_make_temporary` for each argument in turn (positional first, then keyword arguments). -/
def constructList (cfg : CallCfg) : St → List (Key × Arg) → List ArgRef × St
  | st, [] => ([], st)
  | st, (key, a) :: rest =>
    let r := makeTemporary cfg st key a
    let rs := constructList cfg r.2 rest
    (r.1 :: rs.1, rs.2)

/-- `_purge_temporaries` -/
def purgeOne (cfg : CallCfg) (backups : NS) (data : NS) (key : Key) : NS :=
  match NS.get? backups key with
  | some old => if cfg.purgeRestores then NS.set data key old else data
  | none => if cfg.purgeDeletes then NS.erase data key else data

def purge (cfg : CallCfg) (st : St) : St :=
  { st with data := st.temps.foldl (purgeOne cfg st.backups) st.data,
            temps := if cfg.purgeClears then [] else st.temps }

inductive Outcome where
  | ret (v : Nat)
  | raise (cls : Nat)
  deriving Repr, DecidableEq

def nameError : Nat := 1
def argEvalError : Nat := 2

/-- CPython, as far as call() relies on it. -/
structure Env where
  evalLit : String → Option Nat                              -- a repr text evaluated in the student namespace
  apply : Nat → List Nat → List (String × Nat) → Outcome      -- calling a function value

def evalRef (E : Env) (data : NS) : ArgRef → Option Nat
  | .lit t => E.evalLit t
  | .var n => NS.get? data (.name n)
  | .tmp k => NS.get? data k

def evalRefs (E : Env) (data : NS) : List ArgRef → Option (List Nat)
  | [] => some []
  | r :: rs => match evalRef E data r, evalRefs E data rs with
    | some v, some vs => some (v :: vs)
    | _, _ => none

/-! ## C. what an execution rewrites in the student namespace before the student's code runs -/

structure MockCfg where
  overrideNames : List String     -- builtins replaced by default (`reset_default_overrides`) + `input`
  writesNamespace : Bool          -- `_mock_builtins` also does `data[name] = …`
  setsMainName : Bool             -- `self.data['__name__'] = "__main__"`
  resetsBuiltins : Bool           -- `_reset_builtins(self.data)`
  understood : Bool
  deriving Repr, DecidableEq

def builtinsId : Nat := 3
def mainNameId : Nat := 4

/-- `_start_mocking` + the `__name__` line of `_execute`, on the namespace. `ov n` = the sandbox's object for builtin n. -/
def startExecution (cfg : MockCfg) (ov : String → Nat) (data : NS) : NS :=
  let d1 := if cfg.resetsBuiltins then NS.set data (.name "__builtins__") builtinsId else data
  let d2 := if cfg.writesNamespace then cfg.overrideNames.foldl (fun d n => NS.set d (.name n) (ov n)) d1 else d1
  if cfg.setsMainName then NS.set d2 (.name "__name__") mainNameId else d2

def reserved (cfg : MockCfg) (k : Key) : Bool :=
  match k with
  | .name s => s == "__builtins__" || s == "__name__" || cfg.overrideNames.contains s
  | .temp .. => false

/-! ## call(), composed -/

structure CallResult where
  st : St
  refs : List ArgRef                 -- the generated call's arguments, positional then keyword, structurally
  passed : Option (List Nat)         -- the values the function is applied to (same order)
  outcome : Outcome

/-- `_construct_call`: every argument through `_make_temporary`. -/
def callPrepared (cc : CallCfg) (st : St) (args : List Arg) (kwargs : List (String × Arg)) : List ArgRef × St :=
  constructList cc st (posKeys 0 args ++ kwKeys kwargs)

/-- The namespace the generated call is executed in. -/
def callData (cc : CallCfg) (mc : MockCfg) (ov : String → Nat) (st : St) (args : List Arg)
    (kwargs : List (String × Arg)) : NS :=
  startExecution mc ov (callPrepared cc st args kwargs).2.data

def callPassed (cc : CallCfg) (mc : MockCfg) (ov : String → Nat) (E : Env) (st : St) (args : List Arg)
    (kwargs : List (String × Arg)) : Option (List Nat) :=
  evalRefs E (callData cc mc ov st args kwargs) (callPrepared cc st args kwargs).1

/-- Executing `f(<args>)`: look `f` up, evaluate the argument texts, apply. -/
def callOutcome (cc : CallCfg) (mc : MockCfg) (ov : String → Nat) (E : Env) (st : St) (f : String)
    (args : List Arg) (kwargs : List (String × Arg)) : Outcome :=
  match NS.get? (callData cc mc ov st args kwargs) (.name f) with
  | none => Outcome.raise nameError
  | some fv => match callPassed cc mc ov E st args kwargs with
    | none => Outcome.raise argEvalError
    | some vs => E.apply fv (vs.take args.length) ((kwargs.map (·.1)).zip (vs.drop args.length))

/-- `Sandbox.call(f, *args, target=…, **kwargs)` on the student namespace. -/
def callStep (cc : CallCfg) (mc : MockCfg) (ov : String → Nat) (E : Env) (st : St) (f : String)
    (args : List Arg) (kwargs : List (String × Arg)) (target : Option String) : CallResult :=
  let st1 := (callPrepared cc st args kwargs).2
  let data1 := callData cc mc ov st args kwargs
  let outcome := callOutcome cc mc ov E st f args kwargs
  let data2 := match outcome, target with
    | .ret v, some t => if cc.assignsTarget then NS.set data1 (.name t) v else data1
    | _, _ => data1
  let st2 : St := { st1 with data := data2 }
  { st := if cc.purgesAfterCall then purge cc st2 else st2, refs := (callPrepared cc st args kwargs).1,
    passed := callPassed cc mc ov E st args kwargs, outcome := outcome }

end Pedal.SandboxEquiv

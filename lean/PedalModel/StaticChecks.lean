import PedalModel.Wire
import PedalModel.Gen.OperatorTables
/-
C08 — executable model of pedal's static `ensure_*` / `prevent_*` checks.

The student's program is a generic rose tree: every `ast.AST` node becomes a `Tree.node` carrying its class
name, the parent field it hangs from (`CaitNode.field`), `lineno` / `col_offset` when the node has them, its
primitive fields (`Name.id`, `Attribute.attr`, `Constant.value`, `alias.name`, `ImportFrom.module`, ...)
and its child nodes in `ast.iter_fields` order (which is the order `CaitNode.children`,
`ast.NodeVisitor.generic_visit` and `ast.iter_child_nodes` all use).

Modelled code: `CaitNode.find_all` (cait_node.py), `find_operation` / `find_function_calls` (find_node.py),
the operator-symbol dictionaries (utilities/operators.py, generated), `_check_usage` and the `condition`
methods of the `ensure_*`/`prevent_*` classes and `has_import` (assertions/static.py).
-/
namespace Pedal.Static
open Pedal.Gen.Operators

/-- A primitive field value.  Floats travel as the exact ratio `float.as_integer_ratio()` gives (lowest
    terms, positive power-of-two denominator), so equal floats have equal encodings. -/
inductive Prim
  | none
  | bool (b : Bool)
  | int (i : Int)
  | flt (num : Int) (den : Nat)
  | fltx (name : String)          -- inf / nan
  | str (s : String)
  | other (ty : String)           -- bytes, complex, Ellipsis, lists of names, ...
  deriving DecidableEq, Repr, Inhabited

inductive Tree
  | node (kind field : String) (line col : Option Nat) (attrs : List (String × Prim)) (children : List Tree)
  deriving Repr, Inhabited

namespace Tree
def kind : Tree → String | node k _ _ _ _ _ => k
def field : Tree → String | node _ f _ _ _ _ => f
def line : Tree → Option Nat | node _ _ l _ _ _ => l
def col : Tree → Option Nat | node _ _ _ c _ _ => c
def attrs : Tree → List (String × Prim) | node _ _ _ _ a _ => a
def children : Tree → List Tree | node _ _ _ _ _ cs => cs

/-- a primitive field; absent fields read as `None` -/
def attr (t : Tree) (name : String) : Prim := (t.attrs.lookup name).getD Prim.none

/-- the child nodes hanging from one field, in order -/
def childrenOf (t : Tree) (fld : String) : List Tree := t.children.filter (fun c => c.field == fld)
end Tree

/-! ### traversal -/

mutual
/-- every node of the tree, pre-order (what `ast.walk` enumerates, in `NodeVisitor` order) -/
def walk : Tree → List Tree
  | .node k f l c a cs => .node k f l c a cs :: walkList cs
def walkList : List Tree → List Tree
  | [] => []
  | t :: ts => walk t ++ walkList ts
end

/-- `CaitNode.find_all`'s test for one node: the class name, with `Num` / `Str` / `Bool` answered by a
    `Constant` whose value has that Python type (`_handle_visit_constant`). -/
def isKind (k : String) (t : Tree) : Bool :=
  if k = "Num" then
    t.kind = "Constant" && (match t.attr "value" with | .int _ => true | .flt _ _ => true | .fltx _ => true | _ => false)
  else if k = "Str" then
    t.kind = "Constant" && (match t.attr "value" with | .str _ => true | _ => false)
  else if k = "Bool" then
    t.kind = "Constant" && (match t.attr "value" with | .bool _ => true | _ => false)
  else t.kind = k

mutual
/-- `CaitNode.find_all(k)`: a `NodeVisitor` whose `visit_<k>` records the node and keeps descending. -/
def findAll (k : String) : Tree → List Tree
  | .node kd f l c a cs =>
    if isKind k (.node kd f l c a cs) then .node kd f l c a cs :: findAllList k cs else findAllList k cs
def findAllList (k : String) : List Tree → List Tree
  | [] => []
  | t :: ts => findAll k t ++ findAllList k ts
end

/-! ### operators -/

/-- `node.op_name` : class name of the node hanging from the `op` field -/
def opName (t : Tree) : String := match t.childrenOf "op" with | o :: _ => o.kind | [] => ""

/-- `find_operation`'s dictionary dispatch: which expression class is searched and which operator class
    is compared, in the order of the `if/elif` chain. -/
def pedalLookup (sym : String) : Option (String × String) :=
  match compareOps.lookup sym with
  | some cls => some ("Compare", cls)
  | none =>
    match boolOps.lookup sym with
    | some cls => some ("BoolOp", cls)
    | none =>
      match binOps.lookup sym with
      | some cls => some ("BinOp", cls)
      | none =>
        match unaryOps.lookup sym with
        | some cls => some ("UnaryOp", cls)
        | none => none

/-- the matching operator positions of one expression node: a `Compare` is reported once per matching
    entry of `ops`; the other three once if their single `op` matches -/
def opHits (family cls : String) (t : Tree) : Nat :=
  if family = "Compare" then ((t.childrenOf "ops").filter (fun o => o.kind = cls)).length
  else if opName t = cls then 1 else 0

/-- `find_operation(sym, root=t)` -/
def findOperation (sym : String) (t : Tree) : List Tree :=
  match pedalLookup sym with
  | some (family, cls) => (findAll family t).flatMap (fun n => List.replicate (opHits family cls n) n)
  | none => []

/-! ### calls -/

/-- the test inside `find_function_calls` -/
def isCallTo (name : String) (t : Tree) : Bool :=
  match t.childrenOf "func" with
  | f :: _ =>
    if f.kind = "Attribute" then f.attr "attr" == Prim.str name
    else if f.kind = "Name" then f.attr "id" == Prim.str name
    else false
  | [] => false

def findFunctionCalls (name : String) (t : Tree) : List Tree := (findAll "Call" t).filter (isCallTo name)

/-! ### literals -/

/-- Python's `==` between two primitive constants (what the tree matcher uses) -/
def pyEq : Prim → Prim → Bool
  | .none, .none => true
  | .bool a, .bool b => a == b
  | .bool a, .int i => (if a then 1 else 0) == i
  | .int i, .bool a => (if a then 1 else 0) == i
  | .bool a, .flt n d => (if a then (d : Int) else 0) == n
  | .flt n d, .bool a => (if a then (d : Int) else 0) == n
  | .int i, .int j => i == j
  | .int i, .flt n d => i * (d : Int) == n
  | .flt n d, .int i => i * (d : Int) == n
  | .flt n d, .flt m e => n == m && d == e
  | .fltx a, .fltx b => a == b && a != "nan"
  | .str a, .str b => a == b
  | _, _ => false

/-- `type(a) is type(b)` -/
def sameType : Prim → Prim → Bool
  | .none, .none => true
  | .bool _, .bool _ => true
  | .int _, .int _ => true
  | .flt _ _, .flt _ _ => true
  | .flt _ _, .fltx _ => true
  | .fltx _, .flt _ _ => true
  | .fltx _, .fltx _ => true
  | .str _, .str _ => true
  | .other a, .other b => a == b
  | _, _ => false

def isConstant (t : Tree) : Bool := t.kind = "Constant"

/-- `root.find_matches(repr(literal))` for a literal whose source form is a single `Constant` pattern:
    every `Constant` of the tree whose value `==` the literal, in pre-order. -/
def literalMatches (lit : Prim) (t : Tree) : List Tree :=
  (walk t).filter (fun n => isConstant n && pyEq lit (n.attr "value"))

/-- `_find_literal_uses`: matches whose constant also has the literal's type -/
def literalUses (lit : Prim) (t : Tree) : List Tree :=
  (literalMatches lit t).filter (fun n => !isConstant n || sameType (n.attr "value") lit)

/-- the literal types `ensure_literal_type` / `prevent_literal_type` accept -/
inductive LitType | bool | str | int | float | list | dict
  deriving DecidableEq, Repr

def literalTypeUses (ty : LitType) (t : Tree) : List Tree :=
  match ty with
  | .bool => literalUses (.bool false) t ++ literalUses (.bool true) t
  | .str => findAll "Str" t
  | .int => (findAll "Num" t).filter (fun n => match n.attr "value" with | .int _ => true | _ => false)
  | .float => (findAll "Num" t).filter (fun n => match n.attr "value" with | .flt _ _ => true | .fltx _ => true | _ => false)
  | .list => findAll "List" t
  | .dict => findAll "Dict" t

/-! ### imports -/

/-- `has_import` -/
def hasImport (name : String) (t : Tree) : Bool :=
  (findAll "Import" t).any (fun i => (i.childrenOf "names").any (fun al => al.attr "name" == Prim.str name))
  || (findAll "ImportFrom" t).any (fun i => i.attr "module" == Prim.str name)

/-! ### thresholds (`_check_usage`) -/

/-- `EnsureAssertionFeedback._check_usage`: `at_least > use_count` -/
def ensureFires (atLeast : Nat) (uses : List Tree) : Bool := decide (atLeast > uses.length)

/-- `PreventAssertionFeedback._check_usage`: `use_count and at_most < use_count` -/
def preventFires (atMost : Nat) (uses : List Tree) : Bool := uses.length != 0 && decide (atMost < uses.length)

/-- the location the `condition` methods report: `uses[-1]`'s line, when there is a use -/
def reportedLine (uses : List Tree) : Option Nat := uses.getLast?.bind Tree.line

/-! ### queries (one constructor per ensure_/prevent_ pair) -/

inductive Query
  | op (sym : String)
  | call (name : String)
  | literal (lit : Prim)
  | litType (ty : LitType)
  | ast (kind : String)
  deriving Repr

def uses : Query → Tree → List Tree
  | .op sym, t => findOperation sym t
  | .call name, t => findFunctionCalls name t
  | .literal lit, t => literalUses lit t
  | .litType ty, t => literalTypeUses ty t
  | .ast k, t => findAll k t

end Pedal.Static

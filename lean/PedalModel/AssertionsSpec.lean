import PedalModel.AssertionsCond
/-
C07 — the specification side: for every assertion the Python relation it asserts, written by hand
from the documentation of the assert_* functions, and the outcome the property demands:
silent exactly when the relation evaluates to True, failing feedback otherwise (relation False,
not evaluable, or an operand that is an error).  Nothing here mentions proxies.
-/
namespace Pedal.Assertions

def notR (r : Res Bool) : Res Bool := r.map fun b => !b

def isNoneVal : PyVal → Bool
  | .none => true
  | _ => false

/-- `left is right` for the underlying objects. -/
def sameObject (l r : V) : Bool := pyIs l.unwrapped r.unwrapped

/-- assert_is_instance's stated convention: `int` and `float` are interchangeable. -/
def widenCls : PyVal → PyVal
  | .typ .int => .tuple [.typ .int, .typ .float]
  | .typ .float => .tuple [.typ .int, .typ .float]
  | v => v

def cmpRel (test : Ord4 → Bool) (a b : PyVal) : Res Bool := (pyCmp a b).map test

def lenRel (c : Ctx) (test : Ord4 → Bool) : Res Bool :=
  match pyLen c.left.v with
  | .error e => .error e
  | .ok n => cmpRel test (.int n) c.right.v

def equalRel (c : Ctx) : Res Bool :=
  match deltaOf c.delta with
  | .error e => .error e
  | .ok d => eqTest (truthy c.exact) d c.left.v c.right.v

def regexRel (c : Ctx) : Res Bool :=
  match c.left.v with
  | .str p => c.search p (strOfV c c.right)
  | _ => .error .raised

def outputRel (c : Ctx) : Res Bool :=
  match c.output .left with
  | .error e => .error e
  | .ok o => eqTest (truthy c.exact) none (.str o) (.str (strOfV c c.right))

def outputContainsRel (c : Ctx) : Res Bool :=
  let t := strOfV c c.right
  if truthy c.exact then
    match c.output .left with
    | .error e => .error e
    | .ok o => .ok (isSubstr t o)
  else if !isAscii t then .error .unmodelled
  else match c.output .left with
    | .error e => .error e
    | .ok o => if isAscii o then .ok (isSubstr (t.map lowerC) (o.map lowerC)) else .error .unmodelled

def outputRegexRel (c : Ctx) : Res Bool :=
  match c.output .left with
  | .error e => .error e
  | .ok o => c.search (strOfV c c.right) o

/-- The relation each assertion asserts. -/
def relOf : String → Option (Ctx → Res Bool)
  | "assert_less" => some fun c => cmpRel (· == .lt) c.left.v c.right.v
  | "assert_less_equal" => some fun c => cmpRel (fun o => o == .lt || o == .eq) c.left.v c.right.v
  | "assert_greater" => some fun c => cmpRel (· == .gt) c.left.v c.right.v
  | "assert_greater_equal" => some fun c => cmpRel (fun o => o == .gt || o == .eq) c.left.v c.right.v
  | "assert_in" => some fun c => pyIn c.left.v c.right.v
  | "assert_not_in" => some fun c => notR (pyIn c.left.v c.right.v)
  | "assert_contains_subset" => some fun c => pyAllIn c.left.v c.right.v
  | "assert_not_contains_subset" => some fun c => notR (pyAllIn c.left.v c.right.v)
  | "assert_is" => some fun c => .ok (sameObject c.left c.right)
  | "assert_is_not" => some fun c => .ok (!sameObject c.left c.right)
  | "assert_is_none" => some fun c => .ok (isNoneVal c.left.v)
  | "assert_is_not_none" => some fun c => .ok (!isNoneVal c.left.v)
  | "assert_true" => some fun c => .ok (truthy c.left.v)
  | "assert_false" => some fun c => .ok (!truthy c.left.v)
  | "assert_length_equal" => some fun c => (pyLen c.left.v).map fun n => pyEq (.int n) c.right.v
  | "assert_length_not_equal" => some fun c => notR ((pyLen c.left.v).map fun n => pyEq (.int n) c.right.v)
  | "assert_length_less" => some fun c => lenRel c (· == .lt)
  | "assert_length_less_equal" => some fun c => lenRel c (fun o => o == .lt || o == .eq)
  | "assert_length_greater" => some fun c => lenRel c (· == .gt)
  | "assert_length_greater_equal" => some fun c => lenRel c (fun o => o == .gt || o == .eq)
  | "assert_is_instance" => some fun c => pyIsInstance c.left.v (widenCls c.right.v)
  | "assert_not_is_instance" => some fun c => notR (pyIsInstance c.left.v (widenCls c.right.v))
  | "assert_equal" => some equalRel
  | "assert_almost_equal" => some equalRel
  | "assert_not_equal" => some fun c => notR (equalRel c)
  | "assert_not_almost_equal" => some fun c => notR (equalRel c)
  | "assert_regex" => some regexRel
  | "assert_not_regex" => some fun c => notR (regexRel c)
  | "assert_output" => some outputRel
  | "assert_prints" => some outputRel
  | "assert_not_output" => some fun c => notR (outputRel c)
  | "assert_output_contains" => some outputContainsRel
  | "assert_not_output_contains" => some fun c => notR (outputContainsRel c)
  | "assert_output_regex" => some outputRegexRel
  | "assert_not_output_regex" => some fun c => notR (outputRegexRel c)
  | _ => none

def anyErr (c : Ctx) : Bool := isErr c.left || isErr c.right

/-- silent exactly when the relation evaluates to True; False or not evaluable is a failure. -/
def relOutcome : Res Bool → Outcome
  | .ok true => .silent
  | .ok false => .fires
  | .error .raised => .fires
  | .error .unmodelled => .unmodelled

/-- What the property demands of an assertion whose relation evaluates to `r`. -/
def specOutcome (c : Ctx) (r : Res Bool) : Outcome :=
  if anyErr c then .fires else relOutcome r

end Pedal.Assertions

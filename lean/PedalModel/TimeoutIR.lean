/-
C14 — a small decision-tree IR for the three pieces of pedal code whose shape the interleaving machine
(PedalModel/TimeoutMachine.lean) takes as parameters (`Cfg`):

  * `timeout()`                         (pedal/sandbox/timeout.py)   - the grader's side of the claim protocol
  * `Sandbox._stop_mocking`             (pedal/sandbox/sandbox.py)   - the student thread's side
  * `Sandbox._execute_with_timeout` from the moment `timeout(...)` raises TimeoutError - the handler

`harness/translate_timeout.py` produces, on every run, TWO trees per piece: one by symbolic execution of the
Python AST (locals followed, private helpers inlined, conditions split compositionally into the questions
they ask, everything not understood = `opaque`), one MEASURED by running the real function on instrumented
objects under every answer to those questions (`...Probe`).  A tree says, for every answer to the questions
(`Atom`) the code asks, which observable operations (`Eff`) happen in which order and how the piece ends
(`Exit`).  The protocol facts are COMPUTED here from the trees by evaluating them on all answers, so they do
not depend on how the code is written (flag in a local, early return instead of else, De Morgan, helper
methods ...), only on what it does.  A fact that neither tree establishes is `none`; two trees that establish
opposite facts give `none` as well; `none` never equals the repaired protocol, so `cfg_fixed` fails.

Core Lean only (the driver links this).
-/
namespace Pedal.TimeoutIR

/-- a question the code asks (a branch point) -/
inductive Atom where
  | alive        -- `thread.is_alive()`
  | claim        -- `thread.claim_finish()`: SIDE EFFECT - the first asker gets True, everybody later False
  | plain        -- the current thread has no claim to make (`getattr(current_thread(), 'claim_finish', None) is None`)
  | timed        -- the execution being finalized is the one `_execute_with_timeout` started the current thread for
                 -- (`getattr(current_thread(), <mark>, None) is context`); a tree that never asks treats EVERY
                 -- execution that finishes on a thread with a claim as that one (the protocol before the repair
                 -- "an execution that merely finishes on such a thread used up the claim")
  | haveStdout   -- `self._current_stdout` is non-empty
  | other (n : Nat)   -- some other condition (n = index into the generated file's comment table)
  deriving Repr

def Atom.same : Atom → Atom → Bool
  | .alive, .alive | .claim, .claim | .plain, .plain | .timed, .timed | .haveStdout, .haveStdout => true
  | .other a, .other b => a == b
  | _, _ => false

/-- an observable operation -/
inductive Eff where
  | start | joinTimed | joinFull | terminate            -- on the student thread object
  | stopPatches | popStdout | appendOutput | capture | bump   -- on the sandbox
  | opaque (n : Nat)     -- a call / assignment that may touch the thread or the sandbox, not understood
  deriving Repr

/-- how the piece ends -/
inductive Exit where
  | fall | ret | raiseTimeout | raiseSystemExit | raiseOther | unknown
  deriving Repr

inductive Tree where
  | leaf (x : Exit)
  | eff (e : Eff) (k : Tree)
  | ask (a : Atom) (t f : Tree)
  | opaque (n : Nat)      -- the translator gave up here
  deriving Repr

inductive Ev where
  | asked (a : Atom)
  | did (e : Eff)
  deriving Repr

abbrev Env := List (Atom × Bool)

def lookup : Env → Atom → Option Bool
  | [], _ => none
  | (b, v) :: r, a => if a.same b then some v else lookup r a

/-- one complete execution of a piece: what happened, how it ended, which answers it got -/
structure Path where
  evs : List Ev
  exit : Exit
  env : Env
  deriving Repr

def Path.push (e : Ev) (p : Path) : Path := { p with evs := e :: p.evs }

/-- every execution of the tree; a question that was already answered gets the same answer again -/
def Tree.paths (env : Env) : Tree → List Path
  | .leaf x => [{ evs := [], exit := x, env := env }]
  | .opaque n => [{ evs := [.did (.opaque n)], exit := .unknown, env := env }]
  | .eff e k => (k.paths env).map (Path.push (.did e))
  | .ask a t f =>
    match lookup env a with
    | some true => (t.paths env).map (Path.push (.asked a))
    | some false => (f.paths env).map (Path.push (.asked a))
    | none => (t.paths ((a, true) :: env)).map (Path.push (.asked a)) ++
              (f.paths ((a, false) :: env)).map (Path.push (.asked a))

/-! ### event predicates -/

def Ev.isAskClaim : Ev → Bool | .asked .claim => true | _ => false
def Ev.isAskAlive : Ev → Bool | .asked .alive => true | _ => false
def Ev.isStart : Ev → Bool | .did .start => true | _ => false
def Ev.isTerminate : Ev → Bool | .did .terminate => true | _ => false
def Ev.isStop : Ev → Bool | .did .stopPatches => true | _ => false
def Ev.isPop : Ev → Bool | .did .popStdout => true | _ => false
def Ev.isAppend : Ev → Bool | .did .appendOutput => true | _ => false
def Ev.isBump : Ev → Bool | .did .bump => true | _ => false
def Ev.isOpaque : Ev → Bool | .did (.opaque _) => true | _ => false
/-- touches the sandbox's shared state (or may) -/
def Ev.touches : Ev → Bool
  | .did .stopPatches | .did .popStdout | .did .appendOutput | .did .capture | .did .bump | .did (.opaque _) => true
  | _ => false

def Exit.normal : Exit → Bool | .fall | .ret => true | _ => false
def Exit.isTimeout : Exit → Bool | .raiseTimeout => true | _ => false
def Exit.isSystemExit : Exit → Bool | .raiseSystemExit => true | _ => false
def Exit.known : Exit → Bool | .unknown => false | _ => true

/-- `a` then (later) `b` -/
def before (a b : Ev → Bool) : List Ev → Bool
  | [] => false
  | e :: r => (a e && r.any b) || before a b r

/-- nothing that satisfies `bad` strictly before the first event that satisfies `mark` -/
def noneBefore (bad mark : Ev → Bool) : List Ev → Bool
  | [] => true
  | e :: r => mark e || (!bad e && noneBefore bad mark r)

def count (p : Ev → Bool) (l : List Ev) : Nat := (l.filter p).length

/-! ### the grader's side: `timeout()` -/

inductive GCore where | alive | claim | term
  deriving Repr

/-- the part of a path the protocol is about: is_alive / claim_finish / terminate, in order (asking
`is_alive()` again right after asking it is the same question) -/
def graderCore : List Ev → List GCore
  | [] => []
  | .asked .alive :: r =>
    (match graderCore r with
     | .alive :: rest => .alive :: rest
     | rest => .alive :: rest)
  | .asked .claim :: r => .claim :: graderCore r
  | .did .terminate :: r => .term :: graderCore r
  | _ :: r => graderCore r

/-- with the claim protocol: `is_alive()`, then (only if alive) ONE `claim_finish()`, and `terminate()` +
TimeoutError exactly when both said yes -/
def graderPathClaims (p : Path) : Bool :=
  match graderCore p.evs, lookup p.env .alive, lookup p.env .claim with
  | [.alive], some false, none => !p.exit.isTimeout && p.exit.known
  | [.alive, .claim], some true, some false => !p.exit.isTimeout && p.exit.known
  | [.alive, .claim, .term], some true, some true => p.exit.isTimeout
  | _, _, _ => false

/-- the pinned shape: `terminate()` + TimeoutError exactly when alive; the claim is never asked for -/
def graderPathPlain (p : Path) : Bool :=
  match graderCore p.evs, lookup p.env .alive, lookup p.env .claim with
  | [.alive], some false, none => !p.exit.isTimeout && p.exit.known
  | [.alive, .term], some true, none => p.exit.isTimeout
  | _, _, _ => false

/-- does `timeout()` give up on the thread only after winning the claim?  (`none`: cannot tell / neither) -/
def graderClaims (t : Tree) : Option Bool :=
  let ps := (t.paths []).filter (fun p => p.evs.any Ev.isStart)      -- the executions that do start a thread
  let gaveUp := ps.any (fun p => p.evs.any Ev.isTerminate)
  let letGo := ps.any (fun p => lookup p.env .alive == some false)
  if !(gaveUp && letGo) then none
  else if ps.all graderPathClaims && ps.any (fun p => lookup p.env .claim == some false) then some true
  else if ps.all graderPathPlain then some false
  else none

/-! ### the student thread's side: `Sandbox._stop_mocking` -/

def finalizes (p : Path) : Bool :=
  p.exit.normal && p.evs.any Ev.isStop && before Ev.isPop Ev.isAppend p.evs

/-- with the claim protocol: at most one claim, made before anything is touched; made unless the thread is an
ordinary one; lost => SystemExit without touching anything; won / ordinary thread => the finalization.
The machine's student thread finalizes the execution it was started for (`timed` answered yes, or never asked).
Where the code tells that execution from others finishing on the same thread (`timed` answered no: an execution
nested in the timed one, a grading script that itself runs under `timeout()`), those others must finalize like
on an ordinary thread WITHOUT taking the thread's one-shot claim. -/
def studentPathChecks (p : Path) : Bool :=
  count Ev.isAskClaim p.evs ≤ 1 && (!p.evs.any Ev.isAskClaim || noneBefore Ev.touches Ev.isAskClaim p.evs) &&
  (match lookup p.env .timed, lookup p.env .claim with
   | some false, none => finalizes p
   | some false, some _ => false
   | _, some false => !p.evs.any Ev.touches && p.exit.isSystemExit
   | _, some true => finalizes p
   | _, none => lookup p.env .plain == some true && finalizes p)

/-- does `_stop_mocking` start by checking the claim?  `some false` = the pinned shape (never asks, always
finalizes). -/
def studentChecks (t : Tree) : Option Bool :=
  let ps := t.paths []
  if ps.all studentPathChecks && ps.any (fun p => lookup p.env .claim == some false)
      && ps.any (fun p => lookup p.env .claim == some true) then some true
  else if !ps.isEmpty && ps.all (fun p => !p.evs.any Ev.isAskClaim && finalizes p) then some false
  else none

/-! ### the `except TimeoutError` handler (runs in the grader thread: an ordinary thread) -/

def handlerPaths (t : Tree) : List Path := t.paths [(.plain, true)]

/-- the handler pops the execution's stdout buffer (when there is one) and appends its output -/
def handlerPops (t : Tree) : Option Bool :=
  let ps := (handlerPaths t).filter (fun p => lookup p.env .haveStdout != some false)
  if ps.isEmpty then none
  else if ps.all (fun p => before Ev.isPop Ev.isAppend p.evs && p.exit.known) then some true
  else if ps.all (fun p => !p.evs.any Ev.isPop && !p.evs.any Ev.isOpaque && p.exit.known) then some false
  else none

/-- the handler advances `_next_context_id` -/
def handlerBumps (t : Tree) : Option Bool :=
  let ps := handlerPaths t
  if ps.isEmpty then none
  else if ps.all (fun p => p.evs.any Ev.isBump && p.exit.known) then some true
  else if ps.all (fun p => !p.evs.any Ev.isBump && !p.evs.any Ev.isOpaque && p.exit.known) then some false
  else none

/-! ### two sources for one fact -/

/-- read from the source / measured on the running code: the one that knows wins, contradiction = unknown -/
def combine : Option Bool → Option Bool → Option Bool
  | some a, some b => if a == b then some a else none
  | some a, none => some a
  | none, b => b

/-- both halves of the claim protocol, or neither; half a protocol is not a protocol -/
def bothOrNeither : Option Bool → Option Bool → Option Bool
  | some a, some b => if a == b then some a else none
  | _, _ => none

def encOB : Option Bool → String
  | some true => "1" | some false => "0" | none => "?"

end Pedal.TimeoutIR

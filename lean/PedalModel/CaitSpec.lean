import PedalModel.Cait
/-
C10's statement as a decidable checker, written from the property text (not from the matcher):

  `checkMatch p s m root` holds when the AstMap `m` with `match_root = root`, returned for pattern `p` on
  program `s`, is witnessed as an embedding:
   * the pattern (its Module/Expr root wrappers stripped) is paired with the student node `root`;
   * every pattern node that is not below a wildcard is paired (in `m.mappings`) with a student node;
     a concrete node's partner has the same kind and equal plain (literal / identifier) content;
   * the partner of a child is a direct child of the parent's partner, and partners of successive
     children come in strictly increasing child order — except under `+` / `*`, where the operands may
     swap (partners are then only required to be distinct children);
   * a `_v_` placeholder's partner is a node of the same kind, the placeholder key is bound in `m` to the
     identifier that partner carries, and ALL bindings of one key in `m` (variable, function and class
     tables together) name one identifier;
   * an `__e__` placeholder's key is bound in `m.exps`, and every `m.exps` entry is the path of the partner
     of an `__e__` placeholder of that name: for a name used once, exactly the student subtree standing
     at its position (`exp_exact` in PedalProofs).
  It deliberately does not look at AST field names of the partners (see DESIGN §4 C10).

Wildcards of the pattern language: `___` (a Name, an argument, or an expression statement consisting of
it), `__e__` (a Name, or an expression statement consisting of it), `pass` (documented: "an empty body
matches anything"); `Module` and the expression-statement node `Expr` carry no content of their own and
may pair with any node.  The `ctx` child of a pattern `Name` is not a pattern node of its own (a Name
stands for the identifier wherever it is used).  Fields called `ctx` / `args` never hold plain values in
CPython's grammar and are not content.
-/
namespace Pedal.Cait

/-- descend through single-child Module / Expr root wrappers -/
def stripWrappers : T → Path → T × Path
  | .mk k f fl [c], path =>
    if k = "Module" || k = "Expr" then stripWrappers c (path ++ [0]) else (.mk k f fl [c], path)
  | t, path => (t, path)

/-- the node at a path -/
def T.at? : T → Path → Option T
  | t, [] => some t
  | .mk _ _ _ kids, i :: rest =>
    match kids[i]? with
    | some c => c.at? rest
    | none => none

inductive Role where
  | wildcard                       -- `___`, `pass`
  | expPh (key : String)           -- `__e__`
  | wrapper                        -- Module, Expr
  | concrete
  deriving Repr, DecidableEq

/-- which attribute holds the identifier of an identifier-carrying node -/
def identField (kind : String) : Option String :=
  if kind = "Name" then some "id"
  else if kind = "arg" then some "arg"
  else if kind = "Attribute" then some "attr"
  else if kind = "FunctionDef" || kind = "ClassDef" then some "name"
  else none

def role (p : T) : Role :=
  if p.kind = "Pass" then .wildcard
  else if p.kind = "Name" then
    match nameClass (p.strAttr "id") with
    | .wild => .wildcard
    | .exp => .expPh (p.strAttr "id")
    | _ => .concrete
  else if p.kind = "arg" then
    if nameClass (p.strAttr "arg") = .wild then .wildcard else .concrete
  else if p.kind = "Expr" then
    match p.kids.head? with
    | some v =>
      if v.kind = "Name" then
        match nameClass (v.strAttr "id") with
        | .wild => .wildcard
        | .exp => .expPh (v.strAttr "id")
        | _ => .wrapper
      else .wrapper
    | none => .wrapper
  else if p.kind = "Module" then .wrapper
  else .concrete

/-- a field holding only plain values (one, or a non-empty list of them) -/
def plainItems (v : FVal) : Option (List Item) :=
  match v with
  | .none => none
  | .one (.prim x) => some [.prim x]
  | .one .node => none
  | .many l => if !l.isEmpty && l.all Item.isPrim then some l else none

def structuralField (name : String) : Bool := name = "ctx" || name = "args"

/-- one pattern field against the student's field at the same position -/
def fieldContentOk (skip : Option String) (fi fs : Fld) : Bool :=
  match plainItems fi.val with
  | none => true
  | some items =>
    structuralField fi.name || some fi.name = skip ||
      (fi.name = fs.name && (!fs.val.items.all Item.isPrim || fs.val.items = items))

/-- equal plain content, field by field (`ast.iter_fields` order is fixed by the kind), except the field
`skip`; a student field that holds AST nodes (`{**a, 1: 2}` has keys `[None, 1]`) is a list of children,
not content -/
def contentEq (skip : Option String) (p s : T) : Bool :=
  p.flds.length ≤ s.flds.length && zipAll (fieldContentOk skip) p.flds s.flds

def hasBind (m : AstMap) (k x : String) : Bool :=
  m.binds.any (fun b => b.key = k && b.id = x)

/-- kind and content of a concrete pattern node against its partner -/
def nodeOk (m : AstMap) (p s : T) : Bool :=
  p.kind = s.kind &&
  match identField p.kind with
  | none => contentEq none p s
  | some f =>
    let name := p.strAttr f
    let sname := s.strAttr f
    (nameClass name = .var && hasBind m name sname) || nameClass name = .wild ||
      contentEq none p s || (contentEq (some f) p s && name = sname)

def flexOp (p : T) : Bool :=
  p.kind = "BinOp" && (kidKind p.kids 1 = "Mult" || kidKind p.kids 1 = "Add")

mutual
/-- pattern node `p` (at `pp`) is embedded at student node `s` (at `sp`) -/
def embAt (m : AstMap) (pp : Path) (p : T) (sp : Path) (s : T) : Bool :=
  match p with
  | .mk kind field flds kids =>
    dictGet pp m.mappings = some sp &&
    match role (.mk kind field flds kids) with
    | .wildcard => true
    | .expPh k => (dictGet k m.exps).isSome
    | .wrapper => embKids m pp 0 kids sp s true 0 []
    | .concrete =>
      nodeOk m (.mk kind field flds kids) s &&
      (kind = "Name" || embKids m pp 0 kids sp s (!flexOp (.mk kind field flds kids)) 0 [])

/-- children `kids` (from index `i`) have partners among the children of `s`:
ordered ⇒ indices ≥ `minJ`, increasing; otherwise ⇒ pairwise distinct (`used`). -/
def embKids (m : AstMap) (pp : Path) (i : Nat) (kids : List T) (sp : Path) (s : T)
    (ordered : Bool) (minJ : Nat) (used : List Nat) : Bool :=
  match kids with
  | [] => true
  | pc :: rest =>
    match dictGet (pp ++ [i]) m.mappings with
    | none => false
    | some q =>
      match q.getLast? with
      | none => false
      | some j =>
        q = sp ++ [j] &&
        (if ordered then j ≥ minJ else !used.contains j) &&
        (match s.kids[j]? with
         | some sj => embAt m (pp ++ [i]) pc q sj
         | none => false) &&
        embKids m pp (i + 1) rest sp s ordered (j + 1) (j :: used)
end

mutual
/-- some `__e__` placeholder called `k` in `p` (at `pp`) has partner `v` -/
def expSomewhere (m : AstMap) (k : String) (v : Path) (pp : Path) (p : T) : Bool :=
  match p with
  | .mk kind f fl kids =>
    (role (.mk kind f fl kids) = .expPh k && dictGet pp m.mappings = some v) ||
    expSomewhereL m k v pp 0 kids
def expSomewhereL (m : AstMap) (k : String) (v : Path) (pp : Path) (i : Nat) (kids : List T) : Bool :=
  match kids with
  | [] => false
  | t :: ts => expSomewhere m k v (pp ++ [i]) t || expSomewhereL m k v pp (i + 1) ts
end

/-- every `exps` entry is the partner of some `__e__` placeholder of that name -/
def expsOk (m : AstMap) (pp : Path) (p : T) : Bool :=
  m.exps.all fun kv => expSomewhere m kv.1 kv.2 pp p

/-- all bindings of one placeholder key name one identifier -/
def singleIdent (m : AstMap) : Bool :=
  m.binds.all fun a => m.binds.all fun b => a.key ≠ b.key || a.id = b.id

mutual
/-- shape assumption on PATTERN trees used by the theorems (true of every `ast` tree; the driver checks
it on every request): the operator nodes `Add` / `Mult` have no children -/
def opLeaves (t : T) : Bool :=
  match t with
  | .mk k _ _ kids => (!(k = "Add" || k = "Mult") || kids.isEmpty) && opLeavesL kids
def opLeavesL (ts : List T) : Bool :=
  match ts with
  | [] => true
  | t :: rest => opLeaves t && opLeavesL rest
end

mutual
/-- second shape assumption (C11 only; also true of every `ast` tree and checked by the driver): a `BinOp`
node has exactly three children (left, op, right) -/
def binOp3 (t : T) : Bool :=
  match t with
  | .mk k _ _ kids => (!(k = "BinOp") || kids.length = 3) && binOp3L kids
def binOp3L (ts : List T) : Bool :=
  match ts with
  | [] => true
  | t :: rest => binOp3 t && binOp3L rest
end

/-- C10's first sentence for one returned match -/
def checkMatch (p s : T) (m : AstMap) (root : Option Path) : Bool :=
  let pr := stripWrappers p []
  match root with
  | none => false
  | some r =>
    match s.at? r with
    | none => false
    | some sr =>
      embAt m pr.2 pr.1 r sr && expsOk m pr.2 pr.1 && singleIdent m && m.conflicts.isEmpty

/-! ### C10's second sentence: absent content -/

/-- could the concrete pattern node `q` be paired with student node `t` under SOME bindings? -/
def couldMatch (q t : T) : Bool :=
  q.kind = t.kind &&
  match identField q.kind with
  | none => contentEq none q t
  | some f =>
    nameClass (q.strAttr f) = .var || nameClass (q.strAttr f) = .wild ||
      contentEq none q t || (contentEq (some f) q t && q.strAttr f = t.strAttr f)

mutual
/-- all nodes of a tree -/
def T.nodes (t : T) : List T :=
  match t with
  | .mk k f fl kids => .mk k f fl kids :: nodesL kids
def nodesL (ts : List T) : List T :=
  match ts with
  | [] => []
  | t :: rest => t.nodes ++ nodesL rest
end

mutual
/-- the concrete nodes of a pattern that every match has to pair: those not below a wildcard /
placeholder (and not the `ctx` of a Name) -/
def required (p : T) : List T :=
  match p with
  | .mk k f fl kids =>
    match role (.mk k f fl kids) with
    | .wildcard => []
    | .expPh _ => []
    | .wrapper => requiredL kids
    | .concrete => .mk k f fl kids :: (if k = "Name" then [] else requiredL kids)
def requiredL (ps : List T) : List T :=
  match ps with
  | [] => []
  | p :: rest => required p ++ requiredL rest
end

/-! ### C11: "the pattern is a generalisation of this fragment of the program", decided for one concrete case

Bool mirror of the relation `genAt` of PedalProofs/CaitGen.lean (proved sound for it there: `genChk_sound`),
with the correspondence between pattern nodes and program nodes GIVEN as an alignment `al` (pattern path ↦
program path; the harness knows it from the derivation), the expected identifier of every `_v_` key (`rho`) and
the expected path of every `__e__` key (`eps`).  `genCase` decides the hypotheses of the C11 theorem
`c11_generalised_fragment_matches` for a pattern / program pair; the driver evaluates it on every derived case. -/

/-- the identifier field of a node whose identifier is a `_v_` / `___` placeholder is not compared -/
def skipField (p : T) : Option String :=
  match identField p.kind with
  | none => none
  | some f =>
    match nameClass (p.strAttr f) with
    | .var => some f
    | .wild => some f
    | _ => none


def fldGenB (skip : Option String) (fi fs : Fld) : Bool :=
  fi.name = fs.name &&
    (some fi.name = skip || fi.val = .none || fi.val = fs.val ||
      match fi.val with
      | .one .node => true
      | .many li => li.all (fun x => x = Item.node)
      | _ => false)

def fldsGenB (skip : Option String) : List Fld → List Fld → Bool
  | [], [] => true
  | a :: as, b :: bs => fldGenB skip a b && fldsGenB skip as bs
  | _, _ => false

def rhoF (rho : List (String × String)) (k : String) : String := (dictGet k rho).getD ""
def epsF (eps : List (String × Path)) (k : String) : Option Path := dictGet k eps

def identGenB (rho : List (String × String)) (p t : T) : Bool :=
  match identField p.kind with
  | none => true
  | some f =>
    match nameClass (p.strAttr f) with
    | .var => rhoF rho (p.strAttr f) = t.strAttr f
    | .wild => true
    | _ => p.strAttr f = t.strAttr f

def nodeGenB (rho : List (String × String)) (p t : T) : Bool :=
  t.kind = p.kind && fldsGenB (skipField p) p.flds t.flds && identGenB rho p t

def opGenB (op sop : T) : Bool :=
  sop.kind = op.kind && op.field = sop.field && fldsGenB none op.flds sop.flds

mutual
def genChk (rho : List (String × String)) (eps : List (String × Path)) (al : List (Path × Path))
    (pp : Path) (p : T) (sp : Path) (t : T) : Bool :=
  match p with
  | .mk k f fl kids =>
    match role (.mk k f fl kids) with
    | .expPh name => dictGet name eps = some sp
    | r =>
      if (k = "Name" || k = "Expr") && r = .wildcard then true
      else
        nodeGenB rho (.mk k f fl kids) t &&
        if flexOp (.mk k f fl kids) then genChkFlex rho eps al pp kids sp t
        else genChkKids rho eps al (if k = "Name" then ["ctx"] else []) pp 0 kids sp 0 t

def genChkFlex (rho : List (String × String)) (eps : List (String × Path)) (al : List (Path × Path))
    (pp : Path) (kids : List T) (sp : Path) (t : T) : Bool :=
  match kids with
  | [l, op, rr] =>
    match t.kids with
    | [sl, sop, sr] =>
      opGenB op sop && l.field = sl.field && rr.field = sr.field &&
        genChk rho eps al (pp ++ [0]) l (sp ++ [0]) sl && genChk rho eps al (pp ++ [2]) rr (sp ++ [2]) sr
    | _ => false
  | _ => false

def genChkKids (rho : List (String × String)) (eps : List (String × Path)) (al : List (Path × Path))
    (ig : List String) (pp : Path) (i : Nat) (ps : List T) (sp : Path) (minJ : Nat) (t : T) : Bool :=
  match ps with
  | [] => true
  | pc :: rest =>
    if ig.contains pc.field then genChkKids rho eps al ig pp (i + 1) rest sp minJ t
    else
      match dictGet (pp ++ [i]) al with
      | none => false
      | some q =>
        match q.getLast? with
        | none => false
        | some j =>
          q = sp ++ [j] && decide (minJ ≤ j) &&
          (match t.kids[j]? with
           | some sj => pc.field = sj.field && genChk rho eps al (pp ++ [i]) pc q sj
           | none => false) &&
          genChkKids rho eps al ig pp (i + 1) rest sp (j + 1) t
end


/-- the hypotheses of `c11_generalised_fragment_matches`, decided for one concrete case: the pattern `p`, the
program `s`, the expected bindings and the alignment (pattern path ↦ program path) of the derivation -/
def genCase (p s : T) (rho : List (String × String)) (eps : List (String × Path)) (al : List (Path × Path)) : Bool :=
  let pr := trimGo p []
  let sr := trimRoot s
  opLeaves p &&
  match dictGet pr.2 al with
  | none => false
  | some P =>
    sr.2.isPrefixOf P &&
    match sr.1.at? (P.drop sr.2.length) with
    | none => false
    | some t => genChk rho eps al pr.2 pr.1 P t && (rootField p = "none" || rootField p = t.field)


end Pedal.Cait

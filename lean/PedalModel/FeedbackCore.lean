import PedalModel.FeedbackCoreFormat
/-
Executable model of constructing a feedback object:
  pedal/core/feedback.py  Feedback.__init__ → _handle_condition → _get_justification / _get_message /
                          _get_else_message, __bool__
  pedal/core/report.py    add_feedback / add_ignored_feedback, get_current_group, start_group / stop_group

`construct O w spec` is `SomeFeedbackClass(**keywords)` against the report `w`:
the outcome of the class's `condition` (`CondOutcome`) and, for classes that override `_get_message`,
of that method (`MsgOutcome`) are inputs; the default `_get_message` is modelled (explicit message >
template∘fields > default constant).  Class-level defaults are looked up in the class-attribute store
through the MRO, so `override()` changes what later constructions see.

Core Lean only.
-/
namespace Pedal.FeedbackCore
open Pedal.Gen.FeedbackCore

inductive CondOutcome where
  | default                       -- `Feedback.condition`: returns `self.activate`
  | returns (truthy : Bool)       -- a custom condition returning a truthy / falsy value
  | raises (e : Exc)
  deriving DecidableEq, Repr, BEq

inductive MsgOutcome where
  | default                       -- `Feedback._get_message`
  | returns (m : Option String)   -- a custom `_get_message` returning this (None allowed)
  | raises (e : Exc)
  deriving DecidableEq, Repr, BEq

/-- `Feedback.parent`: nothing, a plain section/group label (int or str), or a feedback-group object. -/
inductive Parent where
  | none
  | scalar (repr : String)
  | group (gid : Nat)
  deriving DecidableEq, Repr, BEq

inductive Status where
  | active | inactive | error | delayed | unset
  deriving DecidableEq, Repr, BEq

def Status.text : Status → String
  | .active => statusActive | .inactive => statusInactive | .error => statusError
  | .delayed => statusDelayed | .unset => "<unset>"

/-- The keyword arguments arriving at `Feedback.__init__`. -/
structure FbSpec where
  cls : String
  label : Option String := none
  title : Option String := none
  message : Option String := none
  messageTemplate : Option Template := none
  elseMessage : Option String := none
  elseMessageTemplate : Option Template := none
  justification : Option String := none
  fields : Option (List (String × FVal)) := none
  fieldNames : Option (List String) := none
  kwargs : List (String × FVal) := []
  activate : Bool := true
  delay : Bool := false
  parent : Parent := .none
  cond : CondOutcome := .default
  msg : MsgOutcome := .default
  deriving Repr

/-- The instance after `__init__`.  The `…I` components are INSTANCE attributes: `none` = not set on the
    instance (attribute access falls through to the class, so a later `override()` is seen),
    `some v` = set to `v` (which may be `None`).  Templates are only ever set from keywords. -/
structure FbObj where
  id : Nat
  cls : String
  label : String
  titleI : Option (Option String)
  messageI : Option (Option String)
  messageTemplateI : Option Template
  elseMessageI : Option (Option String)
  elseMessageTemplateI : Option Template
  justificationI : Option (Option String)
  unusedMessage : Option String
  fields : List (String × FVal)
  parent : Parent
  activate : Bool
  cond : CondOutcome
  msg : MsgOutcome
  met : Bool                 -- `bool(feedback)`
  status : Status
  exc : Option Exc
  deriving Repr

/-- The report (the part construction touches) together with the class-attribute store. -/
structure World where
  store : Store
  fmtId : String                        -- which formatter object `report.format` is
  avail : List String                   -- `report.format.available`
  feedback : List Nat                   -- ids, in order
  ignored : List Nat
  groups : List Parent                  -- `report.groups`
  childLog : List (Nat × Nat × Bool)    -- `_get_child_feedback(fb, active)` calls received by group objects
  nextId : Nat

/-- dict assignment `d[k] = v` -/
def setField (fs : List (String × FVal)) (k : String) (v : FVal) : List (String × FVal) :=
  if fs.any (fun p => p.1 == k) then fs.map (fun p => if p.1 == k then (k, v) else p) else fs ++ [(k, v)]

def updateFields (fs : List (String × FVal)) (upd : List (String × FVal)) : List (String × FVal) :=
  upd.foldl (fun acc p => setField acc p.1 p.2) fs

def classStr (s : Store) (c a : String) : Option String :=
  match s.lookup c a with
  | some (.str x) => some x
  | _ => none

def classTmpl (s : Store) (c a : String) : Option Template :=
  match s.lookup c a with
  | some (.tmpl _ t) => some t
  | _ => none

def classFields (s : Store) (c a : String) : Option (List (String × FVal)) :=
  match s.lookup c a with
  | some (.fields f) => some f
  | _ => none

def classNames (s : Store) (c a : String) : Option (List String) :=
  match s.lookup c a with
  | some (.names f) => some f
  | _ => none

/-- The token standing for Python's `None` among field values. -/
def noneTok : FVal := "None"

/-- instance attribute if set, else the class attribute -/
def instOr {α} (i : Option (Option α)) (cls : Option α) : Option α :=
  match i with
  | some v => v
  | none => cls

/-! attribute access on the instance (`self.message` …) against the class store as it is now -/
def FbObj.title (s : Store) (o : FbObj) : Option String := instOr o.titleI (classStr s o.cls "title")
def FbObj.message (s : Store) (o : FbObj) : Option String := instOr o.messageI (classStr s o.cls "message")
def FbObj.elseMessage (s : Store) (o : FbObj) : Option String := instOr o.elseMessageI (classStr s o.cls "else_message")
def FbObj.justification (s : Store) (o : FbObj) : Option String :=
  instOr o.justificationI (classStr s o.cls "justification")
def FbObj.messageTemplate (s : Store) (o : FbObj) : Option Template :=
  o.messageTemplateI <|> classTmpl s o.cls "message_template"
def FbObj.elseMessageTemplate (s : Store) (o : FbObj) : Option Template :=
  o.elseMessageTemplateI <|> classTmpl s o.cls "else_message_template"
def FbObj.justificationTemplate (s : Store) (o : FbObj) : Option Template :=
  classTmpl s o.cls "justification_template"

/-- `Feedback.__init__` up to (not including) the condition handling. -/
def initObj (w : World) (sp : FbSpec) : FbObj :=
  let s := w.store
  let c := sp.cls
  let fields0 := sp.fields.getD []
  let fields1 := match classFields s c "constant_fields" with
    | some cf => updateFields fields0 cf
    | none => fields0
  let fieldNames := sp.fieldNames <|> classNames s c "field_names"
  let fields2 := match fieldNames with
    | some ns => ns.foldl (fun acc n => setField acc n ((sp.kwargs.lookup n).getD noneTok)) fields1
    | none => fields1
  let fields3 := updateFields fields2 sp.kwargs
  { id := w.nextId
    cls := c
    label := sp.label.getD c
    titleI := match sp.title with
      | some t => some (some t)
      | none => match classStr s c "title" with
        | some _ => none
        | none => some sp.label            -- `elif self.title is None: self.title = label`
    messageI := sp.message.map some
    messageTemplateI := sp.messageTemplate
    elseMessageI := sp.elseMessage.map some
    elseMessageTemplateI := sp.elseMessageTemplate
    justificationI := sp.justification.map some
    unusedMessage := none
    fields := fields3
    parent := match sp.parent with
      | .none => (w.groups.getLast?).getD .none
      | p => p
    activate := sp.activate
    cond := sp.cond
    msg := sp.msg
    met := false
    status := if sp.delay then .delayed else .unset
    exc := none }

/-- `_get_justification(met)` for string justifications / string templates. -/
def getJustification (O : Oracle) (F : String) (avail : List String) (s : Store) (o : FbObj) (met : Bool) :
    Except Exc (Option String) :=
  match o.justification s with
  | some j => .ok (some (if met then j else unmetPrefix ++ j))
  | none =>
    match o.justificationTemplate s with
    | some t =>
      match render O F avail o.fields (.lit unmetPrefix :: t) with
      | .ok r => .ok (some r)
      | .error e => .error e
    | none => .ok defaultJustification

/-- `Feedback._get_message` (the default implementation). -/
def defaultMessage (O : Oracle) (F : String) (avail : List String) (s : Store) (o : FbObj) : Except Exc (Option String) :=
  match o.message s with
  | some m => .ok (some m)
  | none =>
    match o.messageTemplate s with
    | some t =>
      match render O F avail o.fields t with
      | .ok r => .ok (some r)
      | .error e => .error e
    | none => .ok defaultFeedbackMessage

/-- `self._get_message()` for this object's class. -/
def getMessage (O : Oracle) (F : String) (avail : List String) (s : Store) (o : FbObj) : Except Exc (Option String) :=
  match o.msg with
  | .default => defaultMessage O F avail s o
  | .returns m => .ok m
  | .raises e => .error e

def getElseMessage (O : Oracle) (F : String) (avail : List String) (s : Store) (o : FbObj) : Except Exc (Option String) :=
  match o.elseMessage s with
  | some m => .ok (some m)
  | none =>
    match o.elseMessageTemplate s with
    | some t =>
      match render O F avail o.fields t with
      | .ok r => .ok (some r)
      | .error e => .error e
    | none => .ok defaultElseMessage

/-- what `self.condition(...)` does -/
def evalCond (o : FbObj) : Except Exc Bool :=
  match o.cond with
  | .default => .ok o.activate
  | .returns b => .ok b
  | .raises e => .error e

def failWith (o : FbObj) (e : Exc) : FbObj := { o with met := false, exc := some e, status := .error }

/-- The `try:` block of `_handle_condition`, including what it has already assigned when it fails. -/
def evalHandle (O : Oracle) (F : String) (avail : List String) (s : Store) (o : FbObj) : FbObj :=
  let o := { o with exc := none }
  match evalCond o with
  | .error e => failWith o e
  | .ok met =>
    let o := { o with met := met }
    match getJustification O F avail s o met with
    | .error e => failWith o e
    | .ok j =>
      let o := { o with justificationI := some j }
      if met then
        match getMessage O F avail s o with
        | .error e => failWith o e
        | .ok m => { o with messageI := some m, status := .active }
      else
        match getElseMessage O F avail s o with
        | .error e => failWith o e
        | .ok em =>
          let o := { o with elseMessageI := some em, messageI := some em }
          let unused := match getMessage O F avail s o with
            | .ok m => m
            | .error _ => some ""
          { o with unusedMessage := unused, status := .inactive }

/-- `report.add_feedback` / `report.add_ignored_feedback` (the `pedal.report.add_feedback` hook list is
    empty unless a script registered one; hooks are instructor code and not modelled here). -/
def record (w : World) (o : FbObj) : World :=
  let log := match o.parent with
    | .group g => w.childLog ++ [(g, o.id, o.met)]
    | _ => w.childLog
  if o.met then { w with feedback := w.feedback ++ [o.id], childLog := log }
  else { w with ignored := w.ignored ++ [o.id], childLog := log }

structure Answer where
  obj : FbObj
  raised : Option Exc
  deriving Repr

/-- `_handle_condition()` -/
def handle (O : Oracle) (w : World) (o : FbObj) : World × Answer :=
  let o' := evalHandle O w.fmtId w.avail w.store o
  (record w o', ⟨o', o'.exc⟩)

/-- `SomeFeedbackClass(**keywords)` -/
def construct (O : Oracle) (w : World) (sp : FbSpec) : World × Answer :=
  let o := initObj w sp
  let w1 := { w with nextId := w.nextId + 1 }
  if sp.delay then (w1, ⟨o, none⟩) else handle O w1 o

/-- Did the condition hold (raising counts as not holding)? -/
def condHeld (sp : FbSpec) : Bool :=
  match sp.cond with
  | .default => sp.activate
  | .returns b => b
  | .raises _ => false

def startGroup (w : World) (p : Parent) : World := { w with groups := w.groups ++ [p] }

/-- `list.remove(group)`: first occurrence -/
def stopGroup (w : World) (p : Parent) : World := { w with groups := w.groups.erase p }

end Pedal.FeedbackCore

/-
C19 — enumerations shared by the generated tables (Gen/TypeTables.lean) and the model (TypeOps.lean).
-/
namespace Pedal.Types

/-- the class of a pedal `Type` object (`type(t)`), the key of every table lookup -/
inductive Key
  | any | impossible | none | num | int | float | bool | str
  | litInt | litFloat | litBool | litStr
  | list | set | fset | tuple | dict
  | other (name : String)
  deriving DecidableEq, Repr, Inhabited

inductive BinOp
  | add | sub | mult | div | floordiv | mod | pow | lshift | rshift | bitor | bitxor | bitand | matmult
  | unknown (name : String)
  deriving DecidableEq, Repr, Inhabited

inductive CmpOp
  | eq | noteq | lt | lte | gt | gte | is | isnot | «in» | notin
  | unknown (name : String)
  deriving DecidableEq, Repr, Inhabited

inductive Op
  | bin (o : BinOp)
  | cmp (o : CmpOp)
  deriving DecidableEq, Repr, Inhabited

/-- the result functions `VALID_BINOP_TYPES` cells point to (function identity, by name) -/
inductive ResFn
  | numAny | intAny | floatAny | strAny | boolAny | keepLeft | keepRight | addContainers | addTuples
  | unknown (name : String)
  deriving DecidableEq, Repr, Inhabited

/-- run-time classes: the five core ones plus what operators on them can produce -/
inductive Cls
  | int | float | str | list | tuple | bool | complex
  | other (name : String)
  deriving DecidableEq, Repr, Inhabited

end Pedal.Types

/-
A small imperative IR for the body of `FinalFeedback.merge` after its suppression blocks, and for the
branch conditions of `FinalFeedback.finalize` (pedal/core/final_feedback.py).

`harness/translate_merge.py` walks the Python AST of those two methods on every run and regenerates
`PedalModel/Gen/MergeProgram.lean` in this IR: conditions are translated compositionally into `BExp`
(boolean structure over a fixed set of observation atoms), statements into `Stmt` (if / return / the
recognised state updates).  Anything the translator does not understand becomes `BExp.unknown` /
`Stmt.opaque`, which make `run` answer `none`, so the agreement theorem (`merge_ir_agrees`, proved by
`decide` over every observation) fails and the driver answers `unmodelled-merge`.

Core Lean only.
-/
namespace Pedal.MergeIR

/-- `feedback.kind` as far as `merge` distinguishes it. -/
inductive KindTag | compliment | instructional | other
  deriving Repr, BEq, DecidableEq

/-- What the conditions of `merge`'s tail read (truthiness / None-ness of attributes). -/
structure Obs where
  triggered : Bool      -- `bool(feedback)`
  muted : Bool          -- truthiness of `feedback.muted`
  unscored : Bool       -- truthiness of `feedback.unscored`
  scoreNotNone : Bool   -- `feedback.score is not None`
  valenceNeNeg : Bool   -- `feedback.valence != feedback.NEGATIVE_VALENCE`
  elseMsg : Bool        -- truthiness of `feedback.else_message`
  fbCorrect : Bool      -- truthiness of `feedback.correct`
  msgNotNone : Bool     -- `feedback.message is not None`
  catSystem : Bool      -- `feedback.category == Feedback.CATEGORIES.SYSTEM`
  kind : KindTag
  selfMsgNone : Bool    -- `self.message is None`   (changes when the message is taken)
  selfCorrect : Bool    -- truthiness of `self.correct`  (changes when correctness is updated)
  deriving Repr, BEq, DecidableEq

inductive BExp
  | const (b : Bool)
  | triggered | muted | unscored | scoreNotNone | valenceNeNeg | elseMsg | fbCorrect | msgNotNone
  | catSystem | selfMsgNone | selfCorrect
  | kindEq (k : KindTag)
  | not (a : BExp)
  | and (a b : BExp)
  | or (a b : BExp)
  | beq (a b : BExp)            -- `==` between two genuinely boolean expressions
  | unknown (src : String)      -- not understood by the translator
  deriving Repr, BEq

def BExp.eval (o : Obs) : BExp → Option Bool
  | .const b => some b
  | .triggered => some o.triggered
  | .muted => some o.muted
  | .unscored => some o.unscored
  | .scoreNotNone => some o.scoreNotNone
  | .valenceNeNeg => some o.valenceNeNeg
  | .elseMsg => some o.elseMsg
  | .fbCorrect => some o.fbCorrect
  | .msgNotNone => some o.msgNotNone
  | .catSystem => some o.catSystem
  | .selfMsgNone => some o.selfMsgNone
  | .selfCorrect => some o.selfCorrect
  | .kindEq k => some (decide (o.kind = k))
  | .not a => (a.eval o).map (!·)
  | .and a b => match a.eval o, b.eval o with
    | some x, some y => some (x && y)
    | _, _ => none
  | .or a b => match a.eval o, b.eval o with
    | some x, some y => some (x || y)
    | _, _ => none
  | .beq a b => match a.eval o, b.eval o with
    | some x, some y => some (x == y)
    | _, _ => none
  | .unknown _ => none

/-- The lists of the final feedback `merge` appends the feedback to. -/
inductive ListTag | considered | systems | positives | instructions
  deriving Repr, BEq, DecidableEq

/-- Observable state updates of one `merge` call, in execution order. -/
inductive Effect
  | append (l : ListTag)
  | pushScore (inverted : Bool)        -- `self._scores.append(f"{inversion}{partial}")`
  | resolvedScore (inverted : Bool)    -- `feedback.resolved_score = Score.parse(...)...`
  | setCorrect (v : Bool)              -- `self.success = self.correct = <v>`
  | takeMessage                        -- message/title/category/label(/data) := this feedback's; used += [fb]
  | ret (feedback : Bool)              -- `return feedback` / `return`
  deriving Repr, BEq, DecidableEq

inductive Stmt
  | ite (c : BExp) (t e : List Stmt)
  | append (l : ListTag)
  | pushScore (inv : BExp)
  | resolvedScore (inv : BExp)
  | setCorrect (v : BExp)
  | takeMessage
  | ret (feedback : Bool)
  | opaque (src : String)              -- not understood by the translator
  deriving Repr

/-- Result of running a statement list: the observation (as updated), the effects so far (reversed is
    avoided: appended), and whether a `return` was executed. -/
structure Run where
  obs : Obs
  effects : List Effect
  returned : Bool
  deriving Repr, BEq, DecidableEq

mutual
def runStmt (s : Stmt) (r : Run) : Option Run :=
  match s with
  | .ite c t e =>
    match c.eval r.obs with
    | some true => runList t r
    | some false => runList e r
    | none => none
  | .append l => some { r with effects := r.effects ++ [.append l] }
  | .pushScore inv => (inv.eval r.obs).map fun b => { r with effects := r.effects ++ [.pushScore b] }
  | .resolvedScore inv => (inv.eval r.obs).map fun b => { r with effects := r.effects ++ [.resolvedScore b] }
  | .setCorrect v => (v.eval r.obs).map fun b =>
      { r with obs := { r.obs with selfCorrect := b }, effects := r.effects ++ [.setCorrect b] }
  | .takeMessage => some { r with obs := { r.obs with selfMsgNone := false }, effects := r.effects ++ [.takeMessage] }
  | .ret fb => some { r with effects := r.effects ++ [.ret fb], returned := true }
  | .opaque _ => none
def runList (ss : List Stmt) (r : Run) : Option Run :=
  match ss with
  | [] => some r
  | s :: rest =>
    match runStmt s r with
    | none => none
    | some r' => if r'.returned then some r' else runList rest r'
end

/-- Effects of a whole method body on one observation; falling off the end is `return None`. -/
def run (body : List Stmt) (o : Obs) : Option (List Effect) :=
  (runList body { obs := o, effects := [], returned := false }).map fun r =>
    if r.returned then r.effects else r.effects ++ [.ret false]

/-! ### finalize -/

/-- What `finalize`'s conditions read. -/
structure FinObs where
  msgNone : Bool        -- `self.message is None`
  hide : Bool           -- truthiness of `self.hide_correctness` (as just assigned from the suppressions)
  usedEmpty : Bool      -- `not self.used`
  labelDefault : Bool   -- `self.label == self.DEFAULT_NO_FEEDBACK_LABEL`
  catComplete : Bool    -- `self.category == Feedback.CATEGORIES.COMPLETE`
  deriving Repr, BEq, DecidableEq

inductive FExp
  | const (b : Bool)
  | msgNone | hide | usedEmpty | labelDefault | catComplete
  | not (a : FExp) | and (a b : FExp) | or (a b : FExp)
  | unknown (src : String)
  deriving Repr, BEq

def FExp.eval (o : FinObs) : FExp → Option Bool
  | .const b => some b
  | .msgNone => some o.msgNone
  | .hide => some o.hide
  | .usedEmpty => some o.usedEmpty
  | .labelDefault => some o.labelDefault
  | .catComplete => some o.catComplete
  | .not a => (a.eval o).map (!·)
  | .and a b => match a.eval o, b.eval o with
    | some x, some y => some (x && y)
    | _, _ => none
  | .or a b => match a.eval o, b.eval o with
    | some x, some y => some (x || y)
    | _, _ => none
  | .unknown _ => none

/-- The recognised shape of `finalize`: `if <defaultMsgCond>: title/message := the no-feedback defaults`,
    `hide_correctness := suppressions.get('correct', suppressions.get('success', False))`,
    `if <completeCond>: complete branch (title, message, score 1, correct) else: score := combine_scores`,
    `correct := bool(correct)`.  `shapeOk = false` when any of those pieces was not found as such. -/
structure FinProgram where
  defaultMsgCond : FExp
  completeCond : FExp
  hideKeys : List String        -- keys looked up in the suppressions, outermost first
  shapeOk : Bool
  deriving Repr

end Pedal.MergeIR

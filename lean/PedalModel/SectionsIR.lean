/-
Integer-expression IR for the arithmetic of `pedal.source.sections.next_section` and
`_calculate_section_number`.  `harness/translate_sections.py` walks their Python AST on every run and
regenerates `PedalModel/Gen/SectionsProgram.lean` in this IR; whatever it does not understand becomes
`AExp.unknown`, which evaluates to `none`, so the agreement theorem `sections_ir_agrees` fails and the driver
answers `unmodelled-next-section`.

Core Lean only.
-/
namespace Pedal.SectionsIR

/-- Variables an expression of `next_section` may read. -/
structure Env where
  idx : Int      -- `source['section']` AFTER the increment (`section_index`)
  len : Int      -- `len(source['sections'])`
  nl : Int       -- number of "\n" in `old_code`  (so `len(old_code.split("\n")) = nl + 1`)
  number : Int   -- `section_number`
  found : Int    -- `found`
  param : Int    -- the parameter of `_calculate_section_number`

inductive AExp
  | idx | len | nl | number | found | param
  | splitLen                        -- `len(old_code.split("\n"))`  = nl + 1
  | const (n : Int)
  | add (a b : AExp)
  | sub (a b : AExp)
  | mul (a b : AExp)
  | floordiv (a : AExp) (d : Nat)   -- `a // d`, or `int(a / d)` (the same on the non-negative values that occur)
  | unknown (src : String)
  deriving Repr

def AExp.eval (e : Env) : AExp → Option Int
  | .idx => some e.idx
  | .len => some e.len
  | .nl => some e.nl
  | .number => some e.number
  | .found => some e.found
  | .param => some e.param
  | .splitLen => some (e.nl + 1)
  | .const n => some n
  | .add a b => match a.eval e, b.eval e with
    | some x, some y => some (x + y)
    | _, _ => none
  | .sub a b => match a.eval e, b.eval e with
    | some x, some y => some (x - y)
    | _, _ => none
  | .mul a b => match a.eval e, b.eval e with
    | some x, some y => some (x * y)
    | _, _ => none
  | .floordiv a d => match a.eval e with
    | some x => if d = 0 then none else some (x / (d : Int))
    | none => none
  | .unknown _ => none

inductive Cmp | le | lt | ge | gt | eq | ne | unknown
  deriving Repr, DecidableEq

def Cmp.eval (c : Cmp) (a b : Int) : Option Bool :=
  match c with
  | .le => some (decide (a ≤ b))
  | .lt => some (decide (a < b))
  | .ge => some (decide (a ≥ b))
  | .gt => some (decide (a > b))
  | .eq => some (decide (a = b))
  | .ne => some (decide (a ≠ b))
  | .unknown => none

/-- What the translator extracts from `next_section` / `_calculate_section_number`. -/
structure Program where
  increment : AExp          -- `source['section'] += <increment>`
  numberOf : AExp           -- `_calculate_section_number(param)`
  numberArg : AExp          -- argument of the call that defines `section_number`
  foundArg : AExp           -- argument of the call that defines `found`
  guardLeft : AExp          -- `if <guardLeft> <guardCmp> <guardRight>:`  (the section exists)
  guardCmp : Cmp
  guardRight : AExp
  indepIndex : AExp         -- independent: `new_code = ''.join(sections[<indepIndex>])`
  indepOldStop : AExp       -- independent: `old_code = ''.join(sections[:<indepOldStop>])`
  indepOffset : AExp        -- independent: `set_line_offset(<indepOffset>)`
  cumulStop : AExp          -- cumulative: `new_code = ''.join(sections[:<cumulStop>])`
  notEnoughFirst : AExp     -- `not_enough_sections(<first>, <second>)`
  notEnoughSecond : AExp
  restoresMainFirst : Bool  -- `replace_main(old_submission.code, ...)` precedes the branch
  shapeOk : Bool
  deriving Repr

end Pedal.SectionsIR

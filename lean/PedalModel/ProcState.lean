import PedalModel.FeedbackCoreStore
import PedalModel.ProcStateTypes
/-
C13 — the process state that survives from one grading to the next, and what resets it.

  pedal/core/report.py       Report.__init__ / clear / clear_overridden_feedback / __getitem__ (lazy tool reset)
  pedal/core/environment.py  Environment.__init__  (report.clear() then contextualize)
  pedal/core/feedback.py     override / _restore_overrides / override_for_pool, the class-level pool table
  pedal/tifa/__init__.py     reset(): reset_builtin_modules() + fresh tool data
  pedal/command_line/modes.py  Bundle.run_ics_bundle: environment, then the instructor script

Everything is interpreted over a `Tables` value (harness/translate_procstate.py regenerates it from the ASTs on
every run): `World.clear` EXECUTES the list of statements found in `Report.clear`, a method call dirties exactly
the fields the AST says that method mutates.  A field's value is abstract: the list of mutations it received
since it was last put back to what `__init__` gave it (`[]` = as initialised).

The class-attribute store (`Store`) is the one C20 uses.

Core Lean only.
-/
namespace Pedal.ProcState
open Pedal.FeedbackCore

/-- Fields that `Report.clear` leaves alone on purpose ("it will not affect class hooks"). -/
def exempt : List String := ["class_hooks"]

def Kind.isOpaque : Kind → Bool
  | .opaque _ => true
  | _ => false

/-- Does this statement put a field initialised with kind `k` back to its initial value? -/
def resetOk (k : Kind) : ResetHow → Bool
  | .clearCall => k == .dict || k == .list || k == .set
  | .assign k' => k == k' && !k.isOpaque

abbrev Fields := String → List String

def dirty (fs : Fields) (f tok : String) : Fields := fun g => if g = f then fs g ++ [tok] else fs g

def dirtyAll (fs : Fields) (names : List String) (tok : String) : Fields :=
  names.foldl (fun acc f => dirty acc f tok) fs

def resetField (fs : Fields) (f : String) : Fields := fun g => if g = f then [] else fs g

/-- a write to a report field from another module: only the fields other modules really write -/
def pokeField (external : List String) (fs : Fields) (f tok : String) : Fields :=
  if external.contains f then dirty fs f tok else fs

namespace Tables

def names (T : Tables) : List String := T.initFields.map (·.1)

def kindOf (T : Tables) (f : String) : Option Kind := T.initFields.lookup f

/-- is `s` a statement that resets field `f` properly -/
def isResetOf (T : Tables) (f : String) : ClearStep → Bool
  | .reset g how => g == f && (match T.kindOf f with
                               | some k => resetOk k how
                               | none => false)
  | .restoreEach _ => false

/-- `Report.clear` puts field `f` back -/
def resets (T : Tables) (f : String) : Bool := T.clearSteps.any (T.isResetOf f)

def isRestoreLoop : ClearStep → Bool
  | .restoreEach g => g == "overridden_feedbacks"
  | .reset _ _ => false

/-- `Report.clear` runs `_restore_overrides` on every registered class and only THEN forgets the
    registrations. -/
def restoresOverrides (T : Tables) : Bool :=
  match T.clearSteps.dropWhile (fun s => !isRestoreLoop s) with
  | [] => false
  | _ :: rest =>
    rest.any (T.isResetOf "overridden_feedbacks") &&
      !(T.clearSteps.takeWhile (fun s => !isRestoreLoop s)).any (T.isResetOf "overridden_feedbacks")

/-- the fields an instance method mutates -/
def dirtiesOf (T : Tables) (m : String) : Option (List String) := T.methodDirties.lookup m

end Tables

/-- One statement of `Report.clear`, as far as the plain fields go. -/
def applyStep (T : Tables) (fs : Fields) : ClearStep → Fields
  | .reset f how =>
    match T.kindOf f with
    | some k => if resetOk k how then resetField fs f else fs
    | none => fs
  | .restoreEach _ => fs

def clearFields (T : Tables) (fs : Fields) : Fields := T.clearSteps.foldl (applyStep T) fs

abbrev PoolTable := List (String × List (String × AVal))

/-- The process state one grading hands to the next. -/
structure World where
  /-- the plain fields of `MAIN_REPORT` -/
  fields : Fields
  /-- `MAIN_REPORT._tool_data`: tool name ↦ what was done to its data since the tool's `reset` built it -/
  tools : List (String × List String)
  /-- class attributes, backups, `MAIN_REPORT.overridden_feedbacks` -/
  store : Store
  /-- `Feedback._pools` (one dictionary shared by every feedback class) -/
  pools : PoolTable
  /-- `pedal.types.new_types.BUILTIN_MODULES`: what analysed programs did to the module types since the
      table was last rebuilt -/
  modules : List String

def init (s0 : Store) : World := { fields := fun _ => [], tools := [], store := s0, pools := [], modules := [] }

/-- `Report.clear()` -/
def World.clear (T : Tables) (w : World) : World :=
  { fields := clearFields T w.fields
    tools := if T.resets "_tool_data" then [] else w.tools
    store := if T.restoresOverrides then w.store.clear
             else if T.resets "overridden_feedbacks" then { w.store with overridden := [] }
             else w.store
    pools := if T.restoresOverrides && T.restoreClearsPools && !w.store.overridden.isEmpty then [] else w.pools
    modules := w.modules }

/-- What a grading can see. -/
inductive Obs where
  | field (name : String) (v : List String)
  | attr (cls a : String) (v : Option AVal)
  | pools (t : PoolTable)
  | registered (cs : List String)
  | tool (t : String) (v : Option (List String))
  | modules (v : List String)
  deriving DecidableEq, Repr

inductive Op where
  /-- a `Report` method: dirties the fields the AST lists for it -/
  | call (method tok : String)
  /-- a write to a report field from another module of the package (`report.result = …`) -/
  | poke (field tok : String)
  /-- constructing a feedback object of class `cls`: reads the listed class attributes, the group stack, the
      hooks and the formatter, then records itself -/
  | feedback (cls : String) (attrs : List String) (triggered : Bool) (tok : String)
  | override (cls : String) (fs : List (String × AVal))
  | overrideForPool (cls pool : String) (fs : List (String × AVal))
  /-- `report[t]` read -/
  | useTool (t : String)
  /-- `report[t][…] = …` (mocking, allowed/blocked functions, queued input, sections, …) -/
  | mutateTool (t tok : String)
  /-- `tifa_analysis()`: reads the builtin-module table; the analysed program may add to it -/
  | tifa (tok : String)
  /-- finalize + resolver: reads every field, the pool table and the listed class attributes -/
  | resolve (probes : List (String × String))
  | clearReport
  /-- the script raises here -/
  | crash (exc : String)
  deriving Repr

structure StepR where
  w : World
  obs : List Obs
  halt : Option String

def ok (w : World) (obs : List Obs := []) : StepR := ⟨w, obs, none⟩

/-- `report[t]`: a tool missing from `_tool_data` is reset first -/
def ensureTool (T : Tables) (w : World) (t : String) : World :=
  if (w.tools.lookup t).isSome then w
  else if T.lazyToolReset then
    { w with tools := w.tools ++ [(t, [])]
             modules := if t = "tifa" && T.tifaResetRebuilds then [] else w.modules }
  else w

def touchTool (tools : List (String × List String)) (t tok : String) : List (String × List String) :=
  tools.map fun p => if p.1 = t then (p.1, p.2 ++ [tok]) else p

def addPool (p : PoolTable) (pool : String) (fs : List (String × AVal)) : PoolTable :=
  if (p.lookup pool).isSome then p.map fun e => if e.1 = pool then (e.1, e.2 ++ fs) else e
  else p ++ [(pool, fs)]

def register (s : Store) (c : String) : Store :=
  { s with overridden := if c ∈ s.overridden then s.overridden else s.overridden ++ [c] }

/-- a `Report` method call -/
def callMethod (T : Tables) (w : World) (m tok : String) : StepR :=
  match T.dirtiesOf m with
  | some fs => ok { w with fields := dirtyAll w.fields fs tok }
  | none =>
    match T.classDirties.lookup m with
    | some cfs =>
      -- registering a tool is an intended process-wide effect: the tool registry is outside this model
      if m = "register_tool" then ok w
      -- any other classmethod writing `cls.X` works only if the class really has such attributes
      else if cfs.all (fun f => T.classAttrs.contains f) then ok { w with fields := dirtyAll w.fields cfs tok }
      else ⟨w, [], some "AttributeError"⟩
    | none => ⟨w, [], some "AttributeError"⟩

def snapshot (T : Tables) (w : World) : List Obs :=
  T.names.map (fun f => Obs.field f (w.fields f)) ++ [.pools w.pools, .registered w.store.overridden]

def step (T : Tables) (w : World) : Op → StepR
  | .call m tok => callMethod T w m tok
  | .poke f tok => ok { w with fields := pokeField T.externalDirties w.fields f tok }
  | .feedback c attrs trig tok =>
    let obs := attrs.map (fun a => Obs.attr c a (w.store.lookup c a)) ++
      [.field "groups" (w.fields "groups"), .field "hooks" (w.fields "hooks"),
       .field "class_hooks" (w.fields "class_hooks"), .field "format" (w.fields "format")]
    let r := callMethod T w (if trig then "add_feedback" else "add_ignored_feedback") tok
    ⟨r.w, obs ++ r.obs, r.halt⟩
  | .override c fs =>
    let (s, e) := w.store.override c fs
    ⟨{ w with store := s }, [], e.map (·.cls)⟩
  | .overrideForPool c pool fs =>
    ok { w with store := if T.poolOverrideRegisters then register w.store c else w.store
                pools := addPool w.pools pool fs }
  | .useTool t =>
    let w := ensureTool T w t
    ok w [.tool t (w.tools.lookup t)]
  | .mutateTool t tok =>
    let w := ensureTool T w t
    ok { w with tools := touchTool w.tools t tok }
  | .tifa tok =>
    let w := ensureTool T w "tifa"
    ok { w with tools := touchTool w.tools "tifa" tok, modules := w.modules ++ [tok] }
      [.tool "tifa" (w.tools.lookup "tifa"), .modules w.modules]
  | .resolve probes =>
    let obs := snapshot T w ++ probes.map (fun p => Obs.attr p.1 p.2 (w.store.lookup p.1 p.2))
    let r := callMethod T w "finalize_pools" "resolve"
    let w := r.w
    ⟨{ w with fields := pokeField T.externalDirties (pokeField T.externalDirties w.fields "result" "resolve")
                                     "resolves" "resolve" }, obs, r.halt⟩
  | .clearReport => ok (w.clear T)
  | .crash e => ⟨w, [], some e⟩

/-- run a list of operations, stopping at the first one that raises -/
def run (T : Tables) (w : World) : List Op → StepR
  | [] => ok w
  | op :: rest =>
    let r := step T w op
    match r.halt with
    | some e => ⟨r.w, r.obs, some e⟩
    | none =>
      let r2 := run T r.w rest
      ⟨r2.w, r.obs ++ r2.obs, r2.halt⟩

/-- One (instructor script, submission, environment) grading.  `env` is what the environment runs after it
    has contextualised the report (verify, parse, TIFA, run …): like `script`, determined by the pair. -/
structure Grading where
  sub : String
  env : List Op
  script : List Op
  deriving Repr

/-- `Bundle.run_ics_bundle`: `setup_environment(submission)` (= clear, contextualize, the environment's tools),
    then the script. -/
def grade (T : Tables) (w : World) (g : Grading) : StepR :=
  let w1 := if T.envClearsFirst then w.clear T else w
  let r := callMethod T w1 "contextualize" g.sub
  match r.halt with
  | some e => ⟨r.w, [], some e⟩
  | none => run T r.w (g.env ++ g.script)

/-- what the outside sees of a grading: everything it observed and how it ended -/
def StepR.result (r : StepR) : List Obs × Option String := (r.obs, r.halt)

def runAll (T : Tables) (w : World) (h : List Grading) : World := h.foldl (fun w g => (grade T w g).w) w

/-! ### the obligation on the regenerated tables -/

def allDirtied (T : Tables) : List String :=
  T.methodDirties.flatMap (·.2) ++ T.externalDirties

/-- Every field `__init__` makes is put back by `clear` (or is exempt); everything any method or any other
    module mutates is such a field and is not exempt; nothing was left untranslated; the class has no
    writable attribute a classmethod could persist state in; and the mechanisms outside `Report` have the
    shape the model gives them. -/
def tableOk (T : Tables) : Bool :=
  T.names.all (fun f => exempt.contains f || T.resets f) &&
  (allDirtied T).all (fun f => T.names.contains f && !exempt.contains f) &&
  T.classDirties.all (fun p => p.1 == "register_tool" || !p.2.all (fun f => T.classAttrs.contains f)) &&
  T.unknownSteps.isEmpty && T.externalNewFields.isEmpty && T.resets "_tool_data" &&
  T.restoresOverrides && T.lazyToolReset && T.backupPerClass && T.overrideRegisters &&
  T.restoreClearsPools && T.poolOverrideRegisters && T.envClearsFirst && T.tifaResetRebuilds

end Pedal.ProcState

/-
Class-attribute store with inheritance, and `Feedback.override` / `_restore_overrides` /
`Report.clear_overridden_feedback`  (pedal/core/feedback.py, pedal/core/report.py).

Shared by C20 (override restored) and C13 (history independence).

A Python class is a name; `mro c` is its linearisation (the class itself first), supplied by the
harness from `cls.__mro__`; `own c a` is `c.__dict__.get(a)`; attribute lookup walks the MRO.
The backup dictionary is the class's OWN `_override_backups` entry (`cls.__dict__`), whose values are
either the value the class itself defined or the marker `_INHERITED` (`none` here).
Python dictionaries have unique keys; an association list that is only extended when the key is absent
and read with first-match `lookup` has the same meaning.

Core Lean only.
-/
namespace Pedal.FeedbackCore

/-- An exception, identified by its class name. -/
structure Exc where
  cls : String
  deriving DecidableEq, Repr, BEq

/-- A parsed `str.format` template segment: literal text or a replacement field
    `{name<accessor>!conv:spec}` (`accessor` is the raw `.attr`/`[idx]` tail, `conv` is "" / "r" / "s" / "a"). -/
inductive Seg where
  | lit (s : String)
  | field (name accessor conv spec : String)
  deriving DecidableEq, Repr, BEq

abbrev Template := List Seg

/-- Values of class attributes (and of `override(**fields)`): what the model needs to tell apart.
    `tok` is an opaque reference into the harness's value table. -/
inductive AVal where
  | none
  | str (s : String)
  | tok (t : String)
  | tmpl (raw : String) (t : Template)
  | fields (fs : List (String × String))
  | names (ns : List String)
  deriving DecidableEq, Repr, BEq

structure Store where
  mro : String → List String
  own : String → String → Option AVal
  /-- `cls.__dict__.get('_override_backups')`; inner `none` is the `_INHERITED` marker. -/
  backups : String → Option (List (String × Option AVal))
  /-- `report.overridden_feedbacks` (a set; kept as a list, membership is what matters). -/
  overridden : List String

namespace Store

def lookup (s : Store) (c a : String) : Option AVal :=
  (s.mro c).findSome? (fun k => s.own k a)

def setOwn (own : String → String → Option AVal) (c a : String) (v : Option AVal) :
    String → String → Option AVal :=
  fun k b => if k = c ∧ b = a then v else own k b

def setBackups (bk : String → Option (List (String × Option AVal))) (c : String)
    (v : Option (List (String × Option AVal))) : String → Option (List (String × Option AVal)) :=
  fun k => if k = c then v else bk k

def backupOf (s : Store) (c : String) : List (String × Option AVal) := (s.backups c).getD []

/-- One `field=new_value` step of `override`'s loop. -/
def overrideOne (s : Store) (c field : String) (v : AVal) : Except Exc Store :=
  match (s.backupOf c).lookup field with
  | some _ => .ok { s with own := setOwn s.own c field (some v) }
  | none =>
    match s.lookup c field with
    | none => .error ⟨"AttributeError"⟩           -- `getattr(cls, field)`
    | some _ =>
      .ok { s with backups := setBackups s.backups c (some (s.backupOf c ++ [(field, s.own c field)])),
                   own := setOwn s.own c field (some v) }

/-- The loop; stops at the first failure, keeping what was done so far. -/
def overrideLoop (s : Store) (c : String) : List (String × AVal) → Store × Option Exc
  | [] => (s, none)
  | (f, v) :: rest =>
    match overrideOne s c f v with
    | .ok s' => overrideLoop s' c rest
    | .error e => (s, some e)

/-- `cls.override(**fields)`. -/
def override (s : Store) (c : String) (fields : List (String × AVal)) : Store × Option Exc :=
  let s0 : Store := { s with backups := setBackups s.backups c (some (s.backupOf c)),
                             overridden := if c ∈ s.overridden then s.overridden else s.overridden ++ [c] }
  overrideLoop s0 c fields

/-- `cls._restore_overrides()`. -/
def restoreCls (s : Store) (c : String) : Store :=
  match s.backups c with
  | none => s
  | some b =>
    { s with own := fun k a => if k = c then (match b.lookup a with
                                               | some old => old
                                               | none => s.own c a) else s.own k a,
             backups := setBackups s.backups c (some []) }

/-- `Report.clear_overridden_feedback()` visiting the registered classes in the order `order`
    (Python iterates a set: some enumeration of `overridden`). -/
def clearIn (s : Store) (order : List String) : Store :=
  { order.foldl restoreCls s with overridden := [] }

def clear (s : Store) : Store := s.clearIn s.overridden

inductive Op where
  | override (c : String) (fields : List (String × AVal))
  | clear
  deriving Repr

def step (s : Store) : Op → Store
  | .override c fs => (s.override c fs).1
  | .clear => s.clear

def runAll (s : Store) (h : List Op) : Store := h.foldl step s

/-- A store in which nothing is overridden. -/
def Pristine (s : Store) : Prop := (∀ c, s.backupOf c = []) ∧ s.overridden = []

end Store
end Pedal.FeedbackCore

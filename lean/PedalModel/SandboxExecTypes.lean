/-
Vocabulary shared by the generated description of `Sandbox._execute`
(`PedalModel/Gen/SandboxExecGen.lean`, written by harness/translate_sandbox.py on every run)
and the executable model `PedalModel/SandboxExec.lean` (C04 / C05).
Core Lean only.
-/
namespace Pedal.SandboxExec

/-- The class named by an `except` clause of `Sandbox._execute`. -/
inductive Catch where
  | exception        -- `except Exception`
  | systemExit       -- `except SystemExit`
  | baseException    -- `except BaseException` / bare `except:`
  | unknown          -- anything else: never matches, and the well-formedness check rejects it
  deriving DecidableEq, Repr

/-- One statement of `Sandbox._execute`, as far as C04/C05 care. -/
inductive Act where
  | pure             -- builds a value / writes the student namespace; no effect on the modelled state
  | clearException   -- `self.clear_exception()`
  | pushContext      -- `self._context.append(context)`
  | bumpContextId    -- `self._next_context_id += 1`
  | startMocking     -- `self._start_mocking(context)`
  | stopMocking      -- `self._stop_mocking(context)`
  | stopPatches      -- `self._stop_patches()`
  | compile          -- `compiled_code = compile(code, filename, 'exec')`
  | exec             -- `exec(compiled_code, self.data)` outside any tracer
  | tracedExec       -- `with self.trace.as_filename(...): exec(compiled_code, self.data)`
  | capture          -- `self._capture_exception(<caught>, sys.exc_info(), code, filename)`
  | reraise          -- bare `raise`
  | unknown          -- a statement the translator does not understand
  deriving DecidableEq, Repr

structure Clause where
  catches : Catch
  body : List Act
  deriving DecidableEq, Repr

/-- `pre; try: body except…: handlers else: orelse finally: final; post` -/
structure ExecuteDef where
  pre : List Act
  body : List Act
  handlers : List Clause
  orelse : List Act
  final : List Act
  post : List Act
  deriving DecidableEq, Repr

/-- Ways in which an exception *object* can make pedal's own bookkeeping raise. -/
inductive Hazard where
  | strRaises        -- `str(e)` raises (or returns a non-string)
  | reprRaises       -- `repr(e)` raises
  | attrReadRaises   -- reading an attribute of `e` raises (`__getattribute__` / `__getattr__`)
  | attrWriteRaises  -- setting an attribute on `e` raises (`__setattr__`)
  | synNoLine        -- a SyntaxError whose `lineno`/`offset` is None (NUL byte, hand-raised)
  | synNoSource      -- a SyntaxError naming a file pedal has no source lines for
  | attrMissingRaises -- reading an attribute `e` does not have raises something else than AttributeError (`__getattr__`)
  | truthRaises      -- taking the truth value of `e` raises (`__bool__` / `__len__` raising or returning nonsense)
  deriving DecidableEq, Repr

/-- How `ExpandedTraceback.line_number` picks the frame a runtime feedback is located on. -/
inductive LineStrategy where
  | lastAny          -- innermost frame of the traceback, whatever file it is in
  | studentFirst     -- innermost student-file frame, else the SyntaxError's line, else innermost instructor frame
  | unknown
  deriving DecidableEq, Repr

/-- What the translator observed of `_start_mocking` / `_stop_mocking` / `_stop_patches` /
    `_reset_builtins` by calling them on a fresh `Sandbox`. -/
structure MockProbe where
  startPushesStdout : Nat      -- growth of `_current_stdout` in `_start_mocking`
  startPushesPatches : Nat     -- growth of `_current_patches`
  patchesStdout : Bool         -- `sys.stdout` differs while mocked
  patchesSleep : Bool          -- `time.sleep` differs while mocked
  patchesModules : Bool        -- contents of `sys.modules` differ while mocked
  stopPopsStdout : Nat
  stopPopsPatches : Nat
  stopRestores : Bool          -- start; stop (also nested start; start; stop; stop) leaves every borrowed global as found
  stopPatchesEmptyRaises : Bool  -- `_stop_patches()` on an empty stack raises
  popStdoutEmptyRaises : Bool  -- `_stop_mocking()` on an empty `_current_stdout` raises
  builtinsPrivate : Bool       -- `_reset_builtins` copies; start/stop never change the process builtins
  deriving DecidableEq, Repr

/-- A tracer style (`TRACER_STYLES`), probed with a pre-installed trace function. -/
structure TraceStyle where
  name : String
  installs : Bool              -- `sys.gettrace()` differs inside the `with`
  restores : Bool              -- afterwards (normal and raising exit) it is the pre-installed one again
  restoresNested : Bool        -- the same when the tracer object is re-entered inside its own `with`
                               -- (`Sandbox._import` of another student file during a traced execution)
  deriving DecidableEq, Repr

/-- Does one traced execution with this style leave another trace function behind?
    `nested`: the executed code imported another student file, re-entering the tracer. -/
def TraceStyle.leaks (st : TraceStyle) (nested : Bool) : Bool :=
  st.installs && (!st.restores || (nested && !st.restoresNested))

/-- What the translator read from the AST of `Sandbox._import` (import of another student file, reached through
    the mocked `__import__` while `_execute` is running). -/
structure ImportDef where
  reentersTracer : Bool        -- its `exec` sits inside `with self.trace.as_filename(...)`
  hasHandlers : Bool           -- it contains a `try` statement (a failing import would no longer be just a deeper frame)
  touchesMocking : Bool        -- it calls `_start_mocking` / `_stop_mocking` / `_stop_patches` / `_capture_exception`
  deriving DecidableEq, Repr

/-- `_import` leaves failure handling and patching entirely to the `_execute` it runs inside. -/
def ImportDef.transparent (d : ImportDef) : Bool := !d.hasHandlers && !d.touchesMocking

/-- A blocked / restricted builtin or module and the class of what using it raises. -/
structure Blocked where
  name : String
  raisesCls : String
  isException : Bool
  isSystemExit : Bool
  deriving DecidableEq, Repr

end Pedal.SandboxExec

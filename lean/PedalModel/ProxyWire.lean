import PedalModel.Wire
import PedalModel.Proxy
import PedalModel.Gen.ProxyPlans
/-
Line protocol for C16.  A request carries the finite part of CPython's type table that the operation can reach
(tabulated by the harness from the running interpreter) as `key=value` tokens; the handler builds a `TypeTable`
whose functions look the entries up and runs exactly the functions the theorems are about.

  bin <op> <L|R|B|N> kv…         operands are value 0 and 1; N = no proxy (protocol model vs CPython)
  conv <conv> <P|N> kv…          operand is value 0
  getitem|contains <P|N> kv…     container 0, key/item 1
  isinst <P|N> <class> kv…

  cls=<v>:<c>  sub=<c1>:<c2>  slot=<c>:<dunder>:<sid>:<sq 0|1>:<d|b|s>  call=<sid>:<self>:<other>:<res>
  call1=<sid>:<self>:<res>  same=<a>:<b>  kind=<v>:<7 bits>  post=<post>:<v>:<res>  fb=<conv>:<v>:<res>
  itc=<c>:<x>:<res>  true=<v>  false=<v>        res ::= v<id> | ni | e<n> | u
Anything not tabulated answers `e9999` (slot calls) so that a harness gap shows up as a disagreement.
-/
namespace Pedal.Proxy.Wire
open Pedal.Proxy

def convNames : List (String × Conv) := [
  ("neg", .neg), ("pos", .pos), ("abs", .abs), ("invert", .invert), ("len", .len), ("hash", .hash), ("bool", .bool),
  ("str", .str), ("repr", .repr), ("format", .format), ("int", .int), ("float", .float), ("complex", .complex),
  ("round", .round), ("trunc", .trunc), ("floor", .floor), ("ceil", .ceil), ("index", .index), ("iter", .iter),
  ("reversed", .reversed)]

def postNames : List (String × Post) := [
  ("asLen", .asLen), ("asHash", .asHash), ("lenNonzero", .lenNonzero), ("asInt", .asInt), ("toFloat", .toFloat),
  ("toComplex", .toComplex), ("floorF", .floorF), ("ceilF", .ceilF), ("truncInt", .truncInt), ("truth", .truth)]

def kindIndex : Kind → Nat
  | .exactInt => 0 | .float => 1 | .complex => 2 | .str => 3 | .bool => 4 | .iterator => 5 | .indexable => 6

def parseRes (s : String) : Option Res :=
  if s = "ni" then some (.ret .notImpl)
  else if s = "u" then some .unmodelled
  else match s.toList with
    | 'v' :: rest => (String.ofList rest).toNat?.map fun n => .ret (.raw n)
    | 'e' :: rest => (String.ofList rest).toNat?.map .raise
    | _ => none

structure Tab where
  cls : List (Nat × Nat) := []
  sub : List (Nat × Nat) := []
  slots : List ((Nat × Dunder) × (Nat × Bool × Foreign)) := []
  calls : List ((Nat × Nat × Nat) × Res) := []
  calls1 : List ((Nat × Nat) × Res) := []
  same : List (Nat × Nat) := []
  kinds : List (Nat × List Bool) := []
  posts : List ((Post × Nat) × Res) := []
  fbs : List ((Conv × Nat) × Res) := []
  itc : List ((Nat × Nat) × Res) := []
  trueId : Nat := 0
  falseId : Nat := 0

def parseForeign (s : String) : Option Foreign :=
  if s = "d" then some .declines else if s = "b" then some .blind else if s = "s" then some .sees else none

def addKV (t : Tab) (tok : String) : Option Tab :=
  match tok.splitOn "=" with
  | [k, v] =>
    let parts := v.splitOn ":"
    match k, parts with
    | "cls", [a, b] => do pure { t with cls := (← a.toNat?, ← b.toNat?) :: t.cls }
    | "sub", [a, b] => do pure { t with sub := (← a.toNat?, ← b.toNat?) :: t.sub }
    | "slot", [c, d, sid, sq, f] => do
      let d ← Dunder.ofName d
      let sq ← Pedal.Wire.decBool sq
      pure { t with slots := ((← c.toNat?, d), (← sid.toNat?, sq, ← parseForeign f)) :: t.slots }
    | "call", [s, a, b, r] => do
      pure { t with calls := ((← s.toNat?, ← a.toNat?, ← b.toNat?), ← parseRes r) :: t.calls }
    | "call1", [s, a, r] => do pure { t with calls1 := ((← s.toNat?, ← a.toNat?), ← parseRes r) :: t.calls1 }
    | "same", [a, b] => do pure { t with same := (← a.toNat?, ← b.toNat?) :: t.same }
    | "kind", [a, bits] => do
      let bs := bits.toList.map (· == '1')
      if bs.length = 7 then pure { t with kinds := (← a.toNat?, bs) :: t.kinds } else none
    | "post", [p, a, r] => do
      pure { t with posts := ((← postNames.lookup p, ← a.toNat?), ← parseRes r) :: t.posts }
    | "fb", [c, a, r] => do pure { t with fbs := ((← convNames.lookup c, ← a.toNat?), ← parseRes r) :: t.fbs }
    | "itc", [a, b, r] => do pure { t with itc := ((← a.toNat?, ← b.toNat?), ← parseRes r) :: t.itc }
    | "true", [a] => do pure { t with trueId := ← a.toNat? }
    | "false", [a] => do pure { t with falseId := ← a.toNat? }
    | _, _ => none
  | _ => none

def parseTab (toks : List String) : Option Tab := toks.foldlM addKV {}

def untabulated : Res := .raise 9999

def Tab.table (t : Tab) : TypeTable where
  cls := fun v => (t.cls.lookup v).getD 0
  isSub := fun a b => a == b || t.sub.contains (a, b)
  lookup := fun c d => (t.slots.lookup (c, d)).map (·.1)
  isSq := fun s => (t.slots.find? fun e => e.2.1 == s).map (·.2.2.1) |>.getD false
  foreign := fun s => (t.slots.find? fun e => e.2.1 == s).map (·.2.2.2) |>.getD .sees
  call := fun s a b => (t.calls.lookup (s, a, b)).getD untabulated
  call1 := fun s a => (t.calls1.lookup (s, a)).getD untabulated
  same := fun a b => a == b || t.same.contains (a, b)
  trueId := t.trueId
  falseId := t.falseId
  typeErr := 1000
  attrErr := 1001
  hasKind := fun v k => ((t.kinds.lookup v).getD []).getD (kindIndex k) false
  post := fun p v => (t.posts.lookup (p, v)).getD untabulated
  convFallback := fun c v => (t.fbs.lookup (c, v)).getD untabulated
  iterContains := fun c x => (t.itc.lookup (c, x)).getD untabulated
  proxyCls := 999999

def encRes : Res → String
  | .ret (.raw n) => s!"res=v{n} wrapped=0"
  | .ret .notImpl => "res=ni wrapped=0"
  | .ret (.proxy (.raw n)) => s!"res=v{n} wrapped=1"
  | .ret (.proxy .notImpl) => "res=ni wrapped=1"
  | .ret (.proxy (.proxy _)) => "res=u wrapped=1"
  | .raise e => s!"res=e{e} wrapped=0"
  | .unmodelled => "res=u wrapped=0"

def encOut (o : Out) (excluded : Bool) : String :=
  s!"ok {encRes o.res} printed={Pedal.Wire.encBool o.printed} excluded={Pedal.Wire.encBool excluded}"

def P : ProxyClass := Pedal.Gen.Proxy.proxyClass

def handleBin (ts : List String) : String :=
  match ts with
  | op :: pl :: kv =>
    match binOpNames.lookup op, parseTab kv with
    | some op, some tab =>
      let T := tab.table
      let swapOK := !op.isCmp || binaryOp T op.swapped 1 0 == binaryOp T op 0 1
      match pl with
      | "N" => encOut (binaryOp T op 0 1) false
      | "L" => encOut (outerBinary T P op (.proxy 0) (.raw 1)) false
      | "B" => encOut (outerBinary T P op (.proxy 0) (.proxy 1)) false
      | "R" => encOut (outerBinary T P op (.raw 0) (.proxy 1)) (!(RightOK T op 0 1 && swapOK))
      | _ => "bad-request"
    | _, _ => "bad-request"
  | _ => "bad-request"

def handleConv (ts : List String) : String :=
  match ts with
  | c :: pl :: kv =>
    match convNames.lookup c, parseTab kv with
    | some c, some tab =>
      let T := tab.table
      let st := c.chain.headD ⟨.neg, none, none⟩
      match pl with
      | "N" => encOut (convOp T c 0) false
      | "P" => encOut (outerConv T P c (.proxy 0)) (!(stableB T st (convOp T c 0)))
      | _ => "bad-request"
    | _, _ => "bad-request"
  | _ => "bad-request"

def handleContainer (which : String) (ts : List String) : String :=
  match ts with
  | pl :: kv =>
    match parseTab kv with
    | some tab =>
      let T := tab.table
      match which, pl with
      | "getitem", "N" => encOut (getitemOp T 0 1) false
      | "getitem", "P" => encOut (outerGetitem T P (.proxy 0) 1) false
      | "contains", "N" => encOut (containsOp T 0 1) false
      | "contains", "P" =>
        encOut (outerContains T P (.proxy 0) 1) (!(stableB T ⟨.contains, none, some .truth⟩ (containsOp T 0 1)))
      | _, _ => "bad-request"
    | none => "bad-request"
  | _ => "bad-request"

def handleIsinst (ts : List String) : String :=
  match ts with
  | pl :: c :: kv =>
    match c.toNat?, parseTab kv with
    | some c, some tab =>
      let T := tab.table
      match pl with
      | "N" => s!"ok is={Pedal.Wire.encBool (isinstanceOp T 0 c)}"
      | "P" => s!"ok is={Pedal.Wire.encBool (outerIsinstance T P (.proxy 0) c)}"
      | _ => "bad-request"
    | _, _ => "bad-request"
  | _ => "bad-request"

def handleFlags (_ : List String) : String :=
  s!"ok pow3={Pedal.Wire.encBool P.powForwardsModulo} lenfn={Pedal.Wire.encBool P.lenFnDelegates} spoof={Pedal.Wire.encBool P.spoofsClass}"

end Pedal.Proxy.Wire

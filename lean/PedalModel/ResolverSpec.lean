import PedalModel.Resolver
import PedalModel.MergeIR
/-
The hand-written reading of `FinalFeedback.merge`'s tail as a list of effects over an observation
(`mergeTailSpec`), and how effects act on the modelled final feedback.  Independent of the tree under test:
`PedalProofs/MergeSpecLemmas.lean` proves once that the hand model's `merge` is this reading.
-/
namespace Pedal.Resolver
open Pedal.Gen.Resolver Pedal.MergeIR

def kindTag (f : Fb) : KindTag :=
  if f.kind == some complimentKind then .compliment
  else if f.kind == some instructionalKind then .instructional
  else .other

/-- The observation `merge`'s tail makes of (final feedback so far, this feedback). -/
def obsOf (st : Final) (f : Fb) : Obs :=
  { triggered := f.triggered, muted := f.muted, unscored := f.unscored, scoreNotNone := f.score.isSome,
    valenceNeNeg := !f.negative, elseMsg := f.elseMsg, fbCorrect := f.correct,
    msgNotNone := f.message.isSome, catSystem := f.category == some systemCategory, kind := kindTag f,
    selfMsgNone := st.message.isNone, selfCorrect := st.correct }

/-- What one effect does to the part of the final feedback the model keeps. -/
def applyEffect (f : Fb) (st : Final) : Effect → Final
  | .append .positives => { st with positives := st.positives ++ [f.uid] }
  | .append _ => st                       -- considered / systems / instructions are not modelled
  | .pushScore inv => { st with scores := st.scores ++ [(inv, f.score.getD "")] }
  | .resolvedScore _ => st
  | .setCorrect v => { st with correct := v }
  | .takeMessage =>
    { st with message := f.message, title := some f.shownTitle, category := f.category, label := f.label,
              used := some f }
  | .ret _ => st

/-- The hand-written reading of `merge`'s tail, as effects: the specification the generated program
    must agree with on every observation (`merge_ir_agrees`). -/
def mergeTailSpec (o : Obs) : List Effect :=
  (if o.triggered && o.catSystem then [.append .systems] else []) ++
  (if !o.unscored && o.scoreNotNone then
      [.pushScore (o.valenceNeNeg == !o.triggered), .resolvedScore (o.valenceNeNeg == !o.triggered)] else []) ++
  (if !o.triggered && o.elseMsg then [.append .positives, .ret true]
   else if !o.triggered || o.muted then [.ret false]
   else if o.kind = .compliment then [.append .positives, .ret true]
   else
     (if o.kind = .instructional then [.append .instructions] else []) ++
     [.setCorrect (o.fbCorrect && o.selfCorrect)] ++
     (if o.msgNotNone && o.selfMsgNone then [.takeMessage] else []) ++
     [.ret true])

end Pedal.Resolver

import PedalModel.Wire
/-
Executable model of pedal/source/sections.py (separate_into_sections, next_section, stop_sections,
stop_any_sections) over texts as `List Char`.  The regular-expression engine is a parameter: a
line-anchored pattern with one capturing group spanning the match is modelled by the predicate
"this whole line is a marker", supplied per line by the harness (which asks Python's `re`).
-/
namespace Pedal.Sections

abbrev Text := List Char

/-- Python's `s.split("\n")`. -/
def splitLines : Text → List Text
  | [] => [[]]
  | c :: cs =>
    if c = '\n' then [] :: splitLines cs
    else match splitLines cs with
      | [] => [[c]]
      | l :: ls => (c :: l) :: ls

/-- `"\n".join(lines)`. -/
def joinLines : List Text → Text
  | [] => []
  | [l] => l
  | l :: ls => l ++ '\n' :: joinLines ls

def countNL : Text → Nat
  | [] => 0
  | c :: cs => (if c = '\n' then 1 else 0) + countNL cs

/-- The n-th line (1-based) of a text. -/
def lineAt (t : Text) (n : Nat) : Option Text :=
  match n with
  | 0 => none
  | n + 1 => (splitLines t)[n]?

/-- `re.split(pattern, text, flags=re.MULTILINE)` for a line-anchored one-group pattern:
    walk the lines; `cur` is the code chunk being accumulated, `first` says no line was consumed yet.
    Result alternates code, marker, code, …, code. -/
def splitGo : List (Text × Bool) → Text → Bool → List Text
  | [], cur, _ => [cur]
  | (line, isMarker) :: rest, cur, first =>
    let cur := if first then cur else cur ++ ['\n']
    if isMarker then cur :: line :: splitGo rest [] false
    else splitGo rest (cur ++ line) false

def splitSections (lines : List (Text × Bool)) : List Text := splitGo lines [] true

/-- The same for a pattern whose group also captures the separator line's trailing newline
    (e.g. `^(# ==== .+ ====\n)`): the separator chunk is `line ++ "\n"` and the next code chunk starts at
    the beginning of the following line.  Such a pattern cannot match a last line without a newline, so a
    flagged last line is treated as ordinary text. -/
def splitGoNL : List (Text × Bool) → Text → Bool → List Text
  | [], cur, _ => [cur]
  | (line, isMarker) :: rest, cur, first =>
    let cur := if first then cur else cur ++ ['\n']
    if isMarker && !rest.isEmpty then cur :: (line ++ ['\n']) :: splitGoNL rest [] true
    else splitGoNL rest (cur ++ line) false

/-- `takesNL = false`: the group spans exactly the separator line; `true`: line plus its newline. -/
def splitMode (takesNL : Bool) (lines : List (Text × Bool)) : List Text :=
  if takesNL then splitGoNL lines [] true else splitSections lines

def concat (ts : List Text) : Text := ts.foldr (· ++ ·) []

/-- `_calculate_section_number`. -/
def sectionNumber (index : Nat) : Nat := (index + 1) / 2

structure St where
  main : Text                         -- submission.main_code
  subs : List Text := []              -- report['source']['substitutions'] (top = last)
  sections : List Text := []          -- report['source']['sections']
  separated : Bool := false
  idx : Nat := 0                      -- report['source']['section']
  independent : Bool := true
  offset : Nat := 0                   -- submission.line_offsets.get(main_file, 0)
  notEnough : List (Nat × Nat) := []  -- not_enough_sections(count, found) feedbacks, oldest first
  deriving Repr, BEq, DecidableEq

inductive Op
  | separate (marks : List Bool) (independent : Bool) (takesNL : Bool := false)
      -- marker flag of every line of the current main code; does the group capture the line's newline?
  | next
  | stop
  | resolveHook                                          -- stop_any_sections
  deriving Repr

def zipMarks (lines : List Text) (marks : List Bool) : List (Text × Bool) :=
  lines.zipWith (fun l m => (l, m)) (marks ++ List.replicate (lines.length - marks.length) false)

/-- One API call; `none` = the real code raises (IndexError on an empty substitution stack). -/
def step (s : St) : Op → Option St
  | .separate marks independent takesNL =>
    let secs := splitMode takesNL (zipMarks (splitLines s.main) marks)
    some { s with independent := independent, idx := 0, offset := 0, sections := secs, separated := true,
                  subs := s.subs ++ [s.main], main := secs.headD [] }
  | .next =>
    match s.subs.getLast? with
    | none => none
    | some old =>
      let idx := s.idx + 2
      let number := sectionNumber idx
      let found := sectionNumber (s.sections.length - 1)
      if number ≤ found then
        if s.independent then
          some { s with idx := idx, main := (s.sections[idx]?).getD [],
                        offset := countNL (concat (s.sections.take idx)) }
        else
          some { s with idx := idx, main := concat (s.sections.take (idx + 1)) }
      else
        some { s with idx := idx, main := old, notEnough := s.notEnough ++ [(number, found)] }
  | .stop =>
    match s.subs.getLast? with
    | none => none
    | some old => some { s with subs := s.subs.dropLast, main := old, offset := 0 }   -- clear_line_offsets() (since /repo 499dd90)
  | .resolveHook =>
    match s.subs.getLast? with
    | none => some s
    | some old => some { s with subs := s.subs.dropLast, main := old, offset := 0 }

def run (s : St) : List Op → Option St
  | [] => some s
  | op :: ops => (step s op).bind (run · ops)

/-! ### Wire format
`sections <x-text> op…` with op = `S<i|c|I|C><marks as 0/1 string or ->` (upper case: the group captures
the newline) | `N` | `T` | `R`.
Answer: `ok main=<x> offset=<n> idx=<n> subs=<n> notenough=[c:f,…] sections=<n>` or `raise`. -/
open Pedal.Wire

def parseOp (tok : String) : Option Op :=
  match tok.toList with
  | 'S' :: m :: marks =>
    let marks := if marks = ['-'] then [] else marks.map (· == '1')
    if m = 'i' then some (.separate marks true false) else if m = 'c' then some (.separate marks false false)
    else if m = 'I' then some (.separate marks true true) else if m = 'C' then some (.separate marks false true)
    else none
  | ['N'] => some .next
  | ['T'] => some .stop
  | ['R'] => some .resolveHook
  | _ => none

def encSt (s : St) : String :=
  let ne := String.intercalate "," (s.notEnough.map fun (c, f) => s!"{c}:{f}")
  s!"ok main={encStr (String.ofList s.main)} offset={s.offset} idx={s.idx} subs={s.subs.length} notenough=[{ne}] sections={s.sections.length}"

def handle : List String → String
  | text :: ops =>
    match decStr text, ops.mapM parseOp with
    | some t, some ops =>
      match run { main := t.toList } ops with
      | some s => encSt s
      | none => "raise"
    | _, _ => "bad-request"
  | _ => "bad-request"

/-- `split <x-text> <marks>`: the section list itself, `|`-separated hex. -/
def handleSplit : List String → String
  | [text, marks, mode] =>
    match decStr text, Pedal.Wire.decBool mode with
    | some t, some takesNL =>
      let marks := if marks = "-" then [] else marks.toList.map (· == '1')
      "ok " ++ String.intercalate "|" ((splitMode takesNL (zipMarks (splitLines t.toList) marks)).map fun c => encStr (String.ofList c))
    | _, _ => "bad-request"
  | _ => "bad-request"

end Pedal.Sections

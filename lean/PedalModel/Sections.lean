import PedalModel.Wire
/-
Executable model of pedal/source/sections.py (separate_into_sections, next_section, stop_sections,
stop_any_sections) over texts as `List Char`.  The regular-expression engine is a parameter: a
line-anchored pattern with one capturing group spanning the match is modelled by the predicate
"this whole line is a marker", supplied per line by the harness (which asks Python's `re`).
-/
namespace Pedal.Sections

abbrev Text := List Char

/-- Python's `s.split("\n")`. -/
def splitLines : Text → List Text
  | [] => [[]]
  | c :: cs =>
    if c = '\n' then [] :: splitLines cs
    else match splitLines cs with
      | [] => [[c]]
      | l :: ls => (c :: l) :: ls

/-- `"\n".join(lines)`. -/
def joinLines : List Text → Text
  | [] => []
  | [l] => l
  | l :: ls => l ++ '\n' :: joinLines ls

def countNL : Text → Nat
  | [] => 0
  | c :: cs => (if c = '\n' then 1 else 0) + countNL cs

/-- The n-th line (1-based) of a text. -/
def lineAt (t : Text) (n : Nat) : Option Text :=
  match n with
  | 0 => none
  | n + 1 => (splitLines t)[n]?

/-- `re.split(pattern, text, flags=re.MULTILINE)` for a line-anchored one-group pattern:
    walk the lines; `cur` is the code chunk being accumulated, `first` says no line was consumed yet.
    Result alternates code, marker, code, …, code. -/
def splitGo : List (Text × Bool) → Text → Bool → List Text
  | [], cur, _ => [cur]
  | (line, isMarker) :: rest, cur, first =>
    let cur := if first then cur else cur ++ ['\n']
    if isMarker then cur :: line :: splitGo rest [] false
    else splitGo rest (cur ++ line) false

def splitSections (lines : List (Text × Bool)) : List Text := splitGo lines [] true

def concat (ts : List Text) : Text := ts.foldr (· ++ ·) []

/-- `_calculate_section_number`. -/
def sectionNumber (index : Nat) : Nat := (index + 1) / 2

structure St where
  main : Text                         -- submission.main_code
  subs : List Text := []              -- report['source']['substitutions'] (top = last)
  sections : List Text := []          -- report['source']['sections']
  separated : Bool := false
  idx : Nat := 0                      -- report['source']['section']
  independent : Bool := true
  offset : Nat := 0                   -- submission.line_offsets.get(main_file, 0)
  notEnough : List (Nat × Nat) := []  -- not_enough_sections(count, found) feedbacks, oldest first
  deriving Repr, BEq, DecidableEq

inductive Op
  | separate (marks : List Bool) (independent : Bool)   -- marker flag of every line of the current main code
  | next
  | stop
  | resolveHook                                          -- stop_any_sections
  deriving Repr

def zipMarks (lines : List Text) (marks : List Bool) : List (Text × Bool) :=
  lines.zipWith (fun l m => (l, m)) (marks ++ List.replicate (lines.length - marks.length) false)

/-- One API call; `none` = the real code raises (IndexError on an empty substitution stack). -/
def step (s : St) : Op → Option St
  | .separate marks independent =>
    let secs := splitSections (zipMarks (splitLines s.main) marks)
    some { s with independent := independent, idx := 0, offset := 0, sections := secs, separated := true,
                  subs := s.subs ++ [s.main], main := secs.headD [] }
  | .next =>
    match s.subs.getLast? with
    | none => none
    | some old =>
      let idx := s.idx + 2
      let number := sectionNumber idx
      let found := sectionNumber (s.sections.length - 1)
      if number ≤ found then
        if s.independent then
          some { s with idx := idx, main := (s.sections[idx]?).getD [],
                        offset := countNL (concat (s.sections.take idx)) }
        else
          some { s with idx := idx, main := concat (s.sections.take (idx + 1)) }
      else
        some { s with idx := idx, main := old, notEnough := s.notEnough ++ [(number, found)] }
  | .stop =>
    match s.subs.getLast? with
    | none => none
    | some old => some { s with subs := s.subs.dropLast, main := old }
  | .resolveHook =>
    match s.subs.getLast? with
    | none => some s
    | some old => some { s with subs := s.subs.dropLast, main := old }

def run (s : St) : List Op → Option St
  | [] => some s
  | op :: ops => (step s op).bind (run · ops)

/-! ### Wire format
`sections <x-text> <n> op…` with op = `S<i|c><marks as 0/1 string or ->` | `N` | `T` | `R`.
Answer: `ok main=<x> offset=<n> idx=<n> subs=<n> notenough=[c:f,…] sections=<n>` or `raise`. -/
open Pedal.Wire

def parseOp (tok : String) : Option Op :=
  match tok.toList with
  | 'S' :: m :: marks =>
    let marks := if marks = ['-'] then [] else marks.map (· == '1')
    if m = 'i' then some (.separate marks true) else if m = 'c' then some (.separate marks false) else none
  | ['N'] => some .next
  | ['T'] => some .stop
  | ['R'] => some .resolveHook
  | _ => none

def encSt (s : St) : String :=
  let ne := String.intercalate "," (s.notEnough.map fun (c, f) => s!"{c}:{f}")
  s!"ok main={encStr (String.ofList s.main)} offset={s.offset} idx={s.idx} subs={s.subs.length} notenough=[{ne}] sections={s.sections.length}"

def handle : List String → String
  | text :: ops =>
    match decStr text, ops.mapM parseOp with
    | some t, some ops =>
      match run { main := t.toList } ops with
      | some s => encSt s
      | none => "raise"
    | _, _ => "bad-request"
  | _ => "bad-request"

/-- `split <x-text> <marks>`: the section list itself, `|`-separated hex. -/
def handleSplit : List String → String
  | [text, marks] =>
    match decStr text with
    | some t =>
      let marks := if marks = "-" then [] else marks.toList.map (· == '1')
      "ok " ++ String.intercalate "|" ((splitSections (zipMarks (splitLines t.toList) marks)).map fun c => encStr (String.ofList c))
    | none => "bad-request"
  | _ => "bad-request"

end Pedal.Sections

import PedalModel.AssertionsSpec
/-
C07 — facts about the hand-written relations and the evaluator that do NOT depend on the generated
conditions (PedalModel/Gen/AssertionConds.lean): they are not rebuilt when the tree under test changes.
PedalProofs/AssertionsLemmas.lean and PedalProofs/C07.lean build on them.  Core Lean only.
-/
namespace Pedal.Assertions

/-! ### shape-independent evaluation of a generated condition

The per-assertion theorems of PedalProofs/C07.lean do not compare the generated `CondExpr` with an
expected term.  They UNFOLD `eval` on whatever the translator produced (`c07_unfold`), split on the
finitely many observations the specified relation depends on (the answer of `pyCmp` / `pyIn` /
`eqTest` / `re.search` ..., whether an operand is proxied) and let `simp` compute both sides.  So
every condition with the same meaning is accepted - early return or `or`, a conditional expression,
`not (a in b)` or `a not in b`, `unwrap_value(x)` or `x._actual_value if x.is_sandboxed else x`,
locals and helpers inlined by the translator - and every condition with another meaning leaves an
unprovable goal.  The lemmas below are the rewriting rules that unfolding needs. -/

theorem V.unwrapped_v (x : V) : x.unwrapped.v = x.v := rfl
theorem V.unwrapped_px (x : V) : x.unwrapped.px = false := rfl
theorem V.unwrapped_oid (x : V) : x.unwrapped.oid = x.oid := rfl
theorem V.unwrapped_unwrapped (x : V) : x.unwrapped.unwrapped = x.unwrapped := rfl
theorem V.fresh_v (a : PyVal) : (V.fresh a).v = a := rfl
theorem V.fresh_px (a : PyVal) : (V.fresh a).px = false := rfl
theorem V.ofBool_v (b : Bool) : (V.ofBool b).v = .bool b := rfl
theorem V.ofBool_px (b : Bool) : (V.ofBool b).px = false := rfl
theorem truthy_bool (b : Bool) : truthy (.bool b) = b := rfl

theorem vIn_unwrapped (x y : V) : vIn x.unwrapped y = pyIn x.v y.v := by
  unfold vIn
  cases y.v <;> simp [V.unwrapped]

theorem vIn_fresh (a : PyVal) (y : V) : vIn (V.fresh a) y = pyIn a y.v := by
  unfold vIn
  cases y.v <;> simp [V.fresh]

/-- a needle that is not a proxy -/
theorem vIn_raw (x y : V) (h : x.px = false) : vIn x y = pyIn x.v y.v := by
  unfold vIn
  cases y.v <;> simp [h]

/-- `is` between two things neither of which is a proxy object is `is` on the underlying objects -/
theorem pyIs_raw (a b : V) (ha : a.px = false) (hb : b.px = false) : pyIs a b = sameObject a b := by
  unfold sameObject pyIs
  simp [V.unwrapped, ha, hb]

theorem pyIs_unwrapped_unwrapped (a b : V) : pyIs a.unwrapped b.unwrapped = sameObject a b := rfl

theorem pyIs_unwrapped_raw (a b : V) (hb : b.px = false) : pyIs a.unwrapped b = sameObject a b :=
  pyIs_raw a.unwrapped b rfl hb

theorem pyIs_raw_unwrapped (a b : V) (ha : a.px = false) : pyIs a b.unwrapped = sameObject a b :=
  pyIs_raw a b.unwrapped ha rfl

theorem sameObject_unwrapped_left (a b : V) : sameObject a.unwrapped b = sameObject a b := rfl
theorem sameObject_unwrapped_right (a b : V) : sameObject a b.unwrapped = sameObject a b := rfl

theorem pyIs_none_right (x : V) (h : x.px = false) : pyIs x (V.fresh .none) = isNoneVal x.v := by
  unfold pyIs
  cases hv : x.v <;> simp [V.fresh, h, isNoneVal]

theorem pyIs_none_left (x : V) (h : x.px = false) : pyIs (V.fresh .none) x = isNoneVal x.v := by
  unfold pyIs
  cases hv : x.v <;> simp [V.fresh, h, isNoneVal]

theorem pyIs_none_right_unwrapped (x : V) : pyIs x.unwrapped (V.fresh .none) = isNoneVal x.v :=
  pyIs_none_right x.unwrapped rfl

theorem pyIs_none_left_unwrapped (x : V) : pyIs (V.fresh .none) x.unwrapped = isNoneVal x.v :=
  pyIs_none_left x.unwrapped rfl

theorem notR_notR (r : Res Bool) : notR (notR r) = r := by
  cases r with
  | error e => rfl
  | ok b => cases b <;> rfl

theorem beq_exact_exact : ("exact_strings" == "exact_strings") = true := by decide
theorem beq_delta_exact : ("delta" == "exact_strings") = false := by decide
theorem beq_delta_delta : ("delta" == "delta") = true := by decide

/-- the widened class of assert_is_instance, as the condition computes it with two `==` -/
theorem widenCls_eq (v : PyVal) :
    widenCls v = if pyEq v (.typ .int) || pyEq v (.typ .float) then .tuple [.typ .int, .typ .float] else v := by
  cases v with
  | typ t => cases t <;> simp [widenCls, pyEq]
  | _ => simp [widenCls, pyEq, num?]

/-- `x == n` and `n == x` for an int `n` (so `length.value == len(seq)` reads like `len(seq) == length.value`) -/
theorem pyEq_comm_int (r : PyVal) (n : Int) : pyEq r (.int n) = pyEq (.int n) r := by
  cases r <;> simp [pyEq, num?, numEq] <;> exact BEq.comm

theorem numCmp_ne_un (a b : Int × Nat) : numCmp a b ≠ .un := by
  unfold numCmp
  simp only
  split
  · simp
  · split <;> simp

theorem pyCmp_int_left (n : Int) (r : PyVal) (o : Ord4) (h : pyCmp (.int n) r = .ok o) : o ≠ .un := by
  cases r <;> simp [pyCmp, num?] at h <;> first
    | (subst h; exact numCmp_ne_un _ _)
    | skip

/-! ### numbers and strings under `equality_test` -/

theorem numClose_comm (a b d : Int × Nat) : numClose a b d = numClose b a d := by
  unfold numClose
  have h : (a.1 * (2:Int) ^ b.2 - b.1 * (2:Int) ^ a.2).natAbs = (b.1 * (2:Int) ^ a.2 - a.1 * (2:Int) ^ b.2).natAbs := by
    rw [← Int.natAbs_neg, Int.neg_sub]
  rw [h, Nat.add_comm a.2 b.2]

theorem numEq_comm (a b : Int × Nat) : numEq a b = numEq b a := by
  unfold numEq
  exact BEq.comm

theorem pyEq_num (a e : PyVal) (x y : Int × Nat) (ha : num? a = some x) (he : num? e = some y) :
    pyEq a e = numEq x y := by
  cases a <;> simp [num?] at ha <;> cases e <;> simp [num?] at he <;> subst ha <;> subst he <;> simp [pyEq, num?]

/-- `equality_test` on two numbers: the tolerance test as soon as either is a float, else `==`. -/
theorem eqTest_num (ex : Bool) (d : Int × Nat) (a e : PyVal) (x y : Int × Nat)
    (ha : num? a = some x) (he : num? e = some y) :
    eqTest ex (some d) a e = .ok (if isFloat a || isFloat e then numClose y x d else numEq x y) := by
  cases a <;> simp [num?] at ha <;> cases e <;> simp [num?] at he <;> subst ha <;> subst he <;>
    simp [eqTest, isFloat, isIntOrFloat, num?, pyEq]

/-- `equality_test` on two strings: exact, or equality of the normal forms. -/
theorem eqTest_str (ex : Bool) (d : Option (Int × Nat)) (sa se : List Nat) :
    eqTest ex d (.str sa) (.str se) =
      if ex then .ok (sa == se)
      else if isAscii sa && isAscii se then .ok (normStr se == normStr sa) else .error .unmodelled := by
  simp [eqTest, isFloat, isIntOrFloat, num?]

theorem lowerC_idem (c : Nat) : lowerC (lowerC c) = lowerC c := by
  unfold lowerC
  by_cases h : 65 ≤ c ∧ c ≤ 90
  · have h2 : ¬ (65 ≤ c + 32 ∧ c + 32 ≤ 90) := by omega
    rw [if_pos h, if_neg h2]
  · rw [if_neg h, if_neg h]

/-! ### symmetry of `==` and `equality_test` on scalars, lists and tuples (induction on size) -/

mutual
/-- values built from scalars (ASCII strings), lists and tuples only -/
def seqOnly : PyVal → Bool
  | .list xs => seqOnlyList xs
  | .tuple xs => seqOnlyList xs
  | .set _ => false
  | .dict _ _ => false
  | .str s => isAscii s
  | _ => true
def seqOnlyList : List PyVal → Bool
  | [] => true
  | x :: xs => seqOnly x && seqOnlyList xs
end

theorem seqOnlyList_mem (xs : List PyVal) (h : seqOnlyList xs = true) : ∀ x ∈ xs, seqOnly x = true := by
  induction xs with
  | nil => intro x hx; cases hx
  | cons y ys ih =>
    simp only [seqOnlyList, Bool.and_eq_true] at h
    intro x hx
    cases hx with
    | head => exact h.1
    | tail _ hm => exact ih h.2 x hm

theorem pyEqList_symm (xs ys : List PyVal) (h : ∀ x ∈ xs, ∀ y ∈ ys, pyEq x y = pyEq y x) :
    pyEqList xs ys = pyEqList ys xs := by
  induction xs generalizing ys with
  | nil => cases ys <;> simp [pyEqList]
  | cons x xs ih =>
    cases ys with
    | nil => simp [pyEqList]
    | cons y ys =>
      simp only [pyEqList]
      rw [h x (List.mem_cons_self) y (List.mem_cons_self)]
      rw [ih ys (fun a ha b hb => h a (List.mem_cons_of_mem _ ha) b (List.mem_cons_of_mem _ hb))]

theorem eqSeq_symm (ex : Bool) (d : Option (Int × Nat)) (xs ys : List PyVal)
    (h : ∀ x ∈ xs, ∀ y ∈ ys, eqTest ex d x y = eqTest ex d y x) :
    eqSeq ex d xs ys = eqSeq ex d ys xs := by
  induction xs generalizing ys with
  | nil => cases ys <;> simp [eqSeq]
  | cons x xs ih =>
    cases ys with
    | nil => simp [eqSeq]
    | cons y ys =>
      simp only [eqSeq]
      rw [h x (List.mem_cons_self) y (List.mem_cons_self)]
      rw [ih ys (fun a ha b hb => h a (List.mem_cons_of_mem _ ha) b (List.mem_cons_of_mem _ hb))]

theorem eqTest_list (ex : Bool) (d : Option (Int × Nat)) (xs ys : List PyVal) :
    eqTest ex d (.list xs) (.list ys) =
      if pyEq (.list xs) (.list ys) then .ok true
      else if xs.length != ys.length then .ok false else eqSeq ex d xs ys := by
  simp [eqTest, isFloat, isIntOrFloat, num?]

theorem eqTest_tuple (ex : Bool) (d : Option (Int × Nat)) (xs ys : List PyVal) :
    eqTest ex d (.tuple xs) (.tuple ys) =
      if pyEq (.tuple xs) (.tuple ys) then .ok true
      else if xs.length != ys.length then .ok false else eqSeq ex d xs ys := by
  simp [eqTest, isFloat, isIntOrFloat, num?]

theorem pyEq_symm_aux : ∀ (n : Nat) (a e : PyVal), sizeOf a + sizeOf e ≤ n →
    seqOnly a = true → seqOnly e = true → pyEq a e = pyEq e a := by
  intro n
  induction n with
  | zero =>
    intro a e h
    cases a <;> simp at h
  | succ n ih =>
    intro a e hsz ha he
    have seqCase : ∀ xs ys : List PyVal, sizeOf xs + sizeOf ys ≤ n → seqOnlyList xs = true →
        seqOnlyList ys = true → pyEqList xs ys = pyEqList ys xs := by
      intro xs ys hs hxs hys
      refine pyEqList_symm xs ys (fun x hx y hy => ?_)
      have h1 := List.sizeOf_lt_of_mem hx
      have h2 := List.sizeOf_lt_of_mem hy
      exact ih x y (by omega) (seqOnlyList_mem xs hxs x hx) (seqOnlyList_mem ys hys y hy)
    cases a <;> cases e <;> first
      | (simp [seqOnly] at ha; done)
      | (simp [seqOnly] at he; done)
      | (simp [pyEq, num?, numEq]; done)
      | (simp [pyEq, num?, numEq]; exact BEq.comm)
      | skip
    case list.list xs ys =>
      simp only [pyEq]
      simp only [seqOnly] at ha he
      simp only [PyVal.list.sizeOf_spec] at hsz
      exact seqCase xs ys (by omega) ha he
    case tuple.tuple xs ys =>
      simp only [pyEq]
      simp only [seqOnly] at ha he
      simp only [PyVal.tuple.sizeOf_spec] at hsz
      exact seqCase xs ys (by omega) ha he

theorem pyEq_symm (a e : PyVal) (ha : seqOnly a = true) (he : seqOnly e = true) : pyEq a e = pyEq e a :=
  pyEq_symm_aux _ a e (Nat.le_refl _) ha he

theorem eqTest_num_symm (ex : Bool) (d : Int × Nat) (a e : PyVal) (x y : Int × Nat)
    (ha : num? a = some x) (he : num? e = some y) : eqTest ex (some d) a e = eqTest ex (some d) e a := by
  rw [eqTest_num ex d a e x y ha he, eqTest_num ex d e a y x he ha]
  rw [numClose_comm y x d, numEq_comm y x, Bool.or_comm (isFloat e) (isFloat a)]

theorem eqTest_str_symm (ex : Bool) (d : Option (Int × Nat)) (sa se : List Nat) :
    eqTest ex d (.str sa) (.str se) = eqTest ex d (.str se) (.str sa) := by
  rw [eqTest_str, eqTest_str, Bool.and_comm (isAscii sa) (isAscii se)]
  have h1 : (sa == se) = (se == sa) := BEq.comm
  have h2 : (normStr se == normStr sa) = (normStr sa == normStr se) := BEq.comm
  rw [h1, h2]

theorem eqTest_symm_aux (ex : Bool) (d : Int × Nat) : ∀ (n : Nat) (a e : PyVal), sizeOf a + sizeOf e ≤ n →
    seqOnly a = true → seqOnly e = true → eqTest ex (some d) a e = eqTest ex (some d) e a := by
  intro n
  induction n with
  | zero =>
    intro a e h
    cases a <;> simp at h
  | succ n ih =>
    intro a e hsz ha he
    have hpe := pyEq_symm a e ha he
    have seqCase : ∀ xs ys : List PyVal, sizeOf xs + sizeOf ys ≤ n → seqOnlyList xs = true →
        seqOnlyList ys = true → eqSeq ex (some d) xs ys = eqSeq ex (some d) ys xs := by
      intro xs ys hs hxs hys
      refine eqSeq_symm ex (some d) xs ys (fun x hx y hy => ?_)
      have h1 := List.sizeOf_lt_of_mem hx
      have h2 := List.sizeOf_lt_of_mem hy
      exact ih x y (by omega) (seqOnlyList_mem xs hxs x hx) (seqOnlyList_mem ys hys y hy)
    cases a <;> cases e <;> first
      | (simp [seqOnly] at ha; done)
      | (simp [seqOnly] at he; done)
      | (rw [eqTest.eq_def, eqTest.eq_def]; simp [isFloat, isIntOrFloat, num?, pyEq, numEq]; done)
      | (rw [eqTest.eq_def, eqTest.eq_def]; simp [isFloat, isIntOrFloat, num?, pyEq, numEq]; exact BEq.comm)
      | rfl
      | exact eqTest_num_symm ex d _ _ _ _ rfl rfl
      | exact eqTest_str_symm ex (some d) _ _
      | skip
    case list.list xs ys =>
      rw [eqTest_list, eqTest_list, hpe]
      have hl : (xs.length != ys.length) = (ys.length != xs.length) := by
        simp only [bne, show (xs.length == ys.length) = (ys.length == xs.length) from BEq.comm]
      simp only [seqOnly] at ha he
      simp only [PyVal.list.sizeOf_spec] at hsz
      rw [hl, seqCase xs ys (by omega) ha he]
    case tuple.tuple xs ys =>
      rw [eqTest_tuple, eqTest_tuple, hpe]
      have hl : (xs.length != ys.length) = (ys.length != xs.length) := by
        simp only [bne, show (xs.length == ys.length) = (ys.length == xs.length) from BEq.comm]
      simp only [seqOnly] at ha he
      simp only [PyVal.tuple.sizeOf_spec] at hsz
      rw [hl, seqCase xs ys (by omega) ha he]

/-! ### `equality_test` never raises on scalars, lists and tuples -/

theorem eqSeq_ok (ex : Bool) (d : Option (Int × Nat)) (xs ys : List PyVal)
    (h : ∀ x ∈ xs, ∀ y ∈ ys, ∃ b, eqTest ex d x y = .ok b) : ∃ b, eqSeq ex d xs ys = .ok b := by
  induction xs generalizing ys with
  | nil => cases ys <;> exact ⟨true, by simp [eqSeq]⟩
  | cons x xs ih =>
    cases ys with
    | nil => exact ⟨true, by simp [eqSeq]⟩
    | cons y ys =>
      obtain ⟨b, hb⟩ := h x (List.mem_cons_self) y (List.mem_cons_self)
      simp only [eqSeq, hb]
      cases b
      · exact ⟨false, rfl⟩
      · exact ih ys (fun a ha b hb => h a (List.mem_cons_of_mem _ ha) b (List.mem_cons_of_mem _ hb))

theorem eqTest_ok_aux (ex : Bool) (d : Int × Nat) : ∀ (n : Nat) (a e : PyVal), sizeOf a + sizeOf e ≤ n →
    seqOnly a = true → seqOnly e = true → ∃ b, eqTest ex (some d) a e = .ok b := by
  intro n
  induction n with
  | zero =>
    intro a e h
    cases a <;> simp at h
  | succ n ih =>
    intro a e hsz ha he
    have seqCase : ∀ xs ys : List PyVal, sizeOf xs + sizeOf ys ≤ n → seqOnlyList xs = true →
        seqOnlyList ys = true → ∃ b, eqSeq ex (some d) xs ys = .ok b := by
      intro xs ys hs hxs hys
      refine eqSeq_ok ex (some d) xs ys (fun x hx y hy => ?_)
      have h1 := List.sizeOf_lt_of_mem hx
      have h2 := List.sizeOf_lt_of_mem hy
      exact ih x y (by omega) (seqOnlyList_mem xs hxs x hx) (seqOnlyList_mem ys hys y hy)
    cases a <;> cases e <;> first
      | (simp [seqOnly] at ha; done)
      | (simp [seqOnly] at he; done)
      | (rw [eqTest.eq_def]; simp [isFloat, isIntOrFloat, num?]; done)
      | skip
    case str.str sa se =>
      simp only [seqOnly] at ha he
      rw [eqTest_str]
      cases ex <;> simp [ha, he]
    case list.list xs ys =>
      rw [eqTest_list]
      simp only [seqOnly] at ha he
      simp only [PyVal.list.sizeOf_spec] at hsz
      split
      · exact ⟨true, rfl⟩
      · split
        · exact ⟨false, rfl⟩
        · exact seqCase xs ys (by omega) ha he
    case tuple.tuple xs ys =>
      rw [eqTest_tuple]
      simp only [seqOnly] at ha he
      simp only [PyVal.tuple.sizeOf_spec] at hsz
      split
      · exact ⟨true, rfl⟩
      · split
        · exact ⟨false, rfl⟩
        · exact seqCase xs ys (by omega) ha he

/-! ### stripping the proxies does not change what a relation says -/

/-- Strip the proxies from both operands. -/
def Ctx.unwrapAll (c : Ctx) : Ctx := { c with left := c.left.unwrapped, right := c.right.unwrapped }

theorem rel_unwrapAll (name : String) (rel : Ctx → Res Bool) (h : relOf name = some rel) (c : Ctx) :
    rel c.unwrapAll = rel c := by
  unfold relOf at h
  split at h <;> first
    | (cases h; rfl)
    | (cases h)

end Pedal.Assertions

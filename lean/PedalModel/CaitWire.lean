import PedalModel.Wire
import PedalModel.Cait
import PedalModel.CaitSpec
/-
Line protocol for the CAIT model (drivers `driver_c10` / `driver_c11`).

  tree  := T <kind:x> <field:x> <nflds> fld* <nkids> tree*
  fld   := <name:x> N | <name:x> O item | <name:x> L <n> item*
  item  := A | P <ty:x> <key:x>
  path  := e | <i>.<j>...          (child indices)
  match := M <root:path|-> <nmap> (<pp> <sp>)* <nexp> (<key:x> <path>)* <nbind> (<tbl:v|f|c> <key:x> <id:x> <path>)* <nconf>

  request `match <ptree> <stree>`          -> `ok <n> match*`
  request `embed <ptree> <stree> <n> match*` -> `ok (0|1)*`   (checkMatch on matches of the REAL code)
  request `gen <ptree> <stree> <nrho> (<key:x> <id:x>)* <neps> (<key:x> <path>)* <nal> (<pp> <sp>)*`
                                           -> `ok 1` iff genCase (the hypotheses of the C11 theorem hold for this
                                              derived pattern), else `ok 0 <why>` (`why` is a diagnostic only)
-/
namespace Pedal.Cait
open Pedal.Wire

def parseItem : List String → Option (Item × List String)
  | "A" :: ts => some (.node, ts)
  | "P" :: ty :: key :: ts => do
    let ty ← decStr ty
    let key ← decStr key
    pure (.prim ⟨ty, key⟩, ts)
  | _ => none

def parseFld : List String → Option (Fld × List String)
  | name :: "N" :: ts => do
    let name ← decStr name
    pure (⟨name, .none⟩, ts)
  | name :: "O" :: ts => do
    let name ← decStr name
    let (i, ts) ← parseItem ts
    pure (⟨name, .one i⟩, ts)
  | name :: "L" :: n :: ts => do
    let name ← decStr name
    let n ← n.toNat?
    let (is, ts) ← takeN parseItem n ts
    pure (⟨name, .many is⟩, ts)
  | _ => none

/-- fuel-bounded recursive descent (fuel = number of tokens is always enough) -/
def parseTree : Nat → List String → Option (T × List String)
  | 0, _ => none
  | fuel + 1, "T" :: kind :: field :: nf :: ts => do
    let kind ← decStr kind
    let field ← decStr field
    let nf ← nf.toNat?
    let (flds, ts) ← takeN parseFld nf ts
    match ts with
    | nk :: ts =>
      let nk ← nk.toNat?
      let (kids, ts) ← takeN (parseTree fuel) nk ts
      pure (.mk kind field flds kids, ts)
    | [] => none
  | _, _ => none

def parsePath (tok : String) : Option Path :=
  if tok = "e" then some []
  else (tok.splitOn ".").mapM (·.toNat?)

def encPath (p : Path) : String :=
  if p.isEmpty then "e" else ".".intercalate (p.map toString)

def encTbl : Tbl → String
  | .var => "v" | .func => "f" | .cls => "c"

def parseTbl : String → Option Tbl
  | "v" => some .var | "f" => some .func | "c" => some .cls | _ => none

def encMatch (mr : AstMap × Option Path) : String :=
  let m := mr.1
  let root := match mr.2 with | some r => encPath r | none => "-"
  let maps := m.mappings.map fun (a, b) => s!"{encPath a} {encPath b}"
  let exps := m.exps.map fun (k, v) => s!"{encStr k} {encPath v}"
  let binds := m.binds.map fun b => s!"{encTbl b.tbl} {encStr b.key} {encStr b.id} {encPath b.node}"
  " ".intercalate (["M", root, toString maps.length] ++ maps ++ [toString exps.length] ++ exps ++
    [toString binds.length] ++ binds ++ [toString m.conflicts.length])

def parsePair : List String → Option ((Path × Path) × List String)
  | a :: b :: ts => do
    let a ← parsePath a
    let b ← parsePath b
    pure ((a, b), ts)
  | _ => none

def parseExp : List String → Option ((String × Path) × List String)
  | k :: v :: ts => do
    let k ← decStr k
    let v ← parsePath v
    pure ((k, v), ts)
  | _ => none

def parseBind : List String → Option (Bind × List String)
  | t :: k :: i :: n :: ts => do
    let t ← parseTbl t
    let k ← decStr k
    let i ← decStr i
    let n ← parsePath n
    pure (⟨t, k, i, n⟩, ts)
  | _ => none

def parseMatch : List String → Option ((AstMap × Option Path) × List String)
  | "M" :: root :: nm :: ts => do
    let root ← if root = "-" then some none else (parsePath root).map some
    let nm ← nm.toNat?
    let (maps, ts) ← takeN parsePair nm ts
    match ts with
    | ne :: ts =>
      let ne ← ne.toNat?
      let (exps, ts) ← takeN parseExp ne ts
      match ts with
      | nb :: ts =>
        let nb ← nb.toNat?
        let (binds, ts) ← takeN parseBind nb ts
        match ts with
        | nc :: ts =>
          let nc ← nc.toNat?
          pure ((⟨maps, exps, binds, List.replicate nc ""⟩, root), ts)
        | [] => none
      | [] => none
    | [] => none
  | _ => none

def handleMatch (ts : List String) : String :=
  match (do
    let (p, ts) ← parseTree (ts.length + 1) ts
    let (s, ts) ← parseTree (ts.length + 1) ts
    if ts.isEmpty then pure (p, s) else none) with
  | some (p, s) =>
    if !(opLeaves p && binOp3 p) then "bad-request" else
    let r := findMatches p s
    " ".intercalate (["ok", toString r.length] ++ r.map encMatch)
  | none => "bad-request"

def handleEmbed (ts : List String) : String :=
  match (do
    let (p, ts) ← parseTree (ts.length + 1) ts
    let (s, ts) ← parseTree (ts.length + 1) ts
    match ts with
    | n :: ts =>
      let n ← n.toNat?
      let (ms, ts) ← takeN parseMatch n ts
      if ts.isEmpty then pure (p, s, ms) else none
    | [] => none) with
  | some (p, s, ms) =>
    " ".intercalate ("ok" :: ms.map fun m => if checkMatch p s m.1 m.2 then "1" else "0")
  | none => "bad-request"

def parseRho : List String → Option ((String × String) × List String)
  | k :: v :: ts => do
    let k ← decStr k
    let v ← decStr v
    pure ((k, v), ts)
  | _ => none

/-- why `genCase` is false (diagnostic for the evidence; the verdict itself is `genCase`) -/
def genCaseWhy (p s : T) (rho : List (String × String)) (eps : List (String × Path)) (al : List (Path × Path)) :
    String :=
  let pr := trimGo p []
  let sr := trimRoot s
  if !opLeaves p then "opLeaves" else
  match dictGet pr.2 al with
  | none => "root-not-aligned"
  | some P =>
    if !sr.2.isPrefixOf P then "partner-above-trimmed-root" else
    match sr.1.at? (P.drop sr.2.length) with
    | none => "no-such-node"
    | some t =>
      if !genChk rho eps al pr.2 pr.1 P t then "genChk"
      else if !(rootField p = "none" || rootField p = t.field) then "root-field" else "?"

def handleGen (ts : List String) : String :=
  match (do
    let (p, ts) ← parseTree (ts.length + 1) ts
    let (s, ts) ← parseTree (ts.length + 1) ts
    match ts with
    | n :: ts =>
      let n ← n.toNat?
      let (rho, ts) ← takeN parseRho n ts
      match ts with
      | n :: ts =>
        let n ← n.toNat?
        let (eps, ts) ← takeN parseExp n ts
        match ts with
        | n :: ts =>
          let n ← n.toNat?
          let (al, ts) ← takeN parsePair n ts
          if ts.isEmpty then pure (p, s, rho, eps, al) else none
        | [] => none
      | [] => none
    | [] => none) with
  | some (p, s, rho, eps, al) =>
    if genCase p s rho eps al then "ok 1" else "ok 0 " ++ genCaseWhy p s rho eps al
  | none => "bad-request"

def dispatch : List String → String
  | "match" :: ts => handleMatch ts
  | "embed" :: ts => handleEmbed ts
  | "gen" :: ts => handleGen ts
  | _ => "bad-request"

end Pedal.Cait

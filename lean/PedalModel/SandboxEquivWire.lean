import PedalModel.Wire
import PedalModel.SandboxEquiv
import PedalModel.Gen.SandboxEquivGen
/-
Line protocol for C06 (driver_c06).  Strings are `x<hex>`; `-` is "none".

  io <max|-> <count0> <nq> q…  <tree>
      tree ::= D <fin> | U | O <text> tree | I <prompt> <nbranches> (V<text>|E|T tree)…
      (replies that are not listed lead to `unexplored`)
    -> ok suff=<0|1> s_out=<text> s_consumed=<n> x… s_rest=<n> x… s_fin=<n|-> p_out=… p_consumed=… p_rest=… p_fin=…

  call <f> <target|-> <fn-id> <result r<id>|e<id>> <nargs> arg… <nkw> (<name> arg)… <ndata> (key <val>)…
       <nlit> (<text> <val|->)…
      arg ::= <val> <repr text> <repr len> <literal 0|1> <variable name|->
      key ::= n<hex> | p<idx> | k<hex>        (a name, `_temporary_arg_<idx>`, `_temporary_kwarg_<name>`)
    -> ok src=<text> passed=<v,…|-> out=<r<id>|e<id>> data=<key:val,…> temps=<n> backups=<n>
      The function value is applied as CPython would: `<result>` if it is <fn-id> applied to exactly the
      instructor's values, e77 if another object is applied (a replaced builtin), e78 if other values arrive.

  cfg -> the generated configuration, for the evidence file
-/
namespace Pedal.SandboxEquiv.Wire
open Pedal.Wire Pedal.SandboxEquiv Pedal.Gen.SandboxEquiv

def parseReply (tok : String) : Option Reply :=
  match tok.toList with
  | ['E'] => some .eof
  | ['T'] => some .tooMany
  | 'V' :: rest => (decStr (String.ofList rest)).map .value
  | _ => none

mutual
  def parseTree : Nat → List String → Option (Prog × List String)
    | 0, _ => none
    | fuel + 1, ts =>
      match ts with
      | "D" :: n :: rest => n.toNat?.map fun f => (.done f, rest)
      | "U" :: rest => some (.unexplored, rest)
      | "O" :: s :: rest => do
        let text ← decStr s
        let (k, rest) ← parseTree fuel rest
        pure (.out text k, rest)
      | "I" :: p :: n :: rest => do
        let prompt ← decStr p
        let nb ← n.toNat?
        let (bs, rest) ← parseBranches fuel nb rest
        pure (.inp prompt (fun r => (bs.lookup r).getD .unexplored), rest)
      | _ => none
  def parseBranches : Nat → Nat → List String → Option (List (Reply × Prog) × List String)
    | 0, _, _ => none
    | _ + 1, 0, ts => some ([], ts)
    | fuel + 1, nb + 1, ts =>
      match ts with
      | r :: rest => do
        let reply ← parseReply r
        let (k, rest) ← parseTree fuel rest
        let (bs, rest) ← parseBranches fuel nb rest
        pure ((reply, k) :: bs, rest)
      | [] => none
end

def takeStrs (n : Nat) (ts : List String) : Option (List String × List String) :=
  takeN (fun ts => match ts with
    | t :: rest => (decStr t).map fun s => (s, rest)
    | [] => none) n ts

def encList (xs : List String) : String :=
  toString xs.length ++ (xs.foldl (fun acc x => acc ++ " " ++ encStr x) "")

def encFin : Option Nat → String
  | none => "-"
  | some n => toString n

def encObs (pre : String) (out : String) (o : Obs) : String :=
  pre ++ "out=" ++ encStr out ++ " " ++ pre ++ "consumed=" ++ encList o.consumed ++ " " ++ pre ++ "rest=" ++
    encList o.rest ++ " " ++ pre ++ "fin=" ++ encFin o.fin

def handleIO (ts : List String) : String :=
  match ts with
  | mx :: c0 :: nq :: rest =>
    match (if mx = "-" then some inputCfg.maxInputs else mx.toNat?.map some), c0.toNat?, nq.toNat? with
    | some maxI, some count0, some n =>
      match takeStrs n rest with
      | some (q, rest) =>
        match parseTree (rest.length + 1) rest with
        | some (p, []) =>
          let cfg := { inputCfg with maxInputs := maxI }
          let s := sandboxRun cfg p q count0
          let r := plainRun p q
          "ok suff=" ++ encBool (sufficient cfg p q count0) ++ " " ++ encObs "s_" (renderSandbox cfg s.chunks) s ++ " " ++
            encObs "p_" (renderPlain r.chunks) r
        | _ => "bad-request"
      | none => "bad-request"
    | _, _, _ => "bad-request"
  | _ => "bad-request"

/-! call -/

def parseKey (tok : String) : Option Key :=
  match tok.toList with
  | 'n' :: rest => (decStr (String.ofList ('x' :: rest))).map .name
  | 'p' :: rest => (String.ofList rest).toNat?.map fun i => .temp false i ""
  | 'k' :: rest => (decStr (String.ofList ('x' :: rest))).map fun s => .temp true 0 s
  | _ => none

def encKey : Key → String
  | .name s => "n" ++ ((encStr s).drop 1).toString
  | .temp false i _ => "p" ++ toString i
  | .temp true _ s => "k" ++ ((encStr s).drop 1).toString

def renderKey : Key → String
  | .name s => s
  | .temp false i _ => callCfg.tempPrefix ++ "arg_" ++ toString i
  | .temp true _ s => callCfg.tempPrefix ++ "kwarg_" ++ s

def renderRef : ArgRef → String
  | .lit t => t
  | .var n => n
  | .tmp k => renderKey k

def parseArg (ts : List String) : Option (Arg × List String) :=
  match ts with
  | v :: r :: l :: lit :: var :: rest => do
    let val ← v.toNat?
    let text ← decStr r
    let len ← l.toNat?
    let isLit ← decBool lit
    let varName ← decOptStr var
    pure ({ val := val, reprText := text, reprLen := len, literal := isLit, varName := varName }, rest)
  | _ => none

def parseKwArg (ts : List String) : Option ((String × Arg) × List String) :=
  match ts with
  | k :: rest => do
    let name ← decStr k
    let (a, rest) ← parseArg rest
    pure ((name, a), rest)
  | [] => none

def parseDataEntry (ts : List String) : Option ((Key × Nat) × List String) :=
  match ts with
  | k :: v :: rest => do
    let key ← parseKey k
    let val ← v.toNat?
    pure ((key, val), rest)
  | _ => none

def parseLitEntry (ts : List String) : Option ((String × Option Nat) × List String) :=
  match ts with
  | t :: v :: rest => do
    let text ← decStr t
    let val ← if v = "-" then some none else v.toNat?.map some
    pure ((text, val), rest)
  | _ => none

def parseOutcome (tok : String) : Option Outcome :=
  match tok.toList with
  | 'r' :: rest => (String.ofList rest).toNat?.map .ret
  | 'e' :: rest => (String.ofList rest).toNat?.map .raise
  | _ => none

def encOutcome : Outcome → String
  | .ret v => "r" ++ toString v
  | .raise e => "e" ++ toString e

def takeCount {α} (p : List String → Option (α × List String)) (ts : List String) : Option (List α × List String) :=
  match ts with
  | n :: rest => do
    let k ← n.toNat?
    takeN p k rest
  | [] => none

def overrideObject : Nat := 900

def joinWith (sep : String) : List String → String
  | [] => ""
  | [x] => x
  | x :: rest => x ++ sep ++ joinWith sep rest

def handleCall (ts : List String) : String :=
  match ts with
  | f :: tgt :: fnId :: res :: rest =>
    match decStr f, decOptStr tgt, fnId.toNat?, parseOutcome res with
    | some fname, some target, some fn, some result =>
      match takeCount parseArg rest with
      | some (args, rest) =>
        match takeCount parseKwArg rest with
        | some (kwargs, rest) =>
          match takeCount parseDataEntry rest with
          | some (data, rest) =>
            match takeCount parseLitEntry rest with
            | some (lits, []) =>
              let wantVals := args.map (·.val)
              let wantKw := kwargs.map fun e => (e.1, e.2.val)
              let E : Env := {
                evalLit := fun t => (lits.lookup t).getD none,
                apply := fun fv vs kvs =>
                  if fv != fn then .raise 77 else if vs == wantVals && kvs == wantKw then result else .raise 78 }
              let st : St := { data := data, temps := [], backups := [] }
              let r := callStep callCfg mockCfg (fun _ => overrideObject) E st fname args kwargs target
              let nPos := args.length
              let posTexts := (r.refs.take nPos).map renderRef
              let kwTexts := ((kwargs.map (·.1)).zip (r.refs.drop nPos)).map fun e => e.1 ++ "=" ++ renderRef e.2
              let call := fname ++ "(" ++ joinWith ", " (posTexts ++ kwTexts) ++ ")"
              let src := match target with
                | some t => if callCfg.assignsTarget then t ++ " = " ++ call else call
                | none => call
              let passed := match r.passed with
                | none => "-"
                | some vs => joinWith "," (vs.map toString)
              "ok src=" ++ encStr src ++ " passed=" ++ (if passed = "" then "," else passed) ++ " out=" ++
                encOutcome r.outcome ++ " data=" ++ joinWith "," (r.st.data.map fun e => encKey e.1 ++ ":" ++ toString e.2) ++
                " temps=" ++ toString r.st.temps.length ++ " backups=" ++ toString r.st.backups.length
            | _ => "bad-request"
          | none => "bad-request"
        | none => "bad-request"
      | none => "bad-request"
    | _, _, _, _ => "bad-request"
  | _ => "bad-request"

def handleCfg (_ : List String) : String :=
  "ok echoNewline=" ++ encBool inputCfg.echoNewline ++ " popFront=" ++ encBool inputCfg.popFront ++ " default=" ++
    encStr inputCfg.defaultReply ++ " maxInputs=" ++ encFin inputCfg.maxInputs ++ " maxLen=" ++ toString callCfg.maxLen ++
    " checksLiteral=" ++ encBool callCfg.checksLiteral ++ " writesNamespace=" ++ encBool mockCfg.writesNamespace ++
    " overrides=" ++ encList mockCfg.overrideNames

end Pedal.SandboxEquiv.Wire

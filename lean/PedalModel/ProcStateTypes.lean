/-
Shapes of the tables that harness/translate_procstate.py regenerates from the ASTs of
pedal/core/report.py (Report.__init__ / Report.clear / every other method), pedal/core/feedback.py
(override / _restore_overrides / override_for_pool), pedal/core/environment.py and pedal/tifa/__init__.py.

Core Lean only.
-/
namespace Pedal.ProcState

/-- What `Report.__init__` (or an assignment in `Report.clear`) puts into a field. -/
inductive Kind where
  | dict | list | set | none
  | ctor (name : String)          -- `Name()` with no arguments, e.g. `Formatter()`
  | opaque (src : String)         -- anything else: never accepted as a reset
  deriving DecidableEq, Repr

/-- How a statement of `Report.clear` treats a field. -/
inductive ResetHow where
  | clearCall                     -- `self.X.clear()`
  | assign (k : Kind)             -- `self.X = <expr of kind k>`
  deriving DecidableEq, Repr

inductive ClearStep where
  | reset (field : String) (how : ResetHow)
  | restoreEach (field : String)  -- `for c in self.X: c._restore_overrides()`
  deriving DecidableEq, Repr

structure Tables where
  /-- `self.X = …` statements of `Report.__init__`, in order -/
  initFields : List (String × Kind)
  /-- statements of `Report.clear`, in order, calls to other `self.m()` inlined -/
  clearSteps : List ClearStep
  /-- instance methods (other than `__init__`, `clear`, `full_clear`, `clear_overridden_feedback`) and
      the `self.X` they mutate -/
  methodDirties : List (String × List String)
  /-- classmethods and the `cls.X` they mutate -/
  classDirties : List (String × List String)
  /-- names bound in the body of `class Report` -/
  classAttrs : List String
  /-- fields of a report that OTHER modules of the package mutate (`report.X = …`, `report.X.append(…)`) -/
  externalDirties : List String
  /-- attributes other modules create on a report that `__init__` never made (nobody resets them) -/
  externalNewFields : List String
  /-- statements of `__init__` / `clear` the translator did not understand -/
  unknownSteps : List String
  /-- `Report.__getitem__`: a tool missing from `_tool_data` is reset before its data is returned -/
  lazyToolReset : Bool
  /-- `Feedback.override` / `_restore_overrides` use the class's OWN `_override_backups` -/
  backupPerClass : Bool
  /-- `Feedback.override` registers the class with the report -/
  overrideRegisters : Bool
  /-- `Feedback._restore_overrides` empties `Feedback._pools` -/
  restoreClearsPools : Bool
  /-- `Feedback.override_for_pool` registers the class with the report -/
  poolOverrideRegisters : Bool
  /-- `Environment.__init__` calls `report.clear()` before it contextualises -/
  envClearsFirst : Bool
  /-- the TIFA tool's `reset` calls `reset_builtin_modules()` before installing fresh tool data -/
  tifaResetRebuilds : Bool
  deriving Repr

end Pedal.ProcState

import PedalModel.Wire
/-
C14 — two-thread interleaving machine for a threaded execution E1 that hits the time limit,
followed by an ordinary execution E2 in the same sandbox.

Anchors: pedal/sandbox/timeout.py (`timeout`, `InterruptableThread.terminate/claim_finish`),
pedal/sandbox/sandbox.py (`_execute_with_timeout` and its `except TimeoutError` handler,
`_execute`, `_start_mocking`, `_stop_mocking`, `_stop_patches`, `append_output`,
`_capture_exception`).

Grader thread G:  join(duration) → [timer] → `is_alive() and claim_finish()` → terminate()
(async SystemExit posted; on a thread that ended meanwhile: nothing, or — not `termTolerant` —
an AssertionError that leaves `run()`) → TimeoutError handler: `_stop_patches` → pop stdout + append_output
→ `_capture_exception(timeout)` → `_next_context_id += 1` → return;  or, when the claim is
lost, join() the thread that is finishing by itself.  Then E2: clear_exception/new context →
push buffer → start patches → student code of E2 writes twice → `_stop_patches` → pop +
append_output → `_next_context_id += 1`.

Student thread T: `_execute` prologue (context, buffer, patches) → running (writes when it
prints; the posted SystemExit is delivered at its next step: propagates, or is swallowed) →
exit (normally / by an exception / by SystemExit) → `_stop_mocking`: claim check →
`_stop_patches` → pop + append_output → `_capture_exception` (unless normal) → id += 1.

Every list operation of the real code is its own atomic step, so the machine has every
interleaving of the two threads at the points where they touch shared sandbox state.  What the
machine does NOT have: preemption inside C code, delivery of the async exception in the middle
of pedal's own finalization (impossible once the claim protocol is there: the grader posts it
only after winning the claim), T's prologue racing the timer (assumed done before the limit).
The three protocol facts (`Cfg`) of the tree under test are read from the source by
harness/translate_timeout.py (PedalModel/Gen/TimeoutGen.lean) and plugged in by PedalModel/Timeout.lean.
-/
namespace Pedal.Timeout

/-- Which parts of the "one side finalizes a timed-out execution" protocol a tree has. -/
structure Cfg where
  /-- `timeout()` abandons the thread only after winning `claim_finish()` and
  `Sandbox._stop_mocking` starts by checking `_claim_finish()` -/
  claim : Bool
  /-- the `except TimeoutError` handler pops the execution's stdout buffer and appends its output -/
  handlerPops : Bool
  /-- the `except TimeoutError` handler advances `_next_context_id` -/
  handlerBumps : Bool
  /-- `InterruptableThread.terminate()` on a thread that has already ended does nothing (instead of
  failing `assert self.is_alive()`) -/
  termTolerant : Bool
  deriving Repr, DecidableEq

/-- who wrote a piece of output: E1's student code, E2's first / second print -/
inductive Tok where | e1 | n | x
  deriving Repr, DecidableEq

inductive Who where | g | t
  deriving Repr, DecidableEq

/-- where `sys.stdout` points / which buffer a stack entry is -/
inductive Target where | real | b1 | b2
  deriving Repr, DecidableEq

inductive Exc where | none | timeout | systemExit | student
  deriving Repr, DecidableEq

inductive ExitKind where | normal | raised | sysExit
  deriving Repr, DecidableEq

/-- which execution a context / feedback belongs to -/
inductive Ex where | one | two
  deriving Repr, DecidableEq

inductive GPc where
  | join | check | term | hStop | hPop | hCap | hBump | wait | ret
  | n0 | nPush | nPatch | nW1 | nW2 | nStop | nPop | nBump | done
  deriving Repr, DecidableEq

inductive TPc where
  | start | run | fClaim | fStop | fPop | fCap | fBump | dead
  deriving Repr, DecidableEq

/-- The student program of E1. -/
structure Prog where
  prints : Bool     -- writes a token whenever it is scheduled while running
  swallows : Bool   -- catches the injected SystemExit and keeps running
  blocked : Bool    -- sits in a blocking call: never reaches a bytecode boundary again
  deriving Repr, DecidableEq

/-- what the scheduler lets T's student code do at its next step -/
inductive TChoice where | work | finish | raise
  deriving Repr, DecidableEq

inductive Act where
  | g
  | t (c : TChoice)
  deriving Repr, DecidableEq

structure St where
  gpc : GPc
  tpc : TPc
  claim : Option Who
  pending : Bool            -- async SystemExit posted, not yet delivered
  tExit : ExitKind
  timedOut : Bool           -- G went down the TimeoutError path
  patches : List Target     -- `_current_patches`: each frame remembers the sys.stdout it replaced
  stdouts : List Target     -- `_current_stdout`
  sysStdout : Target
  buf1 : List Tok
  buf2 : List Tok
  real : List Tok           -- what reached the real stdout
  raw : List Tok            -- Sandbox.raw_output
  out1 : List Tok           -- E1's context.output
  out2 : List Tok
  ctxs : Nat                -- len(_context)
  id1 : Nat
  id2 : Nat
  nextId : Nat
  exc : Exc
  feedback : List (Exc × Ex)
  excAtReturn : Option Exc
  depthAtReturn : Option (Nat × Nat)
  excBeforeNext : Option Exc
  e2Escaped : Bool
  e1Escaped : Bool          -- an exception (AssertionError) escaped from `run(threaded=True)`
  deriving Repr, DecidableEq

def init : St :=
  { gpc := .join, tpc := .start, claim := none, pending := false, tExit := .normal, timedOut := false,
    patches := [], stdouts := [], sysStdout := .real, buf1 := [], buf2 := [], real := [], raw := [],
    out1 := [], out2 := [], ctxs := 0, id1 := 0, id2 := 0, nextId := 0, exc := .none, feedback := [],
    excAtReturn := none, depthAtReturn := none, excBeforeNext := none, e2Escaped := false,
    e1Escaped := false }

def St.content (s : St) : Target → List Tok
  | .real => s.real
  | .b1 => s.buf1
  | .b2 => s.buf2

/-- a write to `sys.stdout` -/
def St.write (s : St) (k : Tok) : St :=
  match s.sysStdout with
  | .real => { s with real := s.real ++ [k] }
  | .b1 => { s with buf1 := s.buf1 ++ [k] }
  | .b2 => { s with buf2 := s.buf2 ++ [k] }

/-- `_stop_patches()`: pop the TOP frame (whoever pushed it) and undo it -/
def St.stopPatches (s : St) : St :=
  match s.patches with
  | [] => s
  | saved :: rest => { s with patches := rest, sysStdout := saved }

/-- the context `get_context()` / `_context[-1]` denotes -/
def St.lastCtx (s : St) : Ex := if s.ctxs ≥ 2 then .two else .one

/-- `append_output(text, context)` -/
def St.appendOutput (s : St) (text : List Tok) (ctx : Ex) : St :=
  match ctx with
  | .one => { s with raw := s.raw ++ text, out1 := text }
  | .two => { s with raw := s.raw ++ text, out2 := text }

def St.capture (s : St) (e : Exc) : St :=
  { s with exc := e, feedback := s.feedback ++ [(e, s.lastCtx)] }

def excOfExit : ExitKind → Exc
  | .normal => .none
  | .raised => .student
  | .sysExit => .systemExit

def stepT (cfg : Cfg) (p : Prog) (s : St) (c : TChoice) : St :=
  match s.tpc with
  | .start =>
    -- `_execute` prologue: clear_exception, new context, `_start_mocking`
    { s with tpc := .run, exc := .none, id1 := s.nextId, ctxs := s.ctxs + 1,
             stdouts := .b1 :: s.stdouts, patches := s.sysStdout :: s.patches, sysStdout := .b1 }
  | .run =>
    if p.blocked then s
    else if s.pending then
      if p.swallows then { s with pending := false }
      else { s with pending := false, tpc := .fClaim, tExit := .sysExit }
    else
      match c with
      | .work => if p.prints then s.write .e1 else s
      | .finish => { s with tpc := .fClaim, tExit := .normal }
      | .raise => { s with tpc := .fClaim, tExit := .raised }
  | .fClaim =>
    if cfg.claim then
      match s.claim with
      | none => { s with claim := some .t, tpc := .fStop }
      | some _ => { s with tpc := .dead }     -- abandoned: ends without touching the sandbox
    else { s with tpc := .fStop }
  | .fStop => { s.stopPatches with tpc := .fPop }
  | .fPop =>
    match s.stdouts with
    | [] => { s with tpc := .dead }            -- IndexError ends the thread
    | b :: rest =>
      { ({ s with stdouts := rest }).appendOutput (s.content b) .one with
        tpc := if s.tExit = .normal then .fBump else .fCap }
  | .fCap => { s.capture (excOfExit s.tExit) with tpc := .fBump }
  | .fBump => { s with nextId := s.nextId + 1, tpc := .dead }
  | .dead => s

def stepG (cfg : Cfg) (s : St) : St :=
  match s.gpc with
  | .join =>
    match s.tpc with
    | .start => s                               -- assumption: T's prologue precedes the timer
    | .dead => { s with gpc := .ret }           -- finished in time
    | _ => { s with gpc := .check }             -- the timer fires
  | .check =>
    if cfg.claim then
      if s.tpc ≠ .dead ∧ s.claim = none then { s with claim := some .g, gpc := .term }
      else { s with gpc := .wait }
    else if s.tpc ≠ .dead then { s with gpc := .term } else { s with gpc := .ret }
  | .term =>
    -- `terminate()`: `assert self.is_alive()`, then post the async SystemExit
    if s.tpc = .dead then
      if cfg.termTolerant then { s with timedOut := true, gpc := .hStop }
      else { s with e1Escaped := true, gpc := .done }   -- AssertionError leaves `run()`; nothing is finalized
    else { s with pending := true, timedOut := true, gpc := .hStop }
  | .hStop => { s.stopPatches with gpc := if cfg.handlerPops then .hPop else .hCap }
  | .hPop =>
    match s.stdouts with
    | [] => { s with gpc := .hCap }
    | b :: rest => { ({ s with stdouts := rest }).appendOutput (s.content b) s.lastCtx with gpc := .hCap }
  | .hCap => { s.capture .timeout with gpc := if cfg.handlerBumps then .hBump else .ret }
  | .hBump => { s with nextId := s.nextId + 1, gpc := .ret }
  | .wait => if s.tpc = .dead then { s with gpc := .ret } else s
  | .ret =>
    { s with excAtReturn := some s.exc, depthAtReturn := some (s.patches.length, s.stdouts.length), gpc := .n0 }
  | .n0 => { s with excBeforeNext := some s.exc, exc := .none, id2 := s.nextId, ctxs := s.ctxs + 1, gpc := .nPush }
  | .nPush => { s with stdouts := .b2 :: s.stdouts, gpc := .nPatch }
  | .nPatch => { s with patches := s.sysStdout :: s.patches, sysStdout := .b2, gpc := .nW1 }
  | .nW1 => { s.write .n with gpc := .nW2 }
  | .nW2 => { s.write .x with gpc := .nStop }
  | .nStop => { s.stopPatches with gpc := .nPop }
  | .nPop =>
    match s.stdouts with
    | [] => { s with e2Escaped := true, gpc := .done }
    | b :: rest => { ({ s with stdouts := rest }).appendOutput (s.content b) .two with gpc := .nBump }
  | .nBump => { s with nextId := s.nextId + 1, gpc := .done }
  | .done => s

def step (cfg : Cfg) (p : Prog) (s : St) : Act → St
  | .g => stepG cfg s
  | .t c => stepT cfg p s c

def runSched (cfg : Cfg) (p : Prog) (s : St) (sched : List Act) : St := sched.foldl (step cfg p) s

/-! ### line protocol -/
open Pedal.Wire

def parseActs : List Char → Option (List Act)
  | [] => some []
  | 'g' :: r => (parseActs r).map (Act.g :: ·)
  | 'w' :: r => (parseActs r).map (Act.t .work :: ·)
  | 'f' :: r => (parseActs r).map (Act.t .finish :: ·)
  | 'r' :: r => (parseActs r).map (Act.t .raise :: ·)
  | _ => none

def encToks (l : List Tok) : String :=
  String.ofList (l.map fun | .e1 => 'T' | .n => 'n' | .x => 'x')

def encExc : Exc → String
  | .none => "none" | .timeout => "timeout" | .systemExit => "systemexit" | .student => "student"

def encOptExc : Option Exc → String
  | none => "-"
  | some e => encExc e

def encFb (l : List (Exc × Ex)) : String :=
  ",".intercalate (l.map fun (e, c) => encExc e ++ (match c with | .one => "@1" | .two => "@2"))

def encSt (s : St) : String :=
  s!"ok done={encBool (s.gpc == .done)} timedout={encBool s.timedOut} tdead={encBool (s.tpc == .dead)} " ++
  s!"exc={encExc s.exc} fb={encFb s.feedback} patches={s.patches.length} stdouts={s.stdouts.length} " ++
  s!"sysreal={encBool (s.sysStdout == .real)} raw={encToks s.raw} out1={encToks s.out1} out2={encToks s.out2} " ++
  s!"real={encToks s.real} id1={s.id1} id2={s.id2} next={s.nextId} excret={encOptExc s.excAtReturn} " ++
  s!"depthret={(s.depthAtReturn.map fun (a, b) => s!"{a}/{b}").getD "-"} excnext={encOptExc s.excBeforeNext} " ++
  s!"e2escaped={encBool s.e2Escaped} e1escaped={encBool s.e1Escaped}"

end Pedal.Timeout

import PedalModel.Wire
import PedalModel.Gen.SourceTables
/-
Executable model of pedal.source.verify (pedal/source/source.py) over the *parser outcome*:
CPython's `ast.parse` is a parameter (what it answered for the text), pedal's reaction is the model.
The except-ladder, the pre-checks and the class hierarchy come from the generated tables.
-/
namespace Pedal.Source
open Pedal.Gen.Source

/-- What `ast.parse` did: `none` = returned a tree; `some (cls, lineno)` = raised `cls`
    (`lineno` = the exception's `lineno` attribute when it has one). -/
abbrev ParseOutcome := Option (String × Option Nat)

structure Input where
  loadError : Bool          -- report.submission.load_error
  blank : Bool              -- code.strip() == ''
  parse : ParseOutcome
  offset : Nat              -- submission.line_offsets.get(filename, 0)
  deriving Repr

structure Output where
  feedback : List (String × Option Nat) := []   -- (feedback function, location line) in order
  success : Bool := true
  parsedTreeStored : Bool := false              -- report['source']['ast'] is ast.parse(code)'s result
  raised : Option String := none
  deriving Repr, BEq, DecidableEq

def mroOf (cls : String) : List String :=
  match mros.lookup cls with
  | some m => m
  | none => [cls, "?"]          -- unknown class: matches only a handler naming it (or nothing)

/-- CPython's `except` matching: the first handler naming a class in the exception's MRO. -/
def findHandler (cls : String) : List (List String × String × String) → Option (String × String)
  | [] => none
  | (classes, fb, kind) :: rest =>
    if classes.any (fun c => (mroOf cls).contains c) then some (fb, kind) else findHandler cls rest

def lineFor (kind : String) (lineno : Option Nat) (offset : Nat) : Option Nat :=
  if kind = "lineno" then lineno.map (· + offset) else none

/-- `verify`. An "opaque" table entry (a shape the translator did not understand) is an unmodelled raise. -/
def verify (i : Input) : Output :=
  if i.loadError then
    if loadErrorFeedback = "opaque" then { raised := some "unmodelled" } else
    let o : Output := { feedback := [(loadErrorFeedback, none)], success := false }
    if loadErrorReturns then o else { o with raised := some "unmodelled" }
  else
  let pre : List (String × Option Nat) := if i.blank then [(blankFeedback, none)] else []
  if (i.blank && (blankFeedback = "opaque" || blankReturns)) then { feedback := pre, raised := some "unmodelled" } else
  match i.parse with
  | none =>
    { feedback := pre, success := if elseSetsSuccess then true else !i.blank, parsedTreeStored := true }
  | some (cls, lineno) =>
    match findHandler cls handlers with
    | none => { feedback := pre, success := !i.blank, raised := some cls }
    | some (fb, kind) =>
      if fb = "opaque" then { feedback := pre, raised := some "unmodelled" }
      else { feedback := pre ++ [(fb, lineFor kind lineno i.offset)], success := false }

/-- Is this feedback function a syntax/indentation *error* report (as opposed to blank / not found)? -/
def isSyntaxErrorFeedback (fb : String) : Bool := fb = "syntax_error" || fb = "indentation_error"

/-! ### Wire format: `<loadError> <blank> <cls|-> <lineno|-> <offset>` -/
open Pedal.Wire

def encOut (o : Output) : String :=
  let fbs := String.intercalate "," (o.feedback.map fun (f, l) => f ++ ":" ++ (match l with | some n => toString n | none => "-"))
  s!"ok feedback=[{fbs}] success={encBool o.success} tree={encBool o.parsedTreeStored} raised={o.raised.getD "-"}"

def handle : List String → String
  | [le, bl, cls, ln, off] =>
    match (do
      let le ← decBool le
      let bl ← decBool bl
      let off ← off.toNat?
      let ln ← if ln = "-" then some none else ln.toNat?.map some
      let parse : ParseOutcome := if cls = "-" then none else some (cls, ln)
      pure ({ loadError := le, blank := bl, parse := parse, offset := off } : Input)) with
    | some i => encOut (verify i)
    | none => "bad-request"
  | _ => "bad-request"

end Pedal.Source

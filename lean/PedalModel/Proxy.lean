/-
C16 — executable model of (a) CPython's operator / conversion dispatch protocol, parameterised by a
type table, and (b) pedal's result proxy `SandboxResult` (pedal/sandbox/result.py) as a class whose
dunder methods are *forwarding plans* read from the source by harness/translate_proxy.py
(PedalModel/Gen/ProxyPlans.lean).

Core Lean only (the driver links natively).

Level of abstraction
* A value is an opaque id; what CPython's slots do with ids is the `TypeTable` parameter
  (`lookup` resolves a dunder through the MRO to a slot id = defining class+name, `call` runs it).
  Theorems quantify over every table; the harness tabulates the real CPython behaviour for the operands of
  each request and runs the same functions through the driver.
* `binaryOp` is `binary_op1`/`do_richcompare`: reflected-first for a proper subclass (arithmetic: only if it
  overrides the reflected method), left slot, right reflected slot (comparisons: also for equal classes),
  then the sequence `+`/`*` fallback, identity for `==`/`!=`, else TypeError.
* `convOp` walks the chain of dunders CPython consults for a builtin (`float`: `__float__` then `__index__`, …)
  with CPython's return-type checks.
* A real slot that receives a proxy as its *other* operand either declines (C slots type-check the operand),
  or is duck-typed Python code that sees through the proxy (`blind`), or inspects it (`sees`, unmodelled).
-/
namespace Pedal.Proxy

/-! ## Names -/

inductive Dunder where
  | add | radd | sub | rsub | mul | rmul | matmul | rmatmul | truediv | rtruediv | floordiv | rfloordiv
  | mod | rmod | divmod | rdivmod | pow | rpow | lshift | rlshift | rshift | rrshift
  | and_ | rand | xor | rxor | or_ | ror
  | lt | le | gt | ge | eq | ne
  | neg | pos | abs | invert
  | len | hash | bool | str | repr | format | int | float | complex | round | trunc | floor | ceil | index
  | iter | reversed | contains | getitem
  deriving DecidableEq, Repr, Inhabited

def dunderNames : List (String × Dunder) := [
  ("__add__", .add), ("__radd__", .radd), ("__sub__", .sub), ("__rsub__", .rsub), ("__mul__", .mul),
  ("__rmul__", .rmul), ("__matmul__", .matmul), ("__rmatmul__", .rmatmul), ("__truediv__", .truediv),
  ("__rtruediv__", .rtruediv), ("__floordiv__", .floordiv), ("__rfloordiv__", .rfloordiv), ("__mod__", .mod),
  ("__rmod__", .rmod), ("__divmod__", .divmod), ("__rdivmod__", .rdivmod), ("__pow__", .pow), ("__rpow__", .rpow),
  ("__lshift__", .lshift), ("__rlshift__", .rlshift), ("__rshift__", .rshift), ("__rrshift__", .rrshift),
  ("__and__", .and_), ("__rand__", .rand), ("__xor__", .xor), ("__rxor__", .rxor), ("__or__", .or_), ("__ror__", .ror),
  ("__lt__", .lt), ("__le__", .le), ("__gt__", .gt), ("__ge__", .ge), ("__eq__", .eq), ("__ne__", .ne),
  ("__neg__", .neg), ("__pos__", .pos), ("__abs__", .abs), ("__invert__", .invert),
  ("__len__", .len), ("__hash__", .hash), ("__bool__", .bool), ("__str__", .str), ("__repr__", .repr),
  ("__format__", .format), ("__int__", .int), ("__float__", .float), ("__complex__", .complex),
  ("__round__", .round), ("__trunc__", .trunc), ("__floor__", .floor), ("__ceil__", .ceil), ("__index__", .index),
  ("__iter__", .iter), ("__reversed__", .reversed), ("__contains__", .contains), ("__getitem__", .getitem)]

def Dunder.ofName (s : String) : Option Dunder := dunderNames.lookup s

inductive BinOp where
  | add | sub | mul | matmul | truediv | floordiv | mod | divmod | pow | lshift | rshift | and_ | xor | or_
  | lt | le | gt | ge | eq | ne
  deriving DecidableEq, Repr, Inhabited

def BinOp.all : List BinOp :=
  [.add, .sub, .mul, .matmul, .truediv, .floordiv, .mod, .divmod, .pow, .lshift, .rshift, .and_, .xor, .or_,
   .lt, .le, .gt, .ge, .eq, .ne]

def binOpNames : List (String × BinOp) := [
  ("add", .add), ("sub", .sub), ("mul", .mul), ("matmul", .matmul), ("truediv", .truediv), ("floordiv", .floordiv),
  ("mod", .mod), ("divmod", .divmod), ("pow", .pow), ("lshift", .lshift), ("rshift", .rshift), ("and", .and_),
  ("xor", .xor), ("or", .or_), ("lt", .lt), ("le", .le), ("gt", .gt), ("ge", .ge), ("eq", .eq), ("ne", .ne)]

def BinOp.isCmp : BinOp → Bool
  | .lt | .le | .gt | .ge | .eq | .ne => true
  | _ => false

/-- The method tried on the left operand. -/
def BinOp.dunder : BinOp → Dunder
  | .add => .add | .sub => .sub | .mul => .mul | .matmul => .matmul | .truediv => .truediv
  | .floordiv => .floordiv | .mod => .mod | .divmod => .divmod | .pow => .pow | .lshift => .lshift
  | .rshift => .rshift | .and_ => .and_ | .xor => .xor | .or_ => .or_
  | .lt => .lt | .le => .le | .gt => .gt | .ge => .ge | .eq => .eq | .ne => .ne

/-- The method tried on the right operand (comparisons: the mirrored comparison). -/
def BinOp.rdunder : BinOp → Dunder
  | .add => .radd | .sub => .rsub | .mul => .rmul | .matmul => .rmatmul | .truediv => .rtruediv
  | .floordiv => .rfloordiv | .mod => .rmod | .divmod => .rdivmod | .pow => .rpow | .lshift => .rlshift
  | .rshift => .rrshift | .and_ => .rand | .xor => .rxor | .or_ => .ror
  | .lt => .gt | .le => .ge | .gt => .lt | .ge => .le | .eq => .eq | .ne => .ne

/-- `a < b` mirrored is `b > a`; arithmetic operators have no mirror (identity here, unused). -/
def BinOp.swapped : BinOp → BinOp
  | .lt => .gt | .le => .ge | .gt => .lt | .ge => .le | o => o

/-! ## Values and outcomes -/

inductive Val where
  | raw (id : Nat)          -- an ordinary Python object
  | notImpl                 -- the NotImplemented singleton
  | proxy (inner : Val)     -- a SandboxResult wrapping `inner`
  deriving DecidableEq, Repr, Inhabited

def Val.unwrap : Val → Val
  | .proxy v => v
  | v => v

inductive Res where
  | ret (v : Val)
  | raise (e : Nat)
  | unmodelled              -- the model declines to predict (never satisfies a theorem's conclusion)
  deriving DecidableEq, Repr, Inhabited

/-- Outcome of an operation: result plus "something was written to stdout". -/
structure Out where
  res : Res
  printed : Bool
  deriving DecidableEq, Repr, Inhabited

def quiet (r : Res) : Out := ⟨r, false⟩
def declined : Out := ⟨.ret .notImpl, false⟩

/-- If `a` is NotImplemented continue with `b` (stdout accumulates), else `a`. -/
def Out.orElse (a : Out) (b : Unit → Out) : Out :=
  match a.res with
  | .ret .notImpl => let o := b (); ⟨o.res, a.printed || o.printed⟩
  | _ => a

/-! ## The type table (parameter) -/

inductive Foreign where
  | declines   -- C slot: operand of a foreign type ⇒ NotImplemented
  | blind      -- Python-level method: behaves on the proxy as on the wrapped value
  | sees       -- inspects the foreign operand itself (e.g. `str.__mod__`): unmodelled
  deriving DecidableEq, Repr, Inhabited

inductive Kind where
  | exactInt | float | complex | str | bool | iterator | indexable
  deriving DecidableEq, Repr, Inhabited

inductive Post where
  | asLen | asHash | lenNonzero | asInt | toFloat | toComplex | floorF | ceilF | truncInt | truth
  deriving DecidableEq, Repr, Inhabited

inductive Conv where
  | neg | pos | abs | invert
  | len | hash | bool | str | repr | format | int | float | complex | round | trunc | floor | ceil | index
  | iter | reversed
  deriving DecidableEq, Repr, Inhabited

structure TypeTable where
  cls : Nat → Nat                         -- class of a value
  isSub : Nat → Nat → Bool                -- `issubclass` on classes (reflexive)
  lookup : Nat → Dunder → Option Nat      -- class, dunder ↦ slot id (defining class + name), through the MRO
  isSq : Nat → Bool                       -- the slot is a sequence slot (`list.__add__`), tried after the number slots
  foreign : Nat → Foreign
  call : Nat → Nat → Nat → Res            -- slot, self, other
  call1 : Nat → Nat → Res                 -- slot, self
  same : Nat → Nat → Bool                 -- `is`
  trueId : Nat
  falseId : Nat
  typeErr : Nat
  attrErr : Nat
  hasKind : Nat → Kind → Bool
  post : Post → Nat → Res                 -- CPython's own post-processing of a slot result (int → float, len → truth, …)
  convFallback : Conv → Nat → Res         -- what the builtin does when no dunder of its chain exists
  iterContains : Nat → Nat → Res          -- `x in c` through iteration, when `__contains__` is absent
  proxyCls : Nat                          -- class id of SandboxResult

def nbSlot (T : TypeTable) (c : Nat) (d : Dunder) : Option Nat :=
  match T.lookup c d with
  | some s => if T.isSq s then none else some s
  | none => none

def sqSlot (T : TypeTable) (c : Nat) (d : Dunder) : Option Nat :=
  match T.lookup c d with
  | some s => if T.isSq s then some s else none
  | none => none

/-! ## Binary dispatch -/

def tryOpt (f : Option (Unit → Out)) : Out :=
  match f with
  | none => declined
  | some g => g ()

/-- The order in which CPython consults the two candidate methods. -/
def dispatchCore (reflAllowed rightFirst : Bool) (fwd refl : Option (Unit → Out)) (fb : Unit → Out) : Out :=
  if rightFirst then
    (tryOpt refl).orElse fun _ => (tryOpt fwd).orElse fb
  else
    (tryOpt fwd).orElse fun _ => (if reflAllowed then tryOpt refl else declined).orElse fb

/-- When every number slot declined. -/
def fallback (T : TypeTable) (op : BinOp) (l r : Nat) : Res :=
  match op with
  | .add => match sqSlot T (T.cls l) .add with
    | some s => T.call s l r
    | none => .raise T.typeErr
  | .mul => match sqSlot T (T.cls l) .mul with
    | some s => T.call s l r
    | none => match sqSlot T (T.cls r) .rmul with
      | some s => T.call s r l
      | none => .raise T.typeErr
  | .eq => .ret (.raw (if T.same l r then T.trueId else T.falseId))
  | .ne => .ret (.raw (if T.same l r then T.falseId else T.trueId))
  | _ => .raise T.typeErr

/-- Does CPython try the right operand's reflected method first? -/
def rightFirst (T : TypeTable) (op : BinOp) (l r : Nat) : Bool :=
  let cl := T.cls l
  let cr := T.cls r
  cl != cr && T.isSub cr cl && (nbSlot T cr op.rdunder).isSome &&
    (op.isCmp || nbSlot T cr op.rdunder != nbSlot T cl op.rdunder)

/-- `l <op> r` on ordinary values. -/
def binaryOp (T : TypeTable) (op : BinOp) (l r : Nat) : Out :=
  let fwd := (nbSlot T (T.cls l) op.dunder).map fun s (_ : Unit) => quiet (T.call s l r)
  let refl := (nbSlot T (T.cls r) op.rdunder).map fun s (_ : Unit) => quiet (T.call s r l)
  dispatchCore (op.isCmp || T.cls l != T.cls r) (rightFirst T op l r) fwd refl
    (fun _ => quiet (fallback T op l r))

/-! ## Unary operators, conversions, containers -/

structure Step where
  d : Dunder
  check : Option Kind
  post : Option Post
  deriving DecidableEq, Repr

/-- The dunders a builtin consults, in order, each with CPython's return-type check and post-processing. -/
def Conv.chain : Conv → List Step
  | .neg => [⟨.neg, none, none⟩]
  | .pos => [⟨.pos, none, none⟩]
  | .abs => [⟨.abs, none, none⟩]
  | .invert => [⟨.invert, none, none⟩]
  | .len => [⟨.len, some .indexable, some .asLen⟩]
  | .hash => [⟨.hash, some .exactInt, some .asHash⟩]
  | .bool => [⟨.bool, some .bool, none⟩, ⟨.len, some .indexable, some .lenNonzero⟩]
  | .str => [⟨.str, some .str, none⟩]
  | .repr => [⟨.repr, some .str, none⟩]
  | .format => [⟨.format, some .str, none⟩]
  | .int => [⟨.int, some .exactInt, some .asInt⟩, ⟨.index, some .exactInt, some .asInt⟩, ⟨.trunc, none, some .truncInt⟩]
  | .float => [⟨.float, some .float, none⟩, ⟨.index, some .exactInt, some .toFloat⟩]
  | .complex => [⟨.complex, some .complex, none⟩, ⟨.float, some .float, some .toComplex⟩,
                 ⟨.index, some .exactInt, some .toComplex⟩]
  | .round => [⟨.round, none, none⟩]
  | .trunc => [⟨.trunc, none, none⟩]
  | .floor => [⟨.floor, none, none⟩, ⟨.float, some .float, some .floorF⟩, ⟨.index, some .exactInt, some .floorF⟩]
  | .ceil => [⟨.ceil, none, none⟩, ⟨.float, some .float, some .ceilF⟩, ⟨.index, some .exactInt, some .ceilF⟩]
  | .index => [⟨.index, some .exactInt, none⟩]
  | .iter => [⟨.iter, some .iterator, none⟩]
  | .reversed => [⟨.reversed, none, none⟩]

/-- C-level type test on a result. A proxy is an instance of none of the builtin kinds; "indexable" would go
through the proxy's own `__index__` and is left unmodelled. -/
def kindOK (T : TypeTable) (k : Kind) : Val → Option Bool
  | .raw id => some (T.hasKind id k)
  | .notImpl => some false
  | .proxy _ => if k = .indexable then none else some false

def applyPost (T : TypeTable) (p : Option Post) (v : Val) (printed : Bool) : Out :=
  match p with
  | none => ⟨.ret v, printed⟩
  | some p => match v with
    | .raw id => ⟨T.post p id, printed⟩
    | _ => ⟨.unmodelled, printed⟩

def finishStep (T : TypeTable) (st : Step) (o : Out) : Out :=
  match o.res with
  | .ret v => match st.check with
    | none => applyPost T st.post v o.printed
    | some k => match kindOK T k v with
      | some true => applyPost T st.post v o.printed
      | some false => ⟨.raise T.typeErr, o.printed⟩
      | none => ⟨.unmodelled, o.printed⟩
  | _ => o

def runChain (T : TypeTable) (slot : Dunder → Option (Unit → Out)) (fb : Unit → Out) : List Step → Out
  | [] => fb ()
  | st :: rest => match slot st.d with
    | none => runChain T slot fb rest
    | some call => finishStep T st (call ())

/-- `conv(v)` on an ordinary value. -/
def convOp (T : TypeTable) (c : Conv) (v : Nat) : Out :=
  runChain T (fun d => (T.lookup (T.cls v) d).map fun s (_ : Unit) => quiet (T.call1 s v))
    (fun _ => quiet (T.convFallback c v)) c.chain

/-- `c[k]`. -/
def getitemOp (T : TypeTable) (c k : Nat) : Out :=
  match T.lookup (T.cls c) .getitem with
  | none => quiet (.raise T.typeErr)
  | some s => quiet (T.call s c k)

/-- `x in c`. -/
def containsOp (T : TypeTable) (c x : Nat) : Out :=
  match T.lookup (T.cls c) .contains with
  | none => quiet (T.iterContains c x)
  | some s => finishStep T ⟨.contains, none, some .truth⟩ (quiet (T.call s c x))

/-- `isinstance(x, C)`: C-level type first, then the `__class__` attribute when it differs. -/
def isinstanceCore (T : TypeTable) (typeOf classAttr C : Nat) : Bool :=
  T.isSub typeOf C || (classAttr != typeOf && T.isSub classAttr C)

def isinstanceOp (T : TypeTable) (v C : Nat) : Bool :=
  isinstanceCore T (T.cls v) (T.cls v) C

/-! ## The proxy class -/

inductive Arg where
  | self    -- `self.value`
  | other   -- the other operand (unwrapped if the plan unwraps it)
  deriving DecidableEq, Repr, Inhabited

/-- What a SandboxResult method evaluates on the wrapped value(s). -/
inductive Expr where
  | infix (op : BinOp) (a b : Arg)     -- `a <op> b`, `divmod(a, b)`, `pow(a, b)`
  | method (d : Dunder) (a b : Arg)    -- `a.__d__(b)` called by hand
  | method1 (d : Dunder)               -- `self.value.__d__()`
  | builtin (c : Conv)                 -- `c(self.value)`
  | subscript                          -- `self.value[other]`
  | isIn                               -- `other in self.value`
  | missingName                        -- refers to a name that does not exist (raises)
  deriving DecidableEq, Repr, Inhabited

structure Plan where
  first : Expr
  fallback : Option Expr      -- evaluated when `first` produced NotImplemented
  prints : Bool               -- the method writes to stdout
  wrap : Bool                 -- result goes through `_clone_this_result`
  unwrapOther : Bool          -- a proxied other operand is unwrapped first
  deriving DecidableEq, Repr, Inhabited

inductive PlanEntry where
  | plan (p : Plan)
  | opaque                    -- the translator did not understand the method body
  deriving DecidableEq, Repr, Inhabited

structure ProxyClass where
  plans : List (Dunder × PlanEntry)
  spoofsClass : Bool              -- `__getattribute__('__class__')` answers the wrapped value's class
  powForwardsModulo : Bool        -- `__pow__` passes its third argument on
  lenFnDelegates : Bool           -- replacement `len()` calls the builtin for ordinary values
  deriving Repr, Inhabited

def ProxyClass.entry (P : ProxyClass) (d : Dunder) : Option PlanEntry := P.plans.lookup d

inductive Operand where
  | raw (id : Nat)
  | proxy (id : Nat)
  deriving DecidableEq, Repr, Inhabited

def Operand.id : Operand → Nat
  | .raw i => i
  | .proxy i => i

def Operand.isProxy : Operand → Bool
  | .raw _ => false
  | .proxy _ => true

def wrapOut (wrap : Bool) (o : Out) : Out :=
  match o.res with
  | .ret v => if wrap then ⟨.ret (.proxy v), o.printed⟩ else o
  | _ => o

def pick (self other : Nat) : Arg → Nat
  | .self => self
  | .other => other

/-- One expression of a plan in a two-operand method. -/
def evalBin (T : TypeTable) (e : Expr) (self other : Nat) : Out :=
  match e with
  | .infix op a b => binaryOp T op (pick self other a) (pick self other b)
  | .method d a b =>
    match T.lookup (T.cls (pick self other a)) d with
    | none => quiet (.raise T.attrErr)
    | some s => quiet (T.call s (pick self other a) (pick self other b))
  | .subscript => getitemOp T self other
  | .isIn => containsOp T self other
  | .missingName => quiet (.raise T.attrErr)
  | _ => quiet .unmodelled

/-- One expression of a plan in a one-operand method. -/
def evalUn (T : TypeTable) (e : Expr) (self : Nat) : Out :=
  match e with
  | .builtin c => convOp T c self
  | .method1 d =>
    match T.lookup (T.cls self) d with
    | none => quiet (.raise T.attrErr)
    | some s => quiet (T.call1 s self)
  | .missingName => quiet (.raise T.attrErr)
  | _ => quiet .unmodelled

def withPrint (prints : Bool) (o : Out) : Out :=
  match o.res with
  | .raise _ => o                     -- the debug prints sit after the first call
  | _ => ⟨o.res, o.printed || prints⟩

/-- Run a two-operand method of the proxy: `self` is the wrapped value, `other` the other operand. -/
def runPlan (T : TypeTable) (p : PlanEntry) (self : Nat) (other : Operand) : Out :=
  match p with
  | .opaque => quiet .unmodelled
  | .plan p =>
    match other, p.unwrapOther with
    | .proxy _, false => quiet .unmodelled
    | _, _ =>
      let o := withPrint p.prints (evalBin T p.first self other.id)
      let o := match p.fallback with
        | none => o
        | some e => o.orElse fun _ => evalBin T e self other.id
      wrapOut p.wrap o

/-- Run a one-operand method of the proxy. -/
def runPlan1 (T : TypeTable) (p : PlanEntry) (self : Nat) : Out :=
  match p with
  | .opaque => quiet .unmodelled
  | .plan p => wrapOut p.wrap (withPrint p.prints (evalUn T p.first self))

/-- A real slot called with a possibly proxied other operand. -/
def callReal (T : TypeTable) (s self : Nat) (other : Operand) : Res :=
  match other with
  | .raw o => T.call s self o
  | .proxy o => match T.foreign s with
    | .declines => .ret .notImpl
    | .blind => T.call s self o
    | .sees => .unmodelled

/-- Fallback at the outer level (reached only if the proxy lacks the method). -/
def outerFallback (T : TypeTable) (op : BinOp) (lo ro : Operand) : Out :=
  match op with
  | .eq => quiet (.ret (.raw T.falseId))
  | .ne => quiet (.ret (.raw T.trueId))
  | .add | .mul => quiet .unmodelled
  | _ => quiet (.raise T.typeErr)

/-- `lo <op> ro` where at least one operand may be a proxy. The proxy class is unrelated to every other
class (a direct subclass of `object`), so no reflected-first rule applies at this level. -/
def outerBinary (T : TypeTable) (P : ProxyClass) (op : BinOp) (lo ro : Operand) : Out :=
  match lo, ro with
  | .raw l, .raw r => binaryOp T op l r
  | _, _ =>
    let fwd : Option (Unit → Out) := match lo with
      | .raw l => (nbSlot T (T.cls l) op.dunder).map fun s _ => quiet (callReal T s l ro)
      | .proxy l => (P.entry op.dunder).map fun pl _ => runPlan T pl l ro
    let refl : Option (Unit → Out) := match ro with
      | .raw r => (nbSlot T (T.cls r) op.rdunder).map fun s _ => quiet (callReal T s r lo)
      | .proxy r => (P.entry op.rdunder).map fun pl _ => runPlan T pl r lo
    dispatchCore (op.isCmp || !(lo.isProxy && ro.isProxy)) false fwd refl (fun _ => outerFallback T op lo ro)

/-- `conv(x)` where `x` may be a proxy. -/
def outerConv (T : TypeTable) (P : ProxyClass) (c : Conv) (x : Operand) : Out :=
  match x with
  | .raw v => convOp T c v
  | .proxy v =>
    runChain T (fun d => (P.entry d).map fun pl (_ : Unit) => runPlan1 T pl v) (fun _ => quiet .unmodelled) c.chain

/-- `x[k]` with `x` possibly a proxy (the key is an ordinary value). -/
def outerGetitem (T : TypeTable) (P : ProxyClass) (x : Operand) (k : Nat) : Out :=
  match x with
  | .raw c => getitemOp T c k
  | .proxy c => match P.entry .getitem with
    | none => quiet (.raise T.typeErr)
    | some pl => runPlan T pl c (.raw k)

/-- `k in x` with `x` possibly a proxy. -/
def outerContains (T : TypeTable) (P : ProxyClass) (x : Operand) (k : Nat) : Out :=
  match x with
  | .raw c => containsOp T c k
  | .proxy c => match P.entry .contains with
    | none => quiet .unmodelled
    | some pl => finishStep T ⟨.contains, none, some .truth⟩ (runPlan T pl c (.raw k))

def outerIsinstance (T : TypeTable) (P : ProxyClass) (x : Operand) (C : Nat) : Bool :=
  match x with
  | .raw v => isinstanceOp T v C
  | .proxy v => isinstanceCore T T.proxyCls (if P.spoofsClass then T.cls v else T.proxyCls) C

/-! ## Placements -/

inductive Placement where
  | left | right | both
  deriving DecidableEq, Repr, Inhabited

def Placement.operands (p : Placement) (l r : Nat) : Operand × Operand :=
  match p with
  | .left => (.proxy l, .raw r)
  | .right => (.raw l, .proxy r)
  | .both => (.proxy l, .proxy r)

/-- The canonical forwarding plans: what a transparent proxy method looks like. -/
def Plan.infixFwd (op : BinOp) : PlanEntry := .plan ⟨.infix op .self .other, none, false, true, true⟩
def Plan.infixRefl (op : BinOp) : PlanEntry := .plan ⟨.infix op .other .self, none, false, true, true⟩
def Plan.cmp (op : BinOp) : PlanEntry := .plan ⟨.infix op .self .other, none, false, false, true⟩

/-! ## Decidable side conditions (reported by the driver, hypotheses of the theorems) -/

/-- The conditions under which a proxy on the right can be transparent at all: the left operand's own method
must not inspect the foreign object itself, and if it is duck-typed Python code the reflected-first rule for
subclasses (which the proxy hides from CPython) must not apply. -/
def RightOK (T : TypeTable) (op : BinOp) (l r : Nat) : Bool :=
  match nbSlot T (T.cls l) op.dunder with
  | none => true
  | some s => match T.foreign s with
    | .declines => true
    | .blind => !rightFirst T op l r
    | .sees => false

/-- The builtin's own result passes the return-type check of the method the proxy routes it through, unchanged
(`len(x)` is an int that is its own length, `float(x)` is a float, …): a fact about CPython. -/
def stableB (T : TypeTable) (st : Step) (o : Out) : Bool :=
  match o.res with
  | .ret r => finishStep T st ⟨.ret r, false⟩ == ⟨.ret r, false⟩
  | _ => true

end Pedal.Proxy

import PedalModel.Assertions
/-
C07 — the expression language of the `condition` methods, its evaluator, the guard that
`RuntimeAssertionFeedback.__init__` puts around the condition, and assert_group/unit_test counting.
-/
namespace Pedal.Assertions

/-- An operand as a condition sees it through `X.value`: the underlying value, whether it is wrapped
    in a `SandboxResult` proxy, the identity of the underlying object and of the proxy object
    (identities are only ever compared; 0 = a fresh object). -/
structure V where
  v : PyVal
  px : Bool := false
  oid : Nat := 0
  poid : Nat := 0
  deriving Repr, Inhabited

def V.fresh (v : PyVal) : V := { v := v }
def V.ofBool (b : Bool) : V := V.fresh (.bool b)
def V.unwrapped (x : V) : V := { x with px := false, poid := 0 }

inductive Side
  | left | right
  deriving DecidableEq, Repr, Inhabited

inductive CmpOp
  | lt | le | gt | ge | eq | ne | in_ | notIn | is_ | isNot
  deriving DecidableEq, Repr, Inhabited

/-- What `harness/translate_assertions.py` emits for a `condition` body. -/
inductive CondExpr
  | value (s : Side)                          -- `X.value`
  | isSandboxed (s : Side)                    -- `X.is_sandboxed`
  | param (name : String)                     -- a keyword parameter of `condition` (exact_strings, delta)
  | noneLit
  | boolLit (b : Bool)
  | tyLit (t : TyTag)                         -- `int`, `float`, ...
  | tuple2 (a b : CondExpr)                   -- `(a, b)`
  | actualValue (e : CondExpr)                -- `e._actual_value`
  | unwrap (e : CondExpr)                     -- `unwrap_value(e)`
  | cmp (op : CmpOp) (a b : CondExpr)
  | not_ (a : CondExpr)
  | or_ (a b : CondExpr)
  | and_ (a b : CondExpr)
  | ite (c a b : CondExpr)
  | len (a : CondExpr)
  | bool_ (a : CondExpr)
  | str_ (a : CondExpr)                       -- `str(a)`
  | lower (a : CondExpr)                      -- `a.lower()`
  | errors1 (s : Side)                        -- `errors(X)`
  | errors2                                   -- `errors(left, right)`
  | equalityTest (a b ex d : CondExpr)        -- `equality_test(a, b, ex, d)`
  | allIn (needles hay : CondExpr)            -- `all(n in hay for n in needles)`
  | isinstance (a c : CondExpr)
  | hasDataclassFields (a : CondExpr)         -- `hasattr(a, _FIELDS)`
  | reSearch (p t : CondExpr)                 -- `re.search(p, t)`
  | output (s : Side)                         -- `self.get_output(X)`
  | opaque (src : String)                     -- anything the translator does not understand
  deriving Repr, Inhabited

/-- Everything a condition can look at.  `search`, `strOf`, `output` are parameters: CPython's `re`,
    `str()` and the sandbox's captured output are not modelled, the theorems hold for all of them. -/
structure Ctx where
  left : V
  right : V
  exact : PyVal := .bool false
  delta : PyVal := .none
  search : List Nat → List Nat → Res Bool := fun _ _ => .error .raised
  strOf : PyVal → List Nat := fun _ => []
  output : Side → Res (List Nat) := fun _ => .error .raised

def Ctx.side (c : Ctx) : Side → V
  | .left => c.left
  | .right => c.right

/-- `InterpolatedValue.is_error`: the operand is an exception instance (a `Sandbox` that ended in an
    exception has already been replaced by that exception). -/
def isErr (x : V) : Bool :=
  match x.v with
  | .exc _ => true
  | _ => false

/-- `a is b` on what a condition holds in its hands. -/
def pyIs (a b : V) : Bool :=
  if a.px || b.px then a.px && b.px && a.poid != 0 && a.poid == b.poid
  else match a.v, b.v with
    | .none, .none => true
    | .bool x, .bool y => x == y
    | .typ s, .typ t => s == t
    | .none, _ => false
    | _, .none => false
    | .bool _, _ => false
    | _, .bool _ => false
    | .typ _, _ => false
    | _, .typ _ => false
    | _, _ => a.oid != 0 && a.oid == b.oid

/-- `needle in hay` as evaluated by the condition: `str.__contains__` rejects a proxied needle. -/
def vIn (needle hay : V) : Res Bool :=
  match hay.v with
  | .str _ => if needle.px then .error .raised else pyIn needle.v hay.v
  | _ => pyIn needle.v hay.v

/-- `str(x)` as a list of code points: a `str` is itself, anything else goes through the abstract `strOf`. -/
def strOfV (c : Ctx) (x : V) : List Nat :=
  match x.v with
  | .str s => s
  | v => c.strOf v

def deltaOf : PyVal → Res (Option (Int × Nat))
  | .none => .ok none
  | .flt m k => .ok (some (m, k))
  | .int i => .ok (some (i, 0))
  | _ => .error .unmodelled

def evalCmp (op : CmpOp) (a b : V) : Res V :=
  match op with
  | .lt => (pyCmp a.v b.v).map fun o => V.ofBool (ord4Test "lt" o)
  | .le => (pyCmp a.v b.v).map fun o => V.ofBool (ord4Test "le" o)
  | .gt => (pyCmp a.v b.v).map fun o => V.ofBool (ord4Test "gt" o)
  | .ge => (pyCmp a.v b.v).map fun o => V.ofBool (ord4Test "ge" o)
  | .eq => .ok (V.ofBool (pyEq a.v b.v))
  | .ne => .ok (V.ofBool (!pyEq a.v b.v))
  | .in_ => (vIn a b).map V.ofBool
  | .notIn => (vIn a b).map fun r => V.ofBool (!r)
  | .is_ => .ok (V.ofBool (pyIs a b))
  | .isNot => .ok (V.ofBool (!pyIs a b))

def eval (c : Ctx) : CondExpr → Res V
  | .value s => .ok (c.side s)
  | .isSandboxed s => .ok (V.ofBool (c.side s).px)
  | .param n =>
    if n == "exact_strings" then .ok (V.fresh c.exact)
    else if n == "delta" then .ok (V.fresh c.delta)
    else .error .unmodelled
  | .noneLit => .ok (V.fresh .none)
  | .boolLit b => .ok (V.ofBool b)
  | .tyLit t => .ok (V.fresh (.typ t))
  | .tuple2 a b =>
    match eval c a, eval c b with
    | .ok x, .ok y => .ok (V.fresh (.tuple [x.v, y.v]))
    | .error e, _ => .error e
    | _, .error e => .error e
  | .actualValue e =>
    match eval c e with
    | .ok x => if x.px then .ok x.unwrapped else .error .raised
    | .error e => .error e
  | .unwrap e =>
    match eval c e with
    | .ok x => .ok x.unwrapped
    | .error e => .error e
  | .cmp op a b =>
    match eval c a with
    | .error e => .error e
    | .ok x =>
      match eval c b with
      | .error e => .error e
      | .ok y => evalCmp op x y
  | .not_ a =>
    match eval c a with
    | .ok x => .ok (V.ofBool (!truthy x.v))
    | .error e => .error e
  | .or_ a b =>
    match eval c a with
    | .error e => .error e
    | .ok x => if truthy x.v then .ok x else eval c b
  | .and_ a b =>
    match eval c a with
    | .error e => .error e
    | .ok x => if truthy x.v then eval c b else .ok x
  | .ite t a b =>
    match eval c t with
    | .error e => .error e
    | .ok x => if truthy x.v then eval c a else eval c b
  | .len a =>
    match eval c a with
    | .error e => .error e
    | .ok x => (pyLen x.v).map fun n => V.fresh (.int n)
  | .bool_ a =>
    match eval c a with
    | .error e => .error e
    | .ok x => .ok (V.ofBool (truthy x.v))
  | .str_ a =>
    match eval c a with
    | .error e => .error e
    | .ok x => .ok (V.fresh (.str (strOfV c x)))
  | .lower a =>
    match eval c a with
    | .error e => .error e
    | .ok x =>
      match x.v with
      | .str s => if isAscii s then .ok (V.fresh (.str (s.map lowerC))) else .error .unmodelled
      | _ => .error .raised
  | .errors1 s => .ok (V.ofBool (isErr (c.side s)))
  | .errors2 => .ok (V.ofBool (isErr c.left || isErr c.right))
  | .equalityTest a b ex d =>
    match eval c a, eval c b, eval c ex, eval c d with
    | .ok x, .ok y, .ok e, .ok dd =>
      match deltaOf dd.v with
      | .error er => .error er
      | .ok dv => (eqTest (truthy e.v) dv x.v y.v).map V.ofBool
    | .error e, _, _, _ => .error e
    | _, .error e, _, _ => .error e
    | _, _, .error e, _ => .error e
    | _, _, _, .error e => .error e
  | .allIn ns h =>
    match eval c ns, eval c h with
    | .ok x, .ok y => (pyAllIn x.v y.v).map V.ofBool
    | .error e, _ => .error e
    | _, .error e => .error e
  | .isinstance a k =>
    match eval c a, eval c k with
    | .ok x, .ok y => (pyIsInstance x.v y.v).map V.ofBool
    | .error e, _ => .error e
    | _, .error e => .error e
  | .hasDataclassFields a =>
    match eval c a with
    | .error e => .error e
    | .ok _ => .ok (V.ofBool false)          -- nothing in the universe is a dataclass instance
  | .reSearch p t =>
    match eval c p, eval c t with
    | .ok x, .ok y =>
      if x.px then .error .raised               -- `re.search` rejects a proxied pattern
      else match x.v, y.v with
        | .str ps, .str ts =>
          if y.px then .error .raised
          else (c.search ps ts).map fun m => if m then V.fresh (.obj 1) else V.fresh .none
        | _, _ => .error .raised
    | .error e, _ => .error e
    | _, .error e => .error e
  | .output s => (c.output s).map fun o => V.fresh (.str o)
  | .opaque _ => .error .unmodelled

/-! ## The guard around the condition -/

inductive Outcome
  | silent       -- the assertion passed: nothing is reported, `bool(assertion)` is False
  | fires        -- failing feedback is added to the report
  | unmodelled
  deriving DecidableEq, Repr, Inhabited

/-- How `RuntimeAssertionFeedback.__init__` treats (a) an operand that is an error and (b) a condition
    that raises.  Both flags are *measured* on the tree under test by the translator. -/
structure Guard where
  errorOperandFires : Bool
  raisingConditionFires : Bool
  deriving DecidableEq, Repr, Inhabited

def outcome (g : Guard) (cond : CondExpr) (c : Ctx) : Outcome :=
  if g.errorOperandFires && (isErr c.left || isErr c.right) then .fires
  else match eval c cond with
    | .ok x => if truthy x.v then .fires else .silent
    | .error .unmodelled => .unmodelled
    | .error .raised => if g.raisingConditionFires then .fires else .silent

/-! ## assert_group / unit_test -/

structure Group where
  successes : Nat := 0
  failures : Nat := 0
  total : Nat := 0
  deriving DecidableEq, Repr, Inhabited

/-- `assert_group._get_child_feedback` for a child runtime assertion. -/
def Group.add (g : Group) : Outcome → Group
  | .silent => { g with successes := g.successes + 1, total := g.total + 1 }
  | _ => { g with failures := g.failures + 1, total := g.total + 1 }

def Group.run (outs : List Outcome) : Group := outs.foldl Group.add {}

/-- `assert_group.condition` (errors or failures) negated by `unit_test`'s `return not group_result`. -/
def Group.passed (g : Group) : Bool := g.failures == 0

/-- `unit_test(f, *cases)`: one `assert_equal(call(f, *args), expected)` per case inside a group;
    returns (success?, fields['success_count'], fields['total_count']). -/
def unitTest (g : Guard) (cond : CondExpr) (cases : List Ctx) : Bool × Nat × Nat :=
  let grp := Group.run (cases.map (outcome g cond))
  (grp.passed, grp.successes, grp.total)

end Pedal.Assertions

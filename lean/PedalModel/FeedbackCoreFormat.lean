import PedalModel.FeedbackCoreStore
import PedalModel.Gen.FeedbackCoreTables
/-
Field wrapping and format-spec dispatch: pedal/core/formatting.py
  chomp_spec, FeedbackFieldWrapper.__format__ (dispatch over `Formatter.available`), wrap_fields,
and `template.format(**fields)` over a template already split into segments by CPython's own
`string.Formatter().parse` (the template grammar is CPython's, a parameter of the model).

What a formatter method returns, and what `str.__format__` does with the remaining spec, are
CPython / formatter-subclass behaviour: they enter through an `Oracle` the theorems quantify over.
The driver instantiates it with a table the harness fills by calling the real primitives.
-/
namespace Pedal.FeedbackCore

/-- A field value: an opaque reference into the harness's value table. -/
abbrev FVal := String

/-- `spec.endswith(word)` -/
def endsWith (spec word : String) : Bool := word.toList.isSuffixOf spec.toList

/-- `chomp_spec(format_spec, word)` for a `word` that `format_spec` ends with. -/
def chompL (spec word : List Char) : List Char :=
  let body := spec.take (spec.length - word.length)
  if body.getLast? = some ':' then body.dropLast else body

def chomp (spec word : String) : String := String.ofList (chompL spec.toList word.toList)

/-- The `for formatter_name in self.formatter.available: if format_spec.endswith(...)` loop. -/
def dispatch (avail : List String) (spec : String) : Option (String × String) :=
  (avail.find? (fun n => endsWith spec n)).map fun n => (n, chomp spec n)

/-- A call into CPython / the formatter object:
    `fmt F n v acc rest` = `getattr(F, n)(<v>acc).__format__(rest)`, `F` naming the report's current formatter object
    `plain v acc spec`  = `str(<v>acc).__format__(spec)`
    `conv c v acc spec` = `format(repr/str/ascii(<v>acc), spec)` (a `!r`/`!s`/`!a` conversion: no dispatch). -/
inductive PrimCall where
  | fmt (formatter name : String) (v : FVal) (accessor rest : String)
  | plain (v : FVal) (accessor spec : String)
  | conv (c : String) (v : FVal) (accessor spec : String)
  deriving DecidableEq, Repr, BEq

abbrev Oracle := PrimCall → Except Exc String

/-- Which primitive call `FeedbackFieldWrapper.__format__` (or the conversion path of `str.format`)
    makes for one replacement field. -/
def primOf (F : String) (avail : List String) (v : FVal) (accessor conv spec : String) : PrimCall :=
  if conv ≠ "" then .conv conv v accessor spec
  else match dispatch avail spec with
    | some (n, rest) => .fmt F n v accessor rest
    | none => .plain v accessor spec

def renderField (O : Oracle) (F : String) (avail : List String) (v : FVal) (accessor conv spec : String) :
    Except Exc String :=
  O (primOf F avail v accessor conv spec)

/-- `template.format(**wrap_fields(formatter, fields))`, left to right; a missing name is a KeyError. -/
def render (O : Oracle) (F : String) (avail : List String) (fields : List (String × FVal)) :
    Template → Except Exc String
  | [] => .ok ""
  | .lit s :: rest =>
    match render O F avail fields rest with
    | .ok r => .ok (s ++ r)
    | .error e => .error e
  | .field name accessor conv spec :: rest =>
    match fields.lookup name with
    | none => .error ⟨"KeyError"⟩
    | some v =>
      match renderField O F avail v accessor conv spec with
      | .error e => .error e
      | .ok x =>
        match render O F avail fields rest with
        | .ok r => .ok (x ++ r)
        | .error e => .error e

end Pedal.FeedbackCore

import PedalModel.Wire
import PedalModel.SandboxExecTypes
import PedalModel.Gen.SandboxExecGen
/-
Executable model of how the sandbox runs one piece of student code (C04 / C05):

  pedal/sandbox/sandbox.py   Sandbox._execute  (handler ladder, generated from its AST),
                             _start_mocking / _stop_mocking / _start_patches / _stop_patches (probed),
                             _capture_exception, run / call / evaluate / _handle_result
  pedal/sandbox/feedbacks.py runtime_error, EXCEPTION_FF_MAP (generated)
  pedal/utilities/exceptions.py improve_builtin_exceptions, ExpandedTraceback.line_number (probed strategy)
  pedal/sandbox/tracer.py    tracer context managers (probed per style)

The model is split in two layers so that "for every termination" becomes a finite check plus a
general lemma:

* `plan` - CONTROL.  Which primitive steps `_execute` performs and whether it returns or propagates
  depends on the termination only through a finite signature `Sig` (normal / raised / compile failure,
  is-Exception, is-SystemExit, does recording it fail, injected fault) and on the two stack depths.
* `applyPrims` - DATA.  The emitted primitive steps are folded over the state (patch stack with saved
  originals, stdout stack, borrowed globals as identities, exception slot, runtime feedback list).

`execute` is their composition; the driver (lean/Drivers/C04.lean) evaluates exactly these functions.
The threaded path (`_execute_with_timeout`) belongs to C14 and is not modelled.
Core Lean only.
-/
namespace Pedal.SandboxExec
open Pedal.Gen.SandboxExec

/-! ## Exceptions and terminations -/

inductive FileKind where
  | student | instructor | pedal | library
  deriving DecidableEq, Repr

/-- One traceback frame below `Sandbox._execute`. -/
structure Frame where
  kind : FileKind
  line : Nat
  deriving DecidableEq, Repr

/-- Everything pedal's code discriminates on in an exception raised by student code. -/
structure ExcDesc where
  cls : String               -- `type(e).__name__`
  isException : Bool         -- `isinstance(e, Exception)`
  isSystemExit : Bool        -- `isinstance(e, SystemExit)`
  isKeyError : Bool          -- `type(e) is builtins.KeyError` (replaced by pedal's KeyError)
  hazards : List Hazard      -- how the object misbehaves when pedal touches it
  synLine : Option Nat       -- `e.lineno` of a SyntaxError naming the executed file or a student file
  frames : List Frame        -- traceback below `_execute`, outermost first
  deriving DecidableEq, Repr

/-- How one execution of student code ends. -/
inductive Termination where
  | normal
  | raised (e : ExcDesc)          -- `exec` raised `e`
  | compileFailed (e : ExcDesc)   -- `compile` raised `e` (SyntaxError family, ValueError for NUL bytes …)
  deriving DecidableEq, Repr

def Termination.exc? : Termination → Option ExcDesc
  | .normal => none
  | .raised e => some e
  | .compileFailed e => some e

/-! ## Control layer -/

inductive Kind where
  | normal | raised | compileFailed
  deriving DecidableEq, Repr

/-- The finite signature of (termination, fault) that control flow can depend on. -/
structure Sig where
  kind : Kind
  isException : Bool
  isSystemExit : Bool
  captureFails : Bool      -- recording THE STUDENT's exception raises inside pedal
  injected : Bool          -- recording any exception raises inside pedal (fault injection)
  deriving DecidableEq, Repr

/-- Whose exception is in flight: the student's, or one raised by pedal's own bookkeeping
    (always an ordinary `Exception`: IndexError from an empty stack, TypeError, ValueError …). -/
inductive Who where
  | student | internal
  deriving DecidableEq, Repr

/-- Primitive steps with an effect on the modelled state. -/
inductive Prim where
  | clearException
  | pushContext
  | bumpContextId
  | pushStdout
  | popStdout
  | startPatches
  | stopPatches
  | exec (traced : Bool)
  | captureOk (w : Who)      -- `_capture_exception` ran to completion
  | captureFail (w : Who)    -- `_capture_exception` set `self.exception`, then raised
  | touchBuiltins            -- the process-wide builtins were written (only when `builtinsPrivate` is false)
  | hitEmpty                 -- marker without effect: `_stop_patches()` / `_current_stdout.pop()` found its stack EMPTY
  | unknown
  deriving DecidableEq, Repr

/-- Effect of a primitive step on the depth of `_current_patches` (`_stop_patches` on an empty stack is a no-op). -/
def depthP : Prim → Nat → Nat
  | .startPatches, n => n + 1
  | .stopPatches, n => n - 1
  | _, n => n

/-- Effect of a primitive step on the depth of `_current_stdout`. -/
def depthO : Prim → Nat → Nat
  | .pushStdout, n => n + 1
  | .popStdout, n => n - 1
  | _, n => n

/-- Stack depths at entry of `_execute`. -/
structure Base where
  p0 : Nat
  o0 : Nat
  deriving DecidableEq, Repr

/-- Control state: the primitive steps emitted so far (the current depths follow from them). -/
abbrev Ctl := List Prim

/-- Current depth of `_current_patches`. -/
def depthPs (b : Base) (c : Ctl) : Nat := c.foldl (fun n q => depthP q n) b.p0
/-- Current depth of `_current_stdout`. -/
def depthOs (b : Base) (c : Ctl) : Nat := c.foldl (fun n q => depthO q n) b.o0

def emit (c : Ctl) (q : Prim) : Ctl := c ++ [q]

/-- One primitive step.  Popping a stack that is empty either raises (an internal exception) or does nothing, as
    probed; both leave the marker `.hitEmpty` in the control state: a ladder that ever does this pops what it did
    not push, which is only harmless when no other execution is in progress on the sandbox. -/
def stepPrim (m : MockProbe) (b : Base) (c : Ctl) : Prim → Ctl × Option Who
  | .popStdout =>
    if depthOs b c = 0 then
      (if m.popStdoutEmptyRaises = true then (emit c .hitEmpty, some .internal)
       else (emit (emit c .hitEmpty) .popStdout, none))
    else (emit c .popStdout, none)
  | .stopPatches =>
    if depthPs b c = 0 then
      (if m.stopPatchesEmptyRaises = true then (emit c .hitEmpty, some .internal)
       else (emit (emit c .hitEmpty) .stopPatches, none))
    else (emit c .stopPatches, none)
  | q => (emit c q, none)

def stepPrims (m : MockProbe) (b : Base) (c : Ctl) : List Prim → Ctl × Option Who
  | [] => (c, none)
  | q :: qs =>
    match stepPrim m b c q with
    | (c', none) => stepPrims m b c' qs
    | r => r

/-- `_start_mocking`, as probed. -/
def startOps (m : MockProbe) : List Prim :=
  List.replicate m.startPushesStdout .pushStdout ++ List.replicate m.startPushesPatches .startPatches
    ++ (if m.builtinsPrivate then [] else [.touchBuiltins])

/-- `_stop_mocking`, as probed (patches first, then the capture buffer). -/
def stopOps (m : MockProbe) : List Prim :=
  List.replicate m.stopPopsPatches .stopPatches ++ List.replicate m.stopPopsStdout .popStdout

/-- CPython's `except <class>` test. -/
def catches (sig : Sig) : Catch → Who → Bool
  | .exception, .student => sig.isException
  | .exception, .internal => true
  | .systemExit, .student => sig.isSystemExit
  | .systemExit, .internal => false
  | .baseException, _ => true
  | .unknown, _ => false

def captureFailsFor (sig : Sig) : Who → Bool
  | .student => sig.captureFails || sig.injected
  | .internal => sig.injected

/-- One statement; `cur` is the exception bound by the enclosing `except` clause. -/
def stepAct (m : MockProbe) (b : Base) (sig : Sig) (cur : Option Who) (c : Ctl) : Act → Ctl × Option Who
  | .pure => (c, none)
  | .clearException => (emit c .clearException, none)
  | .pushContext => (emit c .pushContext, none)
  | .bumpContextId => (emit c .bumpContextId, none)
  | .startMocking => stepPrims m b c (startOps m)
  | .stopMocking => stepPrims m b c (stopOps m)
  | .stopPatches => stepPrim m b c .stopPatches
  | .compile => if sig.kind = .compileFailed then (c, some .student) else (c, none)
  | .exec => if sig.kind = .raised then (emit c (.exec false), some .student) else (emit c (.exec false), none)
  | .tracedExec => if sig.kind = .raised then (emit c (.exec true), some .student) else (emit c (.exec true), none)
  | .capture =>
    match cur with
    | none => (emit c .unknown, some .internal)
    | some w => if captureFailsFor sig w then (emit c (.captureFail w), some .internal)
                else (emit c (.captureOk w), none)
  | .reraise =>
    match cur with
    | some w => (c, some w)
    | none => (c, some .internal)
  | .unknown => (emit c .unknown, none)

def stepActs (m : MockProbe) (b : Base) (sig : Sig) (cur : Option Who) (c : Ctl) : List Act → Ctl × Option Who
  | [] => (c, none)
  | a :: as =>
    match stepAct m b sig cur c a with
    | (c', none) => stepActs m b sig cur c' as
    | r => r

/-- CPython's `try / except / else / finally`. -/
def planTry (m : MockProbe) (b : Base) (sig : Sig) (d : ExecuteDef) (c : Ctl) : Ctl × Option Who :=
  let r1 := stepActs m b sig none c d.body
  let r2 : Ctl × Option Who :=
    match r1.2 with
    | none => stepActs m b sig none r1.1 d.orelse
    | some w =>
      match d.handlers.find? (fun h => catches sig h.catches w) with
      | none => (r1.1, some w)
      | some h => stepActs m b sig (some w) r1.1 h.body
  let r3 := stepActs m b sig none r2.1 d.final
  match r3.2 with
  | some w => (r3.1, some w)
  | none => (r3.1, r2.2)

inductive Outcome where
  | returned
  | propagated (w : Who)
  deriving DecidableEq, Repr

/-- The whole of `_execute`: the primitive steps it performs and how it ends. -/
def plan (m : MockProbe) (b : Base) (sig : Sig) (d : ExecuteDef) : Ctl × Outcome :=
  match stepActs m b sig none [] d.pre with
  | (c1, some w) => (c1, .propagated w)
  | (c1, none) =>
    match planTry m b sig d c1 with
    | (c2, some w) => (c2, .propagated w)
    | (c2, none) =>
      match stepActs m b sig none c2 d.post with
      | (c3, some w) => (c3, .propagated w)
      | (c3, none) => (c3, .returned)

/-! ## Data layer -/

/-- Process-wide state pedal borrows, as identities (`is`), `modules`/`builtins` as content snapshots. -/
structure Globals where
  stdout : Nat
  sleep : Nat
  modules : Nat
  trace : Nat
  builtins : Nat
  deriving DecidableEq, Repr

/-- One entry of `_current_patches`: the originals saved by `patch.start()` (none = target not patched). -/
structure PatchFrame where
  stdout : Option Nat
  sleep : Option Nat
  modules : Option Nat
  deriving DecidableEq, Repr

def PatchFrame.restore (f : PatchFrame) (g : Globals) : Globals :=
  { g with stdout := f.stdout.getD g.stdout, sleep := f.sleep.getD g.sleep, modules := f.modules.getD g.modules }

/-- A runtime-category feedback as far as C04 observes it. -/
structure Fb where
  label : String
  excName : String
  line : Option Nat        -- `none`: located on a frame that is neither student nor instructor code
  deriving DecidableEq, Repr

structure St where
  g : Globals
  patches : List PatchFrame
  stdouts : List Nat
  fresh : Nat                  -- next unused identity
  exception : Option String    -- class name of `sandbox.exception`
  feedbacks : List Fb          -- runtime feedbacks attached to the report, oldest first
  ctxId : Nat
  contexts : Nat
  deriving DecidableEq, Repr

def St.init : St :=
  { g := { stdout := 0, sleep := 1, modules := 2, trace := 3, builtins := 4 }, patches := [], stdouts := [],
    fresh := 5, exception := none, feedbacks := [], ctxId := 0, contexts := 0 }

/-- Both stacks empty: later executions capture output normally. -/
def St.Inv (s : St) : Prop := s.patches = [] ∧ s.stdouts = []

instance (s : St) : Decidable s.Inv := by unfold St.Inv; infer_instance

def lastLine (k : FileKind) (frames : List Frame) : Option Nat :=
  (frames.reverse.find? (fun f => f.kind = k)).map (·.line)

/-- `ExpandedTraceback.line_number` (before the section offset, which C17 covers). -/
def chooseLine (strategy : LineStrategy) (e : ExcDesc) : Option Nat :=
  match strategy with
  | .lastAny =>
    match e.frames.getLast? with
    | some f => if f.kind = .student ∨ f.kind = .instructor then some f.line else none
    | none => none
  | .studentFirst =>
    match lastLine .student e.frames with
    | some l => some l
    | none =>
      match e.synLine with
      | some l => some l
      | none => lastLine .instructor e.frames
  | .unknown => none

/-- `improve_builtin_exceptions`: an exception whose class is exactly builtin KeyError becomes pedal's KeyError
    (a student class derived from KeyError is reported as itself). -/
def reportedCls (e : ExcDesc) : String := if e.isKeyError then "KeyError" else e.cls

/-- `EXCEPTION_FF_MAP.get(type(self.exception), runtime_error)` - exact class, by name. -/
def mapLabel (cls : String) : String := (ffMap.lookup cls).getD genericLabel

/-- What the data layer needs to know about one execution. -/
structure Env where
  probe : MockProbe
  strategy : LineStrategy
  style : TraceStyle
  nested : Bool              -- the executed code imports another student file (`Sandbox._import` re-enters the tracer)
  exc : Option ExcDesc

def internalCls : String := "<internal>"

def Env.reported (env : Env) : Who → String
  | .student => match env.exc with
    | some e => reportedCls e
    | none => internalCls
  | .internal => internalCls

def Env.mkFb (env : Env) : Who → Fb
  | .student => match env.exc with
    | some e => { label := mapLabel (reportedCls e), excName := reportedCls e, line := chooseLine env.strategy e }
    | none => { label := genericLabel, excName := internalCls, line := none }
  | .internal => { label := genericLabel, excName := internalCls, line := none }

def applyPrim (env : Env) (s : St) : Prim → St
  | .clearException => { s with exception := none }
  | .pushContext => { s with contexts := s.contexts + 1 }
  | .bumpContextId => { s with ctxId := s.ctxId + 1 }
  | .pushStdout => { s with stdouts := s.fresh :: s.stdouts, fresh := s.fresh + 1 }
  | .popStdout => { s with stdouts := s.stdouts.tail }
  | .startPatches =>
    let m := env.probe
    { s with
      patches := { stdout := if m.patchesStdout then some s.g.stdout else none,
                   sleep := if m.patchesSleep then some s.g.sleep else none,
                   modules := if m.patchesModules then some s.g.modules else none } :: s.patches,
      g := { s.g with stdout := if m.patchesStdout then s.fresh else s.g.stdout,
                      sleep := if m.patchesSleep then s.fresh + 1 else s.g.sleep,
                      modules := if m.patchesModules then s.fresh + 2 else s.g.modules },
      fresh := s.fresh + 3 }
  | .stopPatches =>
    match s.patches with
    | [] => s
    | f :: ps => { s with patches := ps, g := if env.probe.stopRestores then f.restore s.g else s.g }
  | .exec traced =>
    if traced && env.style.leaks env.nested then
      { s with g := { s.g with trace := s.fresh }, fresh := s.fresh + 1 }
    else s
  | .captureOk w => { s with exception := some (env.reported w), feedbacks := s.feedbacks ++ [env.mkFb w] }
  | .captureFail w => { s with exception := some (env.reported w) }
  | .touchBuiltins => { s with g := { s.g with builtins := s.fresh }, fresh := s.fresh + 1 }
  | .hitEmpty => s
  | .unknown => s

def applyPrims (env : Env) (s : St) (qs : List Prim) : St := qs.foldl (applyPrim env) s

/-! ## One execution -/

/-- The configuration read from the tree under test. -/
structure Cfg where
  exec : ExecuteDef
  imp : ImportDef
  probe : MockProbe
  unguarded : List Hazard
  strategy : LineStrategy

def genCfg : Cfg :=
  { exec := executeDef, imp := importDef, probe := mockProbe, unguarded := unguarded, strategy := lineStrategy }

def hazardous (unguarded : List Hazard) (e : ExcDesc) : Bool := e.hazards.any (fun h => unguarded.contains h)

def sigOf (cfg : Cfg) (t : Termination) (inject : Bool) : Sig :=
  match t with
  | .normal => { kind := .normal, isException := false, isSystemExit := false, captureFails := false, injected := inject }
  | .raised e => { kind := .raised, isException := e.isException, isSystemExit := e.isSystemExit,
                   captureFails := hazardous cfg.unguarded e, injected := inject }
  | .compileFailed e => { kind := .compileFailed, isException := e.isException, isSystemExit := e.isSystemExit,
                          captureFails := hazardous cfg.unguarded e, injected := inject }

def baseOf (s : St) : Base := { p0 := s.patches.length, o0 := s.stdouts.length }

def envOf (cfg : Cfg) (style : TraceStyle) (nested : Bool) (t : Termination) : Env :=
  { probe := cfg.probe, strategy := cfg.strategy, style := style, nested := nested && cfg.imp.reentersTracer,
    exc := t.exc? }

/-- `Sandbox._execute(code, filename, kind, threaded=False)`.
    `nested`: the code imports another student file while it runs (`_restricted_import` → `Sandbox._import`).
    `_import` is read from its AST into `cfg.imp`; as long as it is `transparent` (no handlers, no mocking calls -
    checked by `c04_import_transparent` / `c05_import_transparent`) a failure inside the imported file is simply a
    frame deeper in `t`'s traceback, and the only effect of the nesting is that the tracer's `with` is entered a
    second time on the same tracer object. -/
def execute (cfg : Cfg) (style : TraceStyle) (nested : Bool) (s : St) (t : Termination) (inject : Bool) :
    St × Outcome :=
  let r := plan cfg.probe (baseOf s) (sigOf cfg t inject) cfg.exec
  (applyPrims (envOf cfg style nested t) s r.1, r.2)

/-! ## Entry points and histories -/

inductive Entry where
  | run
  | call (fnExists : Bool)     -- `call(name)`: the pre-check of the function table
  | evaluate
  deriving DecidableEq, Repr

/-- What the instructor script gets back. -/
inductive Ret where
  | sandbox          -- `run` returns the sandbox
  | value            -- `call`/`evaluate` return the (proxied) result
  | exceptionValue   -- `call`/`evaluate` return the (proxied) exception
  | none             -- the call did not return
  deriving DecidableEq, Repr

structure Op where
  entry : Entry
  style : TraceStyle
  nested : Bool                -- the executed code imports another student file
  inject : Bool
  term : Termination
  deriving DecidableEq, Repr

def Op.executes (op : Op) : Bool :=
  match op.entry with
  | .call false => false
  | _ => true

def noFunctionCls : String := "SandboxHasNoVariable"

/-- `_handle_result`. -/
def handleResult (s : St) : Ret := if s.exception.isSome then .exceptionValue else .value

def stepOp (cfg : Cfg) (s : St) (op : Op) : St × Outcome × Ret :=
  match op.entry with
  | .call false => ({ s with exception := some noFunctionCls }, .returned, .exceptionValue)
  | .run =>
    let r := execute cfg op.style op.nested s op.term op.inject
    (r.1, r.2, if r.2 = .returned then .sandbox else .none)
  | _ =>
    let r := execute cfg op.style op.nested s op.term op.inject
    (r.1, r.2, if r.2 = .returned then handleResult r.1 else .none)

def runOps (cfg : Cfg) (s : St) : List Op → St
  | [] => s
  | op :: ops => runOps cfg (stepOp cfg s op).1 ops

/-! ## Executions nested in one another

`_current_patches` / `_current_stdout` are stacks because an execution can be started on a sandbox while another
one is in progress on it: the running student code calls `input()` and the instructor's input callable runs
`sandbox.evaluate(...)`, or it calls a function the instructor mocked in that runs `sandbox.call(...)`.
The nested executions happen while the outer execution's `exec` step is in progress. -/

/-- Data layer of an execution whose running code starts other executions: `inner` is what those do to the
    sandbox, applied when the `exec` step is reached (a compile failure never reaches it). -/
def applyPrimN (env : Env) (inner : St → St) (s : St) : Prim → St
  | .exec traced => applyPrim env (inner s) (.exec traced)
  | q => applyPrim env s q

def applyPrimsN (env : Env) (inner : St → St) (s : St) (qs : List Prim) : St := qs.foldl (applyPrimN env inner) s

/-- `Sandbox._execute` started in ANY state of the stacks (`baseOf s`), with nested executions `inner`. -/
def executeN (cfg : Cfg) (style : TraceStyle) (nested : Bool) (s : St) (t : Termination) (inject : Bool)
    (inner : St → St) : St × Outcome :=
  let r := plan cfg.probe (baseOf s) (sigOf cfg t inject) cfg.exec
  (applyPrimsN (envOf cfg style nested t) inner s r.1, r.2)

def stepOpN (cfg : Cfg) (s : St) (op : Op) (inner : St → St) : St × Outcome × Ret :=
  match op.entry with
  | .call false => ({ s with exception := some noFunctionCls }, .returned, .exceptionValue)
  | .run =>
    let r := executeN cfg op.style op.nested s op.term op.inject inner
    (r.1, r.2, if r.2 = .returned then .sandbox else .none)
  | _ =>
    let r := executeN cfg op.style op.nested s op.term op.inject inner
    (r.1, r.2, if r.2 = .returned then handleResult r.1 else .none)

/-- An execution together with the executions its running code starts on the same sandbox, in order. -/
inductive NOp where
  | mk (op : Op) (inner : List NOp)

mutual
/-- Run an execution and everything nested in it. -/
def runN (cfg : Cfg) : NOp → St → St
  | .mk op inner, s => (stepOpN cfg s op (runNs cfg inner)).1
/-- Run executions one after the other. -/
def runNs (cfg : Cfg) : List NOp → St → St
  | [], s => s
  | n :: ns, s => runNs cfg ns (runN cfg n s)
end

/-- A history of top-level executions, each with its nested ones. -/
def runHistN (cfg : Cfg) (s : St) (ns : List NOp) : St := runNs cfg ns s

/-! ## Wire format (driver) -/

namespace Wire
open Pedal.Wire

def decNat (tok : String) : Option Nat := tok.toNat?

def decHazard : String → Option Hazard
  | "str" => some .strRaises | "repr" => some .reprRaises | "attrR" => some .attrReadRaises
  | "attrW" => some .attrWriteRaises | "synNoLine" => some .synNoLine | "synNoSource" => some .synNoSource
  | "truth" => some .truthRaises | "attrM" => some .attrMissingRaises
  | _ => none

def decFileKind : String → Option FileKind
  | "S" => some .student | "I" => some .instructor | "P" => some .pedal | "L" => some .library
  | _ => none

def decFrame : List String → Option (Frame × List String)
  | k :: l :: ts => do
    let k ← decFileKind k
    let l ← decNat l
    pure ({ kind := k, line := l }, ts)
  | _ => none

def decHaz1 : List String → Option (Hazard × List String)
  | h :: ts => do pure (← decHazard h, ts)
  | _ => none

/-- `<cls> <isExc> <isSysExit> <isKeyErr> <nhaz> haz… <synLine|-> <nframes> (kind line)…` -/
def decExc : List String → Option (ExcDesc × List String)
  | cls :: ie :: ise :: ik :: nh :: ts => do
    let cls ← decStr cls
    let ie ← decBool ie
    let ise ← decBool ise
    let ik ← decBool ik
    let nh ← decNat nh
    let (hz, ts) ← takeN decHaz1 nh ts
    match ts with
    | sl :: nf :: ts =>
      let sl ← (if sl = "-" then some none else (decNat sl).map some)
      let nf ← decNat nf
      let (fr, ts) ← takeN decFrame nf ts
      pure ({ cls := cls, isException := ie, isSystemExit := ise, isKeyError := ik, hazards := hz,
              synLine := sl, frames := fr }, ts)
    | _ => none
  | _ => none

def decTerm : List String → Option (Termination × List String)
  | "N" :: ts => some (.normal, ts)
  | "R" :: ts => do let (e, ts) ← decExc ts; pure (.raised e, ts)
  | "C" :: ts => do let (e, ts) ← decExc ts; pure (.compileFailed e, ts)
  | _ => none

def decEntry : String → Option Entry
  | "run" => some .run | "call" => some (.call true) | "callmissing" => some (.call false)
  | "eval" => some .evaluate | _ => none

/-- `<entry> <style name> <nested> <inject> <term>`; the style must be one of the generated ones. -/
def decOp : List String → Option (Op × List String)
  | en :: st :: nest :: inj :: ts => do
    let en ← decEntry en
    let st ← decStr st
    let style ← traceStyles.find? (fun x => x.name = st)
    let nest ← decBool nest
    let inj ← decBool inj
    let (t, ts) ← decTerm ts
    pure ({ entry := en, style := style, nested := nest, inject := inj, term := t }, ts)
  | _ => none

def encOptNat : Option Nat → String
  | none => "?"
  | some n => toString n

def encFb (f : Fb) : String := s!"{encStr f.label},{encStr f.excName},{encOptNat f.line}"

def encOutcome : Outcome → String
  | .returned => "ret"
  | .propagated .student => "esc:student"
  | .propagated .internal => "esc:internal"

def encRet : Ret → String
  | .sandbox => "sandbox" | .value => "value" | .exceptionValue => "excval" | .none => "-"

/-- One observation: what happened, and what is left behind, relative to the state before the op. -/
def observe (before after : St) (out : Outcome) (ret : Ret) : String :=
  let newFbs := after.feedbacks.drop before.feedbacks.length
  let fbs := String.intercalate "|" (newFbs.map encFb)
  s!"{encOutcome out} rk={encRet ret} exc={encOptStr after.exception} nfb={newFbs.length} fb={fbs} " ++
  s!"stdout={encBool (after.g.stdout == before.g.stdout)} sleep={encBool (after.g.sleep == before.g.sleep)} " ++
  s!"mods={encBool (after.g.modules == before.g.modules)} trace={encBool (after.g.trace == before.g.trace)} " ++
  s!"bi={encBool (after.g.builtins == before.g.builtins)} dp={after.patches.length} do={after.stdouts.length}"

def runObserved (cfg : Cfg) : St → List Op → List String
  | _, [] => []
  | s, op :: ops =>
    let r := stepOp cfg s op
    observe s r.1 r.2.1 r.2.2 :: runObserved cfg r.1 ops

/-- `hist <n> op…` → observations joined by ` ; `. -/
def handleHist (ts : List String) : String :=
  match ts with
  | n :: ts =>
    match decNat n with
    | none => "bad-request"
    | some n =>
      match takeN decOp n ts with
      | some (ops, []) => String.intercalate " ; " (runObserved genCfg St.init ops)
      | _ => "bad-request"
  | _ => "bad-request"

/-- The state in which the executions nested in `op` start: just before the outer `exec` step
    (`none`: the outer execution never reaches it). -/
def statePre (cfg : Cfg) (s : St) (op : Op) : Option St :=
  if op.executes then
    let r := plan cfg.probe (baseOf s) (sigOf cfg op.term op.inject) cfg.exec
    let isExec : Prim → Bool := fun q => match q with
      | .exec _ => true
      | _ => false
    if r.1.any isExec then
      some (applyPrims (envOf cfg op.style op.nested op.term) s (r.1.takeWhile (fun q => !isExec q)))
    else none
  else none

/-- Observation of a nested execution: like `observe`, the stack depths RELATIVE to those it started with. -/
def observeRel (before after : St) (out : Outcome) (ret : Ret) : String :=
  let newFbs := after.feedbacks.drop before.feedbacks.length
  let fbs := String.intercalate "|" (newFbs.map encFb)
  let dp : Int := (after.patches.length : Int) - before.patches.length
  let dO : Int := (after.stdouts.length : Int) - before.stdouts.length
  s!"{encOutcome out} rk={encRet ret} exc={encOptStr after.exception} nfb={newFbs.length} fb={fbs} " ++
  s!"stdout={encBool (after.g.stdout == before.g.stdout)} sleep={encBool (after.g.sleep == before.g.sleep)} " ++
  s!"mods={encBool (after.g.modules == before.g.modules)} trace={encBool (after.g.trace == before.g.trace)} " ++
  s!"bi={encBool (after.g.builtins == before.g.builtins)} dp={dp} do={dO}"

mutual
/-- Observations of an execution and of everything nested in it, pre-order (`top`: a top-level execution). -/
def observedN (cfg : Cfg) (top : Bool) : NOp → St → List String
  | .mk op inner, s =>
    let r := stepOpN cfg s op (runNs cfg inner)
    let own := if top then observe s r.1 r.2.1 r.2.2 else observeRel s r.1 r.2.1 r.2.2
    match statePre cfg s op with
    | some s0 => own :: observedNs cfg false inner s0
    | none => [own]
def observedNs (cfg : Cfg) (top : Bool) : List NOp → St → List String
  | [], _ => []
  | n :: ns, s => observedN cfg top n s ++ observedNs cfg top ns (runN cfg n s)
end

mutual
/-- `<op> <k> <nested op>*k` -/
def decNOp : Nat → List String → Option (NOp × List String)
  | 0, _ => none
  | fuel + 1, ts => do
    let (op, ts) ← decOp ts
    match ts with
    | k :: ts => do
      let k ← decNat k
      let (inner, ts) ← decNOps fuel k ts
      pure (.mk op inner, ts)
    | [] => none
def decNOps : Nat → Nat → List String → Option (List NOp × List String)
  | 0, _, _ => none
  | _ + 1, 0, ts => some ([], ts)
  | fuel + 1, k + 1, ts => do
    let (n, ts) ← decNOp fuel ts
    let (ns, ts) ← decNOps fuel k ts
    pure (n :: ns, ts)
end

/-- `nhist <n> nop…` → observations (pre-order) joined by ` ; `. -/
def handleNHist (ts : List String) : String :=
  match ts with
  | n :: ts =>
    match decNat n with
    | none => "bad-request"
    | some n =>
      match decNOps (ts.length + 2) n ts with
      | some (ns, []) => String.intercalate " ; " (observedNs genCfg true ns St.init)
      | _ => "bad-request"
  | _ => "bad-request"

end Wire

end Pedal.SandboxExec

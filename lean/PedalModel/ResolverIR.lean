import PedalModel.ResolverSpec
import PedalModel.Gen.MergeProgram
/-
The resolver model with `merge`'s tail and `finalize`'s branch conditions taken from the program that
`harness/translate_merge.py` regenerates from pedal/core/final_feedback.py on every run
(`Pedal.Gen.Merge.mergeTail`, `finalizeProgram`), interpreted by `Pedal.MergeIR.run`.

`resolveIR` is what the driver executes.  `PedalProofs/MergeIRLemmas.lean` proves, for the program as
generated from the current tree, `resolveIR = resolve` (the hand-written model the C01-C03 theorems are
stated about), so the theorems are theorems about the translated code.
-/
namespace Pedal.Resolver
open Pedal.Gen.Resolver Pedal.MergeIR

/-- `FinalFeedback.merge` with its tail run from the generated program; `none` = not understood. -/
def mergeIR (sups : List Sup) (st : Final) (f : Fb) : Option Final :=
  if suppressed sups f then some st else
  (run Gen.Merge.mergeTail (obsOf st f)).map fun effs => effs.foldl (applyEffect f) st

def hideCorrectnessKeys (keys : List String) (sups : List Sup) : Bool :=
  sups.any fun s => keys.any fun k => s.category == some k

def finObs (sups : List Sup) (st : Final) : FinObs :=
  { msgNone := st.message.isNone, hide := hideCorrectnessKeys Gen.Merge.finalizeProgram.hideKeys sups,
    usedEmpty := st.used.isNone, labelDefault := st.label == defaultLabel,
    catComplete := st.category == some completeCategory }

def finalizeIR (sups : List Sup) (st : Final) : Option Result :=
  let p := Gen.Merge.finalizeProgram
  let o := finObs sups st
  if !p.shapeOk then none else
  match p.defaultMsgCond.eval o, p.completeCond.eval o with
  | some dflt, some complete =>
    let title := if dflt then noFeedbackTitle else st.title.getD ""
    let message := if dflt then noFeedbackMessage else st.message.getD ""
    if complete then
      some { label := st.label, title := completeTitle, message := completeMessage, category := st.category,
             correct := true, score := some (.exact 100), used := st.used, positives := st.positives,
             isDefault := true }
    else
      some { label := st.label, title := title, message := message, category := st.category,
             correct := st.correct, score := combine st.scores, used := st.used, positives := st.positives,
             isDefault := false }
  | _, _ => none

def foldMergeIR (sups : List Sup) : List Fb → Final → Option Final
  | [], st => some st
  | f :: fs, st => match mergeIR sups st f with
    | some st' => foldMergeIR sups fs st'
    | none => none

/-- `pedal.resolvers.simple.resolve` over the translated `merge`/`finalize`. -/
def resolveIR (fs : List Fb) (rawSups : List Sup) : Except String Result :=
  let sups := rawSups.map Sup.norm
  if badScore sups fs then .error "ValueError" else
  match (foldMergeIR sups (ordered fs) {}).bind (finalizeIR sups) with
  | some r => .ok r
  | none => .error "unmodelled-merge"

/-- Request: `<nFb> <nSup> fb… sup…` (same as `handle`, through the translated program). -/
def handleIR (ts : List String) : String :=
  match ts with
  | nf :: ns :: ts =>
    match (do
      let nf ← nf.toNat?
      let ns ← ns.toNat?
      let (fs, ts) ← Pedal.Wire.takeN parseFb nf ts
      let (ss, ts) ← Pedal.Wire.takeN parseSup ns ts
      if ts.isEmpty then pure (fs, ss) else none) with
    | some (fs, ss) => encResult (resolveIR fs ss)
    | none => "bad-request"
  | _ => "bad-request"

end Pedal.Resolver

import PedalModel.Wire
/-
Executable model of TIFA's flow analysis (initialisation / unused variable) restricted to the
flow subset of property C09:

  pedal/tifa/tifa_core.py   store_variable, load_variable, find_variable_scope, find_variable_out_of_scope,
                            find_path_parent, search_parents, combine_states, match_rso, merge_paths,
                            _finish_scope
  pedal/tifa/contexts.py    NewPath
  pedal/tifa/tifa_visitor.py visit_Assign/AugAssign/Expr/Name, visit_If, visit_While, visit_For

Representation choices (each is what the code does when there is ONE scope, the module scope):

* `name_map[path]` is a `NameMap` (association list updated in place = an insertion-ordered dict).
* `path_chain` is the list `cur :: chain` of the name maps of the paths currently entered, innermost
  first; `NewPath.__enter__` always records `path_parents[new] = path_chain[0]`, so walking
  `path_parents` from a path on the chain (`find_path_parent`, `search_parents`) visits exactly the
  rest of the chain.  Finished sibling paths stay in `name_map` but are only ever consulted by
  `find_variable_out_of_scope`, which asks "does ANY path's map contain the name": `seen` is the
  list of names ever put into any map.
* A `State` is reduced to its `set` and `read` fields.  `over` / `over_position` / `type` / `trace`
  never feed back into `set`/`read` (both branches of `store_variable` leave `set='yes', read='no'`)
  and the labels they produce (overwritten variable, type changes) are not part of C09.
* `merge_paths` looks names up through `name_map[parent]` while writing into it; the entries written
  earlier in the same loop are for OTHER names (dict keys are distinct), so the lookups are done in the
  map as it was before the loop.
* `_finish_loop` only touches names in `loop_usages[this_path]`, which `visit_While`/`visit_For` reset
  just before the body and which only loads made directly on this path (an `else:` suite) refill; the
  subset has no loop-`else`, so it is the identity and is not modelled.

Core Lean only.
-/
namespace Pedal.TifaFlow

abbrev Var := Nat

/-- 'yes' / 'no' / 'maybe' of `State.read` and `State.set`. -/
inductive Tri where
  | yes | no | maybe
  deriving DecidableEq, Repr

structure VState where
  set : Tri
  read : Tri
  deriving DecidableEq, Repr

abbrev NameMap := List (Var × VState)

def get : NameMap → Var → Option VState
  | [], _ => none
  | (y, s) :: m, x => if y = x then some s else get m x

/-- `d[x] = s` on an insertion-ordered dict. -/
def put : NameMap → Var → VState → NameMap
  | [], x, s => [(x, s)]
  | (y, t) :: m, x, s => if y = x then (x, s) :: m else (y, t) :: put m x s

def keys (m : NameMap) : List Var := m.map Prod.fst

/-- `find_variable_scope` with one scope: first path on the chain (innermost first) that has the name.
    Also `find_path_parent` / `search_parents` (same walk along `path_parents`). -/
def findVar : List NameMap → Var → Option VState
  | [], _ => none
  | m :: ms, x =>
    match get m x with
    | some s => some s
    | none => findVar ms x

inductive Label where
  | initProblem        -- initialization_problem
  | possibleInit       -- possible_initialization_problem
  | readOutOfScope     -- read_out_of_scope
  | unused             -- unused_variable
  deriving DecidableEq, Repr

structure Issue where
  label : Label
  name : Var
  line : Nat
  deriving DecidableEq, Repr

/-- The flow subset.  A block is a "cons list with statement heads": every statement constructor
    carries the rest of its block, so induction over programs is plain structural induction.
    Expressions are reduced to the ordered list of the variables they read. -/
inductive Prog where
  | skip
  | assign (line : Nat) (x : Var) (reads : List Var) (rest : Prog)      -- x = e   /  x += e
  | expr (line : Nat) (reads : List Var) (rest : Prog)                  -- e  /  print(e)
  | ite (line : Nat) (reads : List Var) (thn els rest : Prog)           -- if e: thn else: els
  | while (line : Nat) (reads : List Var) (body rest : Prog)            -- while e: body
  | for (line : Nat) (target : Var) (reads : List Var) (body rest : Prog) -- for target in e: body
  deriving Repr

/-- The part of the TifaCore state the subset can change: the current path's map and the set of
    names present anywhere in `name_map`; plus the issues emitted so far (in emission order). -/
structure St where
  cur : NameMap
  seen : List Var
  issues : List Issue
  deriving Repr

/-- `load_variable(name)` at a node on `line`. -/
def load (chain : List NameMap) (line : Nat) (st : St) (x : Var) : St :=
  match findVar (st.cur :: chain) x with
  | none =>
    { cur := put st.cur x ⟨.no, .yes⟩
      seen := x :: st.seen
      issues := st.issues ++ [⟨if x ∈ st.seen then .readOutOfScope else .initProblem, x, line⟩] }
  | some v =>
    { cur := put st.cur x { v with read := .yes }
      seen := x :: st.seen
      issues := st.issues ++
        (match v.set with
         | .no => [⟨.initProblem, x, line⟩]
         | .maybe => [⟨.possibleInit, x, line⟩]
         | .yes => []) }

/-- Visiting an expression = loading its variables in order. -/
def loads (chain : List NameMap) (line : Nat) (st : St) (rs : List Var) : St :=
  rs.foldl (load chain line) st

/-- `store_variable(name, type)`: a new state `set='yes', read='no'` on the current path
    (whether or not the variable existed; the `over` bookkeeping is not modelled). -/
def store (st : St) (x : Var) : St :=
  { st with cur := put st.cur x ⟨.yes, .no⟩, seen := x :: st.seen }

/-- `store_read_variable` (loop targets): store, then `read = 'yes'`. -/
def storeRead (st : St) (x : Var) : St :=
  { st with cur := put st.cur x ⟨.yes, .yes⟩, seen := x :: st.seen }

def matchRso (a b : Tri) : Tri := if a = b then a else .maybe

/-- `combine_states(left, right)`; `right = None` is `none`. -/
def combine (l : VState) : Option VState → VState
  | none => ⟨if l.set = .no then .no else .maybe, if l.read = .no then .no else .maybe⟩
  | some r => ⟨matchRso l.set r.set, matchRso l.read r.read⟩

/-- What `merge_paths` writes into the parent map for name `x` (nothing when neither branch path
    has the name). -/
def mergeVal (parent left right : NameMap) (chain : List NameMap) (x : Var) : Option VState :=
  match get left x with
  | some ls => some (combine ls (findVar (right :: parent :: chain) x))
  | none =>
    match get right x with
    | some rs => some (combine rs (findVar (parent :: chain) x))
    | none => none

def writeAll (f : Var → Option VState) (ks : List Var) (p : NameMap) : NameMap :=
  ks.foldl (fun p x => match f x with | some v => put p x v | none => p) p

/-- `merge_paths(parent, left, right)`: names of the left path, then names only on the right path. -/
def mergePaths (parent left right : NameMap) (chain : List NameMap) : NameMap :=
  writeAll (mergeVal parent left right chain) (keys left ++ keys right) parent

/-- The visitor on a block.  `chain` = maps of the enclosing paths (innermost first). -/
def run : Prog → List NameMap → St → St
  | .skip, _, st => st
  | .assign line x rs rest, chain, st => run rest chain (store (loads chain line st rs) x)
  | .expr line rs rest, chain, st => run rest chain (loads chain line st rs)
  | .ite line rs thn els rest, chain, st =>
    let st1 := loads chain line st rs
    let l := run thn (st1.cur :: chain) { st1 with cur := [] }
    let r := run els (st1.cur :: chain) { l with cur := [] }
    run rest chain { r with cur := mergePaths st1.cur l.cur r.cur chain }
  | .while line rs body rest, chain, st =>
    let st1 := loads chain line st rs
    -- empty path "e": entered and left at once; body path "w": body, then the test again
    let b := run body (st1.cur :: chain) { st1 with cur := [] }
    let b' := loads (st1.cur :: chain) line b rs
    run rest chain { b' with cur := mergePaths st1.cur b'.cur [] chain }
  | .for line t rs body rest, chain, st =>
    -- `_visit_collection_loop` (iterable, then target stored as read); body on the CURRENT path
    let st1 := storeRead (loads chain line st rs) t
    run rest chain (run body chain st1)

/-- `_finish_scope` on the module path: every name whose state has `read == 'no'`. -/
def finishScope (root : NameMap) : List Var :=
  (keys root).filter fun x => match get root x with
    | some v => v.read = .no
    | none => false

def initSt : St := { cur := [], seen := [], issues := [] }

/-- The variables `_finish_scope` reports as unused at the end of the module. -/
def unusedReported (p : Prog) : List Var := finishScope (run p [] initSt).cur

/-- `process_ast`: visit the module, then `_finish_scope`. -/
def analyse (p : Prog) : List Issue :=
  (run p [] initSt).issues ++ (unusedReported p).map fun x => ⟨.unused, x, 0⟩

/-! ## Concrete semantics 1: all branch-outcome vectors (if-subset)

A path state records which variables are assigned and which have been read since their last
assignment.  `specRun` carries the list of the states of ALL paths reaching the current point
(one entry per vector of branch outcomes so far) and classifies every read occurrence, in
program order, over exactly those paths. -/

structure PState where
  asg : List Var
  rd : List Var
  deriving Repr, DecidableEq

inductive Cls where
  | all | none | some
  deriving DecidableEq, Repr

def classify (bs : List Bool) : Cls :=
  if bs.all id then .all else if bs.all not then .none else .some

/-- assigned-before classification of `x` over the paths `ps`. -/
def concSet (ps : List PState) (x : Var) : Cls := classify (ps.map fun σ => decide (x ∈ σ.asg))

structure ReadEv where
  cls : Cls
  name : Var
  line : Nat
  deriving DecidableEq, Repr

def pRead (σ : PState) (x : Var) : PState := { σ with rd := x :: σ.rd }
def pWrite (σ : PState) (x : Var) : PState := { asg := x :: σ.asg, rd := σ.rd.filter (· ≠ x) }

structure Spec where
  paths : List PState
  events : List ReadEv
  deriving Repr

def specLoads (line : Nat) (ps : List PState) : List Var → Spec
  | [] => ⟨ps, []⟩
  | r :: rs =>
    let s := specLoads line (ps.map (pRead · r)) rs
    ⟨s.paths, ⟨concSet ps r, r, line⟩ :: s.events⟩

/-- Collecting semantics over the explicit list of paths.  Loops are outside this semantics
    (`IfOnly`); they are given the zero-iteration reading only so that the function is total. -/
def specRun : Prog → List PState → Spec
  | .skip, ps => ⟨ps, []⟩
  | .assign line x rs rest, ps =>
    let a := specLoads line ps rs
    let s := specRun rest (a.paths.map (pWrite · x))
    ⟨s.paths, a.events ++ s.events⟩
  | .expr line rs rest, ps =>
    let a := specLoads line ps rs
    let s := specRun rest a.paths
    ⟨s.paths, a.events ++ s.events⟩
  | .ite line rs thn els rest, ps =>
    let a := specLoads line ps rs
    let l := specRun thn a.paths
    let r := specRun els a.paths
    let s := specRun rest (l.paths ++ r.paths)
    ⟨s.paths, a.events ++ l.events ++ r.events ++ s.events⟩
  | .while _ _ _ rest, ps => specRun rest ps
  | .for _ _ _ _ rest, ps => specRun rest ps

def IfOnly : Prog → Bool
  | .skip => true
  | .assign _ _ _ rest => IfOnly rest
  | .expr _ _ rest => IfOnly rest
  | .ite _ _ thn els rest => IfOnly thn && IfOnly els && IfOnly rest
  | .while .. => false
  | .for .. => false

def NoFor : Prog → Bool
  | .skip => true
  | .assign _ _ _ rest => NoFor rest
  | .expr _ _ rest => NoFor rest
  | .ite _ _ thn els rest => NoFor thn && NoFor els && NoFor rest
  | .while _ _ body rest => NoFor body && NoFor rest
  | .for .. => false

def startPaths : List PState := [⟨[], []⟩]

/-- What the property demands at a read: nothing / an "unassigned on every path" issue / "possible". -/
def Cls.expected : Cls → Option Cls
  | .all => Option.none
  | c => Option.some c

/-- The class of issue a label stands for (Initialization Problem and the equivalent read-out-of-scope
    issue both mean "assigned on no path"). -/
def Label.cls : Label → Option Cls
  | .initProblem => Option.some .none
  | .readOutOfScope => Option.some .none
  | .possibleInit => Option.some .some
  | .unused => Option.none

/-- Initialisation issues of the abstract analysis as (class, name, line), in emission order. -/
def issueEvents (is : List Issue) : List ReadEv :=
  is.filterMap fun i => i.label.cls.map fun c => ⟨c, i.name, i.line⟩

/-- Initialisation issues demanded by the paths, in program order. -/
def specEvents (es : List ReadEv) : List ReadEv :=
  es.filter fun e => e.cls ≠ .all

/-- No read of `x` happens at a point where `x` is assigned on NO path (the reads that leave TIFA's
    phantom `{set: no, read: yes}` state behind). -/
def NoEarlierUnsetRead (x : Var) (es : List ReadEv) : Bool :=
  es.all fun e => !(decide (e.name = x) && decide (e.cls = .none))

/-! ## Concrete semantics 2: single executions with loops

`Runs p σ evs σ'`: started with the variables `σ` assigned, block `p` can execute to the end with
the variables `σ'` assigned, reading an unassigned variable exactly at the sites `evs` (name, line).
Executions continue past such a read (CPython would stop with NameError at the first one, so the
real executions are prefixes of these). -/

def unsetReads (σ : List Var) (line : Nat) (rs : List Var) : List (Var × Nat) :=
  (rs.filter fun r => r ∉ σ).map fun r => (r, line)

inductive Runs : Prog → List Var → List (Var × Nat) → List Var → Prop where
  | skip (σ) : Runs .skip σ [] σ
  | assign {line x rs rest σ e σ'} :
      Runs rest (x :: σ) e σ' → Runs (.assign line x rs rest) σ (unsetReads σ line rs ++ e) σ'
  | expr {line rs rest σ e σ'} :
      Runs rest σ e σ' → Runs (.expr line rs rest) σ (unsetReads σ line rs ++ e) σ'
  | iteT {line rs thn els rest σ e1 σ1 e2 σ2} :
      Runs thn σ e1 σ1 → Runs rest σ1 e2 σ2 →
      Runs (.ite line rs thn els rest) σ (unsetReads σ line rs ++ (e1 ++ e2)) σ2
  | iteF {line rs thn els rest σ e1 σ1 e2 σ2} :
      Runs els σ e1 σ1 → Runs rest σ1 e2 σ2 →
      Runs (.ite line rs thn els rest) σ (unsetReads σ line rs ++ (e1 ++ e2)) σ2
  | whileStop {line rs body rest σ e σ'} :
      Runs rest σ e σ' → Runs (.while line rs body rest) σ (unsetReads σ line rs ++ e) σ'
  | whileIter {line rs body rest σ e1 σ1 e2 σ2} :
      Runs body σ e1 σ1 → Runs (.while line rs body rest) σ1 e2 σ2 →
      Runs (.while line rs body rest) σ (unsetReads σ line rs ++ (e1 ++ e2)) σ2
  | forStop {line t rs body rest σ e σ'} :
      Runs rest σ e σ' → Runs (.for line t rs body rest) σ (unsetReads σ line rs ++ e) σ'
  -- one more iteration: target bound, body, then the same loop without re-evaluating the iterable
  | forIter {line t rs body rest σ e1 σ1 e2 σ2} :
      Runs body (t :: σ) e1 σ1 → Runs (.for line t [] body rest) σ1 e2 σ2 →
      Runs (.for line t rs body rest) σ (unsetReads σ line rs ++ (e1 ++ e2)) σ2

/-- Sites (name, line) at which the analysis reports one of the three initialisation issues. -/
def issueSites (is : List Issue) : List (Var × Nat) :=
  (is.filter fun i => i.label ≠ .unused).map fun i => (i.name, i.line)

/-! ## Wire format (driver)

prog := `S` | `A line x n r*n prog` | `E line n r*n prog` | `I line n r*n prog prog prog`
      | `W line n r*n prog prog` | `F line t n r*n prog prog` -/

def takeNats : Nat → List String → Option (List Nat × List String)
  | 0, ts => some ([], ts)
  | n + 1, t :: ts => do
    let v ← t.toNat?
    let (vs, ts) ← takeNats n ts
    pure (v :: vs, ts)
  | _ + 1, [] => none

def takeReads (ts : List String) : Option (List Nat × List String) :=
  match ts with
  | n :: ts => do takeNats (← n.toNat?) ts
  | [] => none

def parseProg : Nat → List String → Option (Prog × List String)
  | 0, _ => none
  | _ + 1, "S" :: ts => some (.skip, ts)
  | fuel + 1, "A" :: l :: x :: ts => do
    let (rs, ts) ← takeReads ts
    let (rest, ts) ← parseProg fuel ts
    pure (.assign (← l.toNat?) (← x.toNat?) rs rest, ts)
  | fuel + 1, "E" :: l :: ts => do
    let (rs, ts) ← takeReads ts
    let (rest, ts) ← parseProg fuel ts
    pure (.expr (← l.toNat?) rs rest, ts)
  | fuel + 1, "I" :: l :: ts => do
    let (rs, ts) ← takeReads ts
    let (thn, ts) ← parseProg fuel ts
    let (els, ts) ← parseProg fuel ts
    let (rest, ts) ← parseProg fuel ts
    pure (.ite (← l.toNat?) rs thn els rest, ts)
  | fuel + 1, "W" :: l :: ts => do
    let (rs, ts) ← takeReads ts
    let (body, ts) ← parseProg fuel ts
    let (rest, ts) ← parseProg fuel ts
    pure (.while (← l.toNat?) rs body rest, ts)
  | fuel + 1, "F" :: l :: t :: ts => do
    let (rs, ts) ← takeReads ts
    let (body, ts) ← parseProg fuel ts
    let (rest, ts) ← parseProg fuel ts
    pure (.for (← l.toNat?) (← t.toNat?) rs body rest, ts)
  | _ + 1, _ => none

def Label.wire : Label → String
  | .initProblem => "init"
  | .possibleInit => "possible"
  | .readOutOfScope => "outofscope"
  | .unused => "unused"

def Cls.wire : Cls → String
  | .all => "all"
  | .none => "none"
  | .some => "some"

/-- `tifaflow <prog>` → `ok n label:name:line …` (emission order). -/
def handle (ts : List String) : String :=
  match parseProg (ts.length + 1) ts with
  | some (p, []) =>
    let is := analyse p
    "ok " ++ " ".intercalate (is.map fun i => s!"{i.label.wire}:{i.name}:{i.line}")
  | _ => "bad-request"

/-- `tifaspec <prog>` → the path semantics' verdicts: `ok cls:name:line …` (every read, program order),
    if-subset only. -/
def handleSpec (ts : List String) : String :=
  match parseProg (ts.length + 1) ts with
  | some (p, []) =>
    if IfOnly p then
      let s := specRun p startPaths
      "ok " ++ " ".intercalate (s.events.map fun e => s!"{e.cls.wire}:{e.name}:{e.line}")
    else "not-if-only"
  | _ => "bad-request"

end Pedal.TifaFlow

import PedalModel.Wire
/-
Shared stdin/stdout loop for the per-property line-protocol drivers (lean/Drivers/*.lean).
One request per line, one answer per line; the dispatch function never throws.
-/
namespace Pedal

partial def driverLoop (dispatch : List String → String) (h out : IO.FS.Stream) : IO Unit := do
  let line ← h.getLine
  if line.isEmpty then return ()
  let line := (line.dropEndWhile (fun c => c == '\n' || c == '\r')).toString
  out.putStrLn (dispatch (Wire.splitTokens line))
  driverLoop dispatch h out

def driverMain (dispatch : List String → String) : IO Unit := do
  let out ← IO.getStdout
  driverLoop dispatch (← IO.getStdin) out
  out.flush

end Pedal

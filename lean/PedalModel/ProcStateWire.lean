import PedalModel.Wire
import PedalModel.FeedbackCoreWire
import PedalModel.ProcState
import PedalModel.Gen.ProcStateTables
/-
Line protocol of driver_c13.  Parsing and printing only; every decision is made in ProcState.lean,
interpreting the regenerated `Pedal.Gen.ProcState.tables`.

  hist <classes> <n> { <sub> <k> op… <k> op… }        a history of gradings from the fresh state
  sess <classes> <k> op…                              the operations one at a time from the fresh state
  tables                                              what the table obligation evaluates to
-/
namespace Pedal.ProcState.WirePS
open Pedal.Wire Pedal.FeedbackCore Pedal.FeedbackCore.WireFC Pedal.ProcState

def pAttrs : P (List (String × AVal)) := pList pAttr

def pOp : P Op
  | "call" :: ts => do
    let (m, ts) ← pStr ts
    let (t, ts) ← pStr ts
    pure (.call m t, ts)
  | "poke" :: ts => do
    let (f, ts) ← pStr ts
    let (t, ts) ← pStr ts
    pure (.poke f t, ts)
  | "fb" :: ts => do
    let (c, ts) ← pStr ts
    let (attrs, ts) ← pList pStr ts
    let (trig, ts) ← pBool ts
    let (t, ts) ← pStr ts
    pure (.feedback c attrs trig t, ts)
  | "ov" :: ts => do
    let (c, ts) ← pStr ts
    let (fs, ts) ← pAttrs ts
    pure (.override c fs, ts)
  | "ovp" :: ts => do
    let (c, ts) ← pStr ts
    let (p, ts) ← pStr ts
    let (fs, ts) ← pAttrs ts
    pure (.overrideForPool c p fs, ts)
  | "use" :: ts => do
    let (t, ts) ← pStr ts
    pure (.useTool t, ts)
  | "mut" :: ts => do
    let (t, ts) ← pStr ts
    let (k, ts) ← pStr ts
    pure (.mutateTool t k, ts)
  | "tifa" :: ts => do
    let (k, ts) ← pStr ts
    pure (.tifa k, ts)
  | "resolve" :: ts => do
    let (ps, ts) ← pList pPair ts
    pure (.resolve ps, ts)
  | "clear" :: ts => some (.clearReport, ts)
  | "crash" :: ts => do
    let (e, ts) ← pStr ts
    pure (.crash e, ts)
  | _ => none

def pGrading : P Grading := fun ts => do
  let (sub, ts) ← pStr ts
  let (env, ts) ← pList pOp ts
  let (script, ts) ← pList pOp ts
  pure ({ sub := sub, env := env, script := script }, ts)

def encToks (l : List String) : String := ",".intercalate (l.map encStr)

def encAV : Option AVal → String
  | none => "-"
  | some .none => "N"
  | some (.str s) => "S" ++ encStr s
  | some (.tok s) => "K" ++ encStr s
  | some (.tmpl raw _) => "T" ++ encStr raw
  | some (.fields f) => "F" ++ ",".intercalate (f.map fun (k, v) => encStr k ++ ":" ++ encStr v)
  | some (.names f) => "M" ++ encToks f

def encPools (p : PoolTable) : String :=
  "/".intercalate (p.map fun (pool, fs) =>
    encStr pool ++ "~" ++ ",".intercalate (fs.map fun (a, v) => encStr a ++ ":" ++ encAV (some v)))

def encObs : Obs → String
  | .field n v => "F" ++ encStr n ++ "=" ++ encToks v
  | .attr c a v => "A" ++ encStr c ++ "." ++ encStr a ++ "=" ++ encAV v
  | .pools t => "P" ++ encPools t
  | .registered cs => "R" ++ encToks cs
  | .tool t v => "T" ++ encStr t ++ "=" ++ (match v with | none => "-" | some l => "+" ++ encToks l)
  | .modules v => "M" ++ encToks v

def encStepR (r : StepR) : String :=
  "halt=" ++ encOptStr r.halt ++ " obs=" ++ ";".intercalate (r.obs.map encObs)

def T := Pedal.Gen.ProcState.tables

def handleHist (ts : List String) : String :=
  match (do
    let (classes, ts) ← pList pClass ts
    let (gs, ts) ← pList pGrading ts
    if ts.isEmpty then pure (classes, gs) else none) with
  | none => "bad-request"
  | some (classes, gs) =>
    let (_, outs) := gs.foldl (fun (acc : World × List String) g =>
      let r := grade T acc.1 g
      (r.w, encStepR r :: acc.2)) (init (mkStore classes), [])
    " | ".intercalate outs.reverse

def handleSess (ts : List String) : String :=
  match (do
    let (classes, ts) ← pList pClass ts
    let (ops, ts) ← pList pOp ts
    if ts.isEmpty then pure (classes, ops) else none) with
  | none => "bad-request"
  | some (classes, ops) =>
    let (_, outs) := ops.foldl (fun (acc : World × List String) op =>
      let r := step T acc.1 op
      (r.w, encStepR r :: acc.2)) (init (mkStore classes), [])
    " | ".intercalate outs.reverse

def handleTables (_ : List String) : String :=
  s!"tableOk={encBool (tableOk T)} fields={encToks T.names} restores={encBool T.restoresOverrides}"

end Pedal.ProcState.WirePS

/-
Line-protocol helpers shared by every model's request handler.

A request is one line of space-separated ASCII tokens.  Strings travel as
`x<hex of UTF-8 bytes>` (so the empty string is `x`), a missing value
(`None`) as `-`, booleans as `0`/`1`, naturals/ints in decimal.
The driver never defaults: anything it cannot parse is answered `bad-request`.
-/
namespace Pedal.Wire

def hexVal (c : Char) : Option Nat :=
  if '0' ≤ c ∧ c ≤ '9' then some (c.toNat - '0'.toNat)
  else if 'a' ≤ c ∧ c ≤ 'f' then some (c.toNat - 'a'.toNat + 10)
  else none

def hexBytes : List Char → Option (List UInt8)
  | [] => some []
  | [_] => none
  | a :: b :: rest => do
    let h ← hexVal a
    let l ← hexVal b
    let tl ← hexBytes rest
    pure (UInt8.ofNat (h * 16 + l) :: tl)

/-- Decode an `x<hex>` token. -/
def decStr (tok : String) : Option String :=
  match tok.toList with
  | 'x' :: rest => do
    let bs ← hexBytes rest
    String.fromUTF8? (ByteArray.mk bs.toArray)
  | _ => none

/-- Decode an optional string token: `-` is `none`. -/
def decOptStr (tok : String) : Option (Option String) :=
  if tok = "-" then some none else (decStr tok).map some

def decBool (tok : String) : Option Bool :=
  if tok = "0" then some false else if tok = "1" then some true else none

def hexDigit (n : Nat) : Char :=
  if n < 10 then Char.ofNat ('0'.toNat + n) else Char.ofNat ('a'.toNat + (n - 10))

def encStr (s : String) : String :=
  let bs := s.toUTF8.toList
  "x" ++ String.ofList (bs.flatMap fun b => [hexDigit (b.toNat / 16), hexDigit (b.toNat % 16)])

def encOptStr : Option String → String
  | none => "-"
  | some s => encStr s

def encBool (b : Bool) : String := if b then "1" else "0"

/-- Take `n` items with a per-item parser that consumes tokens. -/
def takeN {α} (p : List String → Option (α × List String)) : Nat → List String → Option (List α × List String)
  | 0, ts => some ([], ts)
  | n + 1, ts => do
    let (a, ts) ← p ts
    let (as, ts) ← takeN p n ts
    pure (a :: as, ts)

def splitTokens (line : String) : List String :=
  (line.splitOn " ").filter (· ≠ "")

end Pedal.Wire

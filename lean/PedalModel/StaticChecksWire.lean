import PedalModel.StaticChecks
/-
Line protocol for the C08 model (driver_c08).

request : `c08 <tree> <nq> <query>*`
tree    : `N <kind> <field> <line|-> <col|-> <nattrs> (<name> <prim>)* <nchildren> <tree>*`   (strings as x<hex>)
prim    : `n` | `b0` | `b1` | `i<int>` | `f<num>/<den>` | `Fx<hex>` | `sx<hex>` | `ox<hex>`
query   : `op <sym>` | `call <name>` | `lit <prim>` | `lty <bool|str|int|float|list|dict>` | `ast <kind>` | `imp <name>`
answer  : one field per query, joined by `;` :
          `count=<n> line=<l|-> ens=<bits for at_least 0..k> prev=<bits for at_most 0..k> nodes=<kind:line:col,...>`
          or `has=<0|1>` for `imp`, or `unmodelled` for a literal outside the modelled domain.
Anything unparsable is answered `bad-request`.
-/
namespace Pedal.Static
open Pedal.Wire

def decPrim (tok : String) : Option Prim :=
  match tok.toList with
  | ['n'] => some .none
  | ['b', '0'] => some (.bool false)
  | ['b', '1'] => some (.bool true)
  | 'i' :: rest => (String.ofList rest).toInt?.map .int
  | 'f' :: rest =>
    match (String.ofList rest).splitOn "/" with
    | [a, b] => do
      let n ← a.toInt?
      let d ← b.toNat?
      pure (.flt n d)
    | _ => none
  | 'F' :: rest => (decStr (String.ofList rest)).map .fltx
  | 's' :: rest => (decStr (String.ofList rest)).map .str
  | 'o' :: rest => (decStr (String.ofList rest)).map .other
  | _ => none

def decOptNat (tok : String) : Option (Option Nat) :=
  if tok = "-" then some none else tok.toNat?.map some

def parseAttr : List String → Option ((String × Prim) × List String)
  | n :: p :: ts => do
    let name ← decStr n
    let v ← decPrim p
    pure ((name, v), ts)
  | _ => none

mutual
def parseTree : Nat → List String → Option (Tree × List String)
  | 0, _ => none
  | fuel + 1, "N" :: k :: f :: l :: c :: na :: ts => do
    let kind ← decStr k
    let field ← decStr f
    let line ← decOptNat l
    let col ← decOptNat c
    let nattrs ← na.toNat?
    let (attrs, ts) ← takeN parseAttr nattrs ts
    match ts with
    | nc :: ts => do
      let nchildren ← nc.toNat?
      let (cs, ts) ← parseTrees fuel nchildren ts
      pure (Tree.node kind field line col attrs cs, ts)
    | [] => none
  | _ + 1, _ => none
def parseTrees : Nat → Nat → List String → Option (List Tree × List String)
  | 0, _, _ => none
  | _ + 1, 0, ts => some ([], ts)
  | fuel + 1, n + 1, ts => do
    let (t, ts) ← parseTree fuel ts
    let (rest, ts) ← parseTrees fuel n ts
    pure (t :: rest, ts)
end

inductive Request
  | q (q : Query)
  | imp (name : String)

def decLitType (tok : String) : Option LitType :=
  if tok = "bool" then some .bool else if tok = "str" then some .str else if tok = "int" then some .int
  else if tok = "float" then some .float else if tok = "list" then some .list else if tok = "dict" then some .dict
  else none

def parseRequest : List String → Option (Request × List String)
  | "op" :: s :: ts => (decStr s).map fun s => (.q (.op s), ts)
  | "call" :: s :: ts => (decStr s).map fun s => (.q (.call s), ts)
  | "lit" :: p :: ts => (decPrim p).map fun p => (.q (.literal p), ts)
  | "lty" :: s :: ts => (decLitType s).map fun ty => (.q (.litType ty), ts)
  | "ast" :: s :: ts => (decStr s).map fun s => (.q (.ast s), ts)
  | "imp" :: s :: ts => (decStr s).map fun s => (.imp s, ts)
  | _ => none

def showOptNat : Option Nat → String
  | none => "-"
  | some n => toString n

def showNode (t : Tree) : String := t.kind ++ ":" ++ showOptNat t.line ++ ":" ++ showOptNat t.col

def bits (f : Nat → Bool) (k : Nat) : String :=
  String.ofList ((List.range (k + 1)).map fun n => if f n then '1' else '0')

def modelled : Query → Bool
  | .literal (.bool _) | .literal (.int _) | .literal (.flt _ _) | .literal (.str _) => true
  | .literal _ => false
  | _ => true

def answerOne (t : Tree) : Request → String
  | .imp name => "has=" ++ encBool (hasImport name t)
  | .q q =>
    if !modelled q then "unmodelled" else
    let us := uses q t
    let k := max 6 (us.length + 2)
    "count=" ++ toString us.length ++ " line=" ++ showOptNat (reportedLine us)
      ++ " ens=" ++ bits (fun n => ensureFires n us) k ++ " prev=" ++ bits (fun m => preventFires m us) k
      ++ " nodes=" ++ ",".intercalate (us.map showNode)

def handle (ts : List String) : String :=
  match parseTree (ts.length + 1) ts with
  | some (t, nq :: rest) =>
    match nq.toNat? with
    | some n =>
      match takeN parseRequest n rest with
      | some (reqs, []) => ";".intercalate (reqs.map (answerOne t))
      | _ => "bad-request"
    | none => "bad-request"
  | _ => "bad-request"

end Pedal.Static

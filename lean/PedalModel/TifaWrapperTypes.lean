/-
Row type of the generated builtin function/method table (C18), shared by
`PedalModel/Gen/TifaTables.lean` (generated) and `PedalModel/TifaWrapper.lean`.
-/
namespace Pedal.TifaWrapper

/-- What was passed as `definition=` to `FunctionType.__init__`. -/
inductive DefKind where
  | none          -- not given (None): derived from `returns`
  | callable      -- callable with TIFA's six arguments (tifa, function, callee, arguments, named_arguments, location)
  | wrongArity    -- callable, but not with those six arguments (e.g. a Type class)
  | str           -- a string (e.g. 'identity' passed as definition instead of returns)
  | other         -- anything else / not understood by the translator
  deriving DecidableEq, Repr

/-- What was passed as `returns=`. -/
inductive RetKind where
  | none | void | identity | element   -- None / 'void' / 'identity' / 'element'
  | otherStr      -- any other string
  | callable0     -- callable without arguments, yields a Type (a Type class, a lambda)
  | needsArgs     -- callable, but not without arguments (e.g. ModuleType)
  | other         -- a non-callable object (e.g. a Type INSTANCE) / not understood
  deriving DecidableEq, Repr

structure Row where
  table : String      -- "builtins" | "<Type class>" | "module:<name>"
  name : String
  defGiven : DefKind
  returns : RetKind
  deriving Repr

/-- Which dictionary the `fields` attribute of a freshly constructed instance of a Type class is. -/
inductive FieldsOwner where
  | own           -- its own copy (what `Type.__init__` makes: `self.fields = self.fields.copy()`)
  | classLevel    -- the class-level dictionary itself: shared by every instance for the life of the process
  | noClassDict   -- abstract base without a class-level `fields` (cannot be constructed; nothing to share)
  | unknown       -- the translator could not construct an instance
  deriving DecidableEq, Repr

structure TypeClassRow where
  name : String
  owner : FieldsOwner
  deriving DecidableEq, Repr

end Pedal.TifaWrapper

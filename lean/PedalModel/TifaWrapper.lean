import PedalModel.Wire
import PedalModel.TifaWrapperTypes
import PedalModel.Gen.TifaTables
/-
Model of the wrapper around TIFA's visitor (property C18):

  pedal/tifa/commands.py       tifa_analysis  (per-report cache keyed by the code string)
  pedal/tifa/tifa_visitor.py   Tifa.process_code (parse / traverse inside try ... except Exception,
                               TifaAnalysis.fail + system_error), Tifa.visit -> ast.NodeVisitor.visit
                               (dispatch `visit_<Class>` else `generic_visit`)
  pedal/tifa/tifa_core.py      TifaCore.locate (node.lineno + line_offset), _issue
  pedal/types/new_types.py     FunctionType.__init__ (how `definition` is derived)

The 1200-line visitor itself is NOT modelled: it is the parameter `inner : Code → Inner`
(what parsing + visiting that code does).  What is modelled - and proved - is everything around it.
Core Lean only.
-/
namespace Pedal.TifaWrapper
open Pedal.Gen.Tifa

abbrev Code := String

/-- The exception an inner step raised, as far as the wrapper can tell classes apart. -/
structure Exc where
  cls : String
  isException : Bool      -- subclass of `Exception` (what `except Exception` catches)
  strRaises : Bool        -- `str(error)` raises (the handlers build their message with it)
  deriving DecidableEq, Repr

/-- An issue as the visitor records it: a label and the AST node it is located at. -/
structure RawIssue where
  label : String
  nodeLine : Nat
  deriving DecidableEq, Repr

/-- What `ast.parse(code)` followed by `process_ast(tree)` does for one code string. -/
inductive Inner where
  | ok (issues : List RawIssue)
  | parseFail (e : Exc)
  | visitFail (e : Exc) (issuesSoFar : List RawIssue)
  deriving Repr

structure Issue where
  label : String
  line : Nat
  deriving DecidableEq, Repr

structure Analysis where
  success : Bool
  error : Option String
  issues : List Issue
  deriving DecidableEq, Repr

/-- Feedback objects TIFA attaches to the report: one per issue, and `system_error` on failure. -/
inductive Fb where
  | issue (i : Issue)
  | system (message : String)
  deriving DecidableEq, Repr

def Fb.isSystem : Fb → Bool
  | .system _ => true
  | .issue _ => false

structure Report where
  analyses : List (Code × Analysis)   -- report[TIFA]['analyses']
  latest : Option Analysis            -- report[TIFA]['latest']
  feedback : List Fb                  -- report.feedback, TIFA's part, in order
  offset : Nat                        -- submission.line_offsets[main file]
  deriving Repr

/-- `TifaCore.locate`: `Location(node.lineno + self.line_offset, …)`. -/
def locate (offset : Nat) (i : RawIssue) : Issue := ⟨i.label, i.nodeLine + offset⟩

def strRaised : Exc := ⟨"raised-by-str-of-error", true, false⟩

/-- `Tifa.process_code(code)`: `.error e` = the exception `e` ESCAPES the call. -/
def processCode (inner : Code → Inner) (offset : Nat) (code : Code) : Except Exc (Analysis × List Fb) :=
  match inner code with
  | .ok raw =>
    let is := raw.map (locate offset)
    .ok (⟨true, none, is⟩, is.map Fb.issue)
  | .parseFail e =>
    if !e.isException then .error e
    else if e.strRaises then .error strRaised
    else .ok (⟨false, some e.cls, []⟩, [.system ("Could not parse code: " ++ e.cls)])
  | .visitFail e raw =>
    let is := raw.map (locate offset)
    if !e.isException then .error e
    else if e.strRaises then .error strRaised
    else .ok (⟨false, some e.cls, is⟩,
              is.map Fb.issue ++ [.system ("Successfully parsed but could not process AST: " ++ e.cls)])

def lookup (code : Code) : List (Code × Analysis) → Option Analysis
  | [] => none
  | (c, a) :: rest => if c = code then some a else lookup code rest

/-- `tifa_analysis(code, report)`. -/
def tifaAnalysis (inner : Code → Inner) (r : Report) (code : Code) : Except Exc (Analysis × Report) :=
  match lookup code r.analyses with
  | some a => .ok (a, r)
  | none =>
    match processCode inner r.offset code with
    | .error e => .error e
    | .ok (a, fbs) =>
      .ok (a, { r with analyses := (code, a) :: r.analyses, latest := some a, feedback := r.feedback ++ fbs })

/-- `n` further calls on the same code: the results and the final report. -/
def repeatAnalysis (inner : Code → Inner) (code : Code) : Nat → Report → Except Exc (List Analysis × Report)
  | 0, r => .ok ([], r)
  | n + 1, r =>
    match tifaAnalysis inner r code with
    | .error e => .error e
    | .ok (a, r1) =>
      match repeatAnalysis inner code n r1 with
      | .error e => .error e
      | .ok (as, r2) => .ok (a :: as, r2)

/-- Any history of calls on arbitrary codes. -/
def runHistory (inner : Code → Inner) : List Code → Report → Except Exc Report
  | [], r => .ok r
  | c :: cs, r =>
    match tifaAnalysis inner r c with
    | .error e => .error e
    | .ok (_, r1) => runHistory inner cs r1

/-- The inner steps only fail in ways `except Exception` handles. -/
def Contained (inner : Code → Inner) : Prop :=
  ∀ code, match inner code with
    | .ok _ => True
    | .parseFail e => e.isException = true ∧ e.strRaises = false
    | .visitFail e _ => e.isException = true ∧ e.strRaises = false

/-! ### dispatch (`ast.NodeVisitor.visit`) -/

inductive Handler where
  | specific (method : String)
  | generic
  deriving Repr, DecidableEq

/-- `getattr(self, 'visit_' + node.__class__.__name__, self.generic_visit)`: `none` = AttributeError. -/
def dispatchWith (methods : List String) (generic : Bool) (cls : String) : Option Handler :=
  if methods.contains ("visit_" ++ cls) then some (.specific ("visit_" ++ cls))
  else if generic then some .generic else none

def dispatch (cls : String) : Option Handler := dispatchWith visitMethods hasGenericVisit cls

/-! ### `FunctionType.__init__` -/

/-- The `definition` attribute a FunctionType ends up with. -/
inductive Definition where
  | voidDef | identityDef | elementDef
  | generic (returns : RetKind)     -- the closure `return returns().clone()`
  | given (d : DefKind)
  deriving DecidableEq, Repr

/-- `FunctionType.__init__(name, definition, returns)`: a given definition is used as is. -/
def deriveDefinition (d : DefKind) (r : RetKind) : Definition :=
  match d with
  | .none =>
    match r with
    | .none => .voidDef
    | .void => .voidDef
    | .identity => .identityDef
    | .element => .elementDef
    | r => .generic r
  | d => .given d

/-- `visit_Call` can call `function_type.definition(self, function_type, callee, arguments, keywords,
    location)` and gets a Type back, as far as callability goes. -/
def Definition.usable : Definition → Bool
  | .voidDef => true
  | .identityDef => true
  | .elementDef => true
  | .generic .callable0 => true
  | .generic _ => false
  | .given .callable => true
  | .given _ => false

def Row.usable (row : Row) : Bool := (deriveDefinition row.defGiven row.returns).usable

/-! ### process-wide state between analyses: the class-level `fields` dictionaries

`Type.add_attr(field, value)` is `self.fields[field] = value`.  Whether that write stays inside the analysis
depends on WHICH dictionary `self.fields` is (generated per Type class: `typeClassRows`). -/

/-- The class-level `fields` dictionaries of the process: class name ↦ field names. -/
abbrev ClassFields := List (String × List String)

def FieldsOwner.writesClassLevel : FieldsOwner → Bool
  | .classLevel => true
  | .unknown => true        -- not understood: assume the worst
  | .own => false
  | .noClassDict => false

def insertField (field : String) (fs : List String) : List String :=
  if fs.contains field then fs else fs ++ [field]

/-- `instance.add_attr(field, _)` for an instance of class `row`: the class-level dictionaries afterwards. -/
def addAttr (row : TypeClassRow) (field : String) (cf : ClassFields) : ClassFields :=
  if row.owner.writesClassLevel then
    cf.map fun p => if p.1 = row.name then (p.1, insertField field p.2) else p
  else cf

def runStores : List (TypeClassRow × String) → ClassFields → ClassFields
  | [], cf => cf
  | (row, f) :: ops, cf => runStores ops (addAttr row f cf)

/-- The parser + visitor as a function of the code AND of the process-wide class-level dictionaries it can
    read (`get_attr`), together with the attribute stores it performs (`add_attr` on instances of which class). -/
structure StatefulVisitor where
  run : ClassFields → Code → Inner × List (TypeClassRow × String)

/-- One analysis (fresh report) in a process whose class-level dictionaries are `cf`. -/
def analyseWith (v : StatefulVisitor) (cf : ClassFields) (code : Code) : Inner × ClassFields :=
  ((v.run cf code).1, runStores (v.run cf code).2 cf)

/-- The class-level dictionaries after analysing a list of programs one after the other. -/
def afterHistory (v : StatefulVisitor) : List Code → ClassFields → ClassFields
  | [], cf => cf
  | c :: cs, cf => afterHistory v cs (analyseWith v cf c).2

/-- `fields <Class> <field>` → does an `add_attr` on a fresh instance reach a class-level dictionary? -/
def handleFields : List String → String
  | [cls, field] =>
    match typeClassRows.find? (·.name = cls) with
    | some row =>
      let cf0 : ClassFields := [(row.name, [])]
      if addAttr row field cf0 = cf0 then "class-level-unchanged" else "class-level-changed"
    | none => "unknown-class"
  | _ => "bad-request"

/-! ### wire format (driver)

`wrap <offset> <nOutcomes> {<code> <outcome>}* <nCalls> {<code>}*`
 outcome := `ok <n> {<label> <line>}*` | `pf <cls> <isExc> <strRaises>` | `vf <cls> <isExc> <strRaises> <n> {<label> <line>}*`
 answer  := `ok` then per call `| <success> <nIssues> <feedbackTotal> <systemTotal> <lines…>`  or `raised <cls>` -/

def takeIssues : Nat → List String → Option (List RawIssue × List String)
  | 0, ts => some ([], ts)
  | n + 1, l :: ln :: ts => do
    let (is, ts) ← takeIssues n ts
    pure (⟨l, ← ln.toNat?⟩ :: is, ts)
  | _ + 1, _ => none

def parseOutcome : List String → Option (Inner × List String)
  | "ok" :: n :: ts => do
    let (is, ts) ← takeIssues (← n.toNat?) ts
    pure (.ok is, ts)
  | "pf" :: c :: a :: b :: ts => do
    pure (.parseFail ⟨c, ← Wire.decBool a, ← Wire.decBool b⟩, ts)
  | "vf" :: c :: a :: b :: n :: ts => do
    let (is, ts) ← takeIssues (← n.toNat?) ts
    pure (.visitFail ⟨c, ← Wire.decBool a, ← Wire.decBool b⟩ is, ts)
  | _ => none

def takeOutcomes : Nat → List String → Option (List (Code × Inner) × List String)
  | 0, ts => some ([], ts)
  | n + 1, c :: ts => do
    let (o, ts) ← parseOutcome ts
    let (os, ts) ← takeOutcomes n ts
    pure ((c, o) :: os, ts)
  | _ + 1, [] => none

def innerOf (tbl : List (Code × Inner)) (code : Code) : Inner :=
  match tbl.find? (·.1 = code) with
  | some (_, o) => o
  | none => .parseFail ⟨"unknown-code", true, false⟩

def showCall (a : Analysis) (r : Report) : String :=
  s!"| {Wire.encBool a.success} {a.issues.length} {r.feedback.length} {(r.feedback.filter Fb.isSystem).length} " ++
    " ".intercalate (a.issues.map fun i => toString i.line)

def runCalls (inner : Code → Inner) : List Code → Report → String → String
  | [], _, acc => acc
  | c :: cs, r, acc =>
    match tifaAnalysis inner r c with
    | .error e => acc ++ " raised " ++ e.cls
    | .ok (a, r1) => runCalls inner cs r1 (acc ++ " " ++ showCall a r1)

def handle (ts : List String) : String :=
  match ts with
  | off :: n :: ts =>
    match (do
      let (tbl, ts) ← takeOutcomes (← n.toNat?) ts
      match ts with
      | m :: calls => if calls.length = (← m.toNat?) then pure (tbl, calls, ← off.toNat?) else none
      | [] => none) with
    | some (tbl, calls, off) => runCalls (innerOf tbl) calls ⟨[], none, [], off⟩ "ok"
    | none => "bad-request"
  | _ => "bad-request"

/-- `dispatch <Class>` → `specific <method>` | `generic` | `attribute-error` -/
def handleDispatch : List String → String
  | [cls] =>
    match dispatch cls with
    | some (.specific m) => "specific " ++ m
    | some .generic => "generic"
    | none => "attribute-error"
  | _ => "bad-request"

/-- `rows` → one token per generated row: `<table>/<name>=<0|1>` -/
def handleRows : List String → String
  | [] => "ok " ++ " ".intercalate ((builtinRows ++ extensionRows).map fun r => s!"{r.table}/{r.name}={Wire.encBool r.usable}")
  | _ => "bad-request"

end Pedal.TifaWrapper

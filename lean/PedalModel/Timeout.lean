import PedalModel.TimeoutMachine
import PedalModel.TimeoutIR
import PedalModel.Gen.TimeoutGen
/-
C14 — the interleaving machine (PedalModel/TimeoutMachine.lean) instantiated with the protocol
facts translated from the tree under test, and the driver's request handlers.
-/
namespace Pedal.Timeout
open Pedal.Wire

open Pedal.TimeoutIR in
/-- what each source (AST reading, measurement) establishes about the tree under test, and the verdicts -/
structure Facts where
  graderAst : Option Bool
  graderProbe : Option Bool
  studentAst : Option Bool
  studentProbe : Option Bool
  popsAst : Option Bool
  popsProbe : Option Bool
  bumpsAst : Option Bool
  bumpsProbe : Option Bool
  deriving Repr

open Pedal.TimeoutIR in
def facts : Facts :=
  { graderAst := graderClaims Pedal.Gen.Timeout.graderAst,
    graderProbe := graderClaims Pedal.Gen.Timeout.graderProbe,
    studentAst := studentChecks Pedal.Gen.Timeout.studentAst,
    studentProbe := studentChecks Pedal.Gen.Timeout.studentProbe,
    popsAst := handlerPops Pedal.Gen.Timeout.handlerAst,
    popsProbe := handlerPops Pedal.Gen.Timeout.handlerProbe,
    bumpsAst := handlerBumps Pedal.Gen.Timeout.handlerAst,
    bumpsProbe := handlerBumps Pedal.Gen.Timeout.handlerProbe }

open Pedal.TimeoutIR in
def Facts.grader (f : Facts) : Option Bool := combine f.graderAst f.graderProbe
open Pedal.TimeoutIR in
def Facts.student (f : Facts) : Option Bool := combine f.studentAst f.studentProbe
open Pedal.TimeoutIR in
/-- `timeout()` abandons the thread only after winning `claim_finish()` AND `Sandbox._stop_mocking` starts by
checking the claim (`none`: unknown, contradictory, or only one of the two sides) -/
def Facts.claim (f : Facts) : Option Bool := bothOrNeither f.grader f.student
open Pedal.TimeoutIR in
def Facts.pops (f : Facts) : Option Bool := combine f.popsAst f.popsProbe
open Pedal.TimeoutIR in
def Facts.bumps (f : Facts) : Option Bool := combine f.bumpsAst f.bumpsProbe

/-- the protocol facts of the tree under test (an unknown fact counts as absent: the machine then is not the
repaired one and `cfg_fixed` fails; the driver reports the unknown separately) -/
def cfg : Cfg :=
  { claim := facts.claim.getD false, handlerPops := facts.pops.getD false,
    handlerBumps := facts.bumps.getD false, termTolerant := Pedal.Gen.Timeout.termTolerant }

/-- the machine of the tree under test -/
def run (p : Prog) (sched : List Act) : St := runSched cfg p init sched

/-- `sched <claim><pops><bumps><tolerant>|gen <prints><swallows><blocked> <acts>` -/
def handleSched : List String → String
  | [c, p, acts] =>
    let cfg? : Option Cfg :=
      if c = "gen" then some cfg
      else match c.toList with
        | [a, b, d, e] => do
          let a ← decBool (String.singleton a)
          let b ← decBool (String.singleton b)
          let d ← decBool (String.singleton d)
          let e ← decBool (String.singleton e)
          pure { claim := a, handlerPops := b, handlerBumps := d, termTolerant := e }
        | _ => none
    let p? : Option Prog := match p.toList with
      | [a, b, d] => do
        let a ← decBool (String.singleton a)
        let b ← decBool (String.singleton b)
        let d ← decBool (String.singleton d)
        pure { prints := a, swallows := b, blocked := d }
      | _ => none
    match cfg?, p?, parseActs (if acts = "-" then [] else acts.toList) with
    | some cfg, some p, some acts => encSt (runSched cfg p init acts)
    | _, _, _ => "bad-request"
  | _ => "bad-request"

open Pedal.TimeoutIR in
def handleCfg : List String → String
  | [] =>
    s!"ok claim={encBool cfg.claim} pops={encBool cfg.handlerPops} bumps={encBool cfg.handlerBumps} tolerant={encBool cfg.termTolerant} " ++
    s!"kclaim={encOB facts.claim} kgrader={encOB facts.grader} kstudent={encOB facts.student} kpops={encOB facts.pops} kbumps={encOB facts.bumps} " ++
    s!"graderast={encOB facts.graderAst} graderprobe={encOB facts.graderProbe} studentast={encOB facts.studentAst} studentprobe={encOB facts.studentProbe} " ++
    s!"popsast={encOB facts.popsAst} popsprobe={encOB facts.popsProbe} bumpsast={encOB facts.bumpsAst} bumpsprobe={encOB facts.bumpsProbe}"
  | _ => "bad-request"

end Pedal.Timeout

import PedalModel.TimeoutMachine
import PedalModel.Gen.TimeoutGen
/-
C14 — the interleaving machine (PedalModel/TimeoutMachine.lean) instantiated with the protocol
facts translated from the tree under test, and the driver's request handlers.
-/
namespace Pedal.Timeout
open Pedal.Wire

/-- the protocol facts of the tree under test -/
def cfg : Cfg :=
  { claim := Pedal.Gen.Timeout.claim, handlerPops := Pedal.Gen.Timeout.handlerPops,
    handlerBumps := Pedal.Gen.Timeout.handlerBumps, termTolerant := Pedal.Gen.Timeout.termTolerant }

/-- the machine of the tree under test -/
def run (p : Prog) (sched : List Act) : St := runSched cfg p init sched

/-- `sched <claim><pops><bumps><tolerant>|gen <prints><swallows><blocked> <acts>` -/
def handleSched : List String → String
  | [c, p, acts] =>
    let cfg? : Option Cfg :=
      if c = "gen" then some cfg
      else match c.toList with
        | [a, b, d, e] => do
          let a ← decBool (String.singleton a)
          let b ← decBool (String.singleton b)
          let d ← decBool (String.singleton d)
          let e ← decBool (String.singleton e)
          pure { claim := a, handlerPops := b, handlerBumps := d, termTolerant := e }
        | _ => none
    let p? : Option Prog := match p.toList with
      | [a, b, d] => do
        let a ← decBool (String.singleton a)
        let b ← decBool (String.singleton b)
        let d ← decBool (String.singleton d)
        pure { prints := a, swallows := b, blocked := d }
      | _ => none
    match cfg?, p?, parseActs (if acts = "-" then [] else acts.toList) with
    | some cfg, some p, some acts => encSt (runSched cfg p init acts)
    | _, _, _ => "bad-request"
  | _ => "bad-request"

def handleCfg : List String → String
  | [] => s!"ok claim={encBool cfg.claim} pops={encBool cfg.handlerPops} bumps={encBool cfg.handlerBumps} tolerant={encBool cfg.termTolerant}"
  | _ => "bad-request"


end Pedal.Timeout

/-
Executable model of pedal's CAIT tree matcher
  pedal/cait/stretchy_tree_matching.py  (StretchyTreeMatcher: find_matches, any_node_match,
      deep_find_match{,_Name,_BinOp,_binflex,_Expr,_generic}, map_merge, shallow_match_*, metas_match)
  pedal/cait/ast_map.py                 (AstMap: add_*_to_sym_table, add_node_pairing, new_merged_map,
      conflict keys)
  pedal/cait/cait_node.py               (CaitNode: children, field)
as called by `pedal.cait.cait_api.find_matches(pattern, code)` (check_meta=True, use_previous=None).
The code is modelled AS IT IS (with the proposed repairs of notes/C10.md, notes/C11.md): in particular
`deep_find_match_BinOp` hands `check_meta=False` to the commutative path, so from a `+` / `*` node downwards no AST
field is compared (`deep false …` below); that behaviour is an open C11 finding, not a repair.

Core Lean only.  Trees are abstract: kind, the parent's field, the ordered `ast.iter_fields` with
plain values (type + canonical text) or the marker "an AST node stands here", and the children.
Nodes are addressed by PATHS (child indices from the root of the tree that was parsed), so two
different nodes never share an address and no well-formedness hypothesis on identifiers is needed.
All recursion is structural in the PATTERN (deep*) or in the SUBJECT (anyNode*).
-/
namespace Pedal.Cait

abbrev Path := List Nat

/-- A non-AST field value: Python type name and a canonical rendering that is injective inside the type. -/
structure PVal where
  ty : String
  key : String
  deriving DecidableEq, Repr, Inhabited

/-- One element of a field value. -/
inductive Item where
  | prim (v : PVal)
  | node
  deriving DecidableEq, Repr, Inhabited

inductive FVal where
  | none
  | one (i : Item)
  | many (l : List Item)
  deriving DecidableEq, Repr, Inhabited

structure Fld where
  name : String
  val : FVal
  deriving DecidableEq, Repr, Inhabited

/-- An AST node as CaitNode sees it. -/
inductive T where
  | mk (kind field : String) (flds : List Fld) (kids : List T)
  deriving Repr, Inhabited

def T.kind : T → String | .mk k _ _ _ => k
def T.field : T → String | .mk _ f _ _ => f
def T.flds : T → List Fld | .mk _ _ fl _ => fl
def T.kids : T → List T | .mk _ _ _ ks => ks
def T.setField (f : String) : T → T | .mk k _ fl ks => .mk k f fl ks

@[simp] theorem T.kind_mk (k f fl ks) : (T.mk k f fl ks).kind = k := rfl
@[simp] theorem T.field_mk (k f fl ks) : (T.mk k f fl ks).field = f := rfl
@[simp] theorem T.flds_mk (k f fl ks) : (T.mk k f fl ks).flds = fl := rfl
@[simp] theorem T.kids_mk (k f fl ks) : (T.mk k f fl ks).kids = ks := rfl

def pyNone : PVal := ⟨"NoneType", ""⟩

/-- `getattr(node, name)` when it is a `str`; `""` otherwise. -/
def strOfFlds (name : String) : List Fld → String
  | [] => ""
  | f :: fs =>
    if f.name = name then
      match f.val with
      | .one (.prim v) => if v.ty = "str" then v.key else ""
      | _ => ""
    else strOfFlds name fs

def T.strAttr (t : T) (name : String) : String := strOfFlds name t.flds

/-! ### placeholder names (`_name_regex`) -/

inductive NameClass where
  | var | exp | wild | plain
  deriving DecidableEq, Repr

def isWildChars (cs : List Char) : Bool := cs = ['_', '_', '_']

/-- `^__.*__$` on an identifier. -/
def isExpChars (cs : List Char) : Bool :=
  cs.length ≥ 4 && cs.take 2 = ['_', '_'] && cs.drop (cs.length - 2) = ['_', '_']

/-- `^_[^_].*_$` on an identifier. -/
def isVarChars (cs : List Char) : Bool :=
  match cs with
  | '_' :: c :: rest => c ≠ '_' && rest ≠ [] && rest.getLast? = some '_'
  | _ => false

def nameClass (s : String) : NameClass :=
  let cs := s.toList
  if isVarChars cs then .var
  else if isExpChars cs then .exp
  else if isWildChars cs then .wild
  else .plain

/-! ### AstMap -/

inductive Tbl where
  | var | func | cls
  deriving DecidableEq, Repr, Inhabited

/-- One `AstSymbol` stored under `key` in one of the three symbol tables. -/
structure Bind where
  tbl : Tbl
  key : String
  id : String
  node : Path
  deriving DecidableEq, Repr, Inhabited

structure AstMap where
  mappings : List (Path × Path)      -- dict: pattern node ↦ student node
  exps : List (String × Path)        -- exp_table
  binds : List Bind                  -- symbol_table / func_table / class_table, in insertion order
  conflicts : List String            -- conflict_keys
  deriving DecidableEq, Repr, Inhabited

def AstMap.empty : AstMap := ⟨[], [], [], []⟩

def dictGet {κ ν} [DecidableEq κ] (k : κ) : List (κ × ν) → Option ν
  | [] => none
  | (k', v) :: rest => if k' = k then some v else dictGet k rest

/-- `d[k] = v` on an insertion-ordered dict. -/
def dictSet {κ ν} [DecidableEq κ] (k : κ) (v : ν) : List (κ × ν) → List (κ × ν)
  | [] => [(k, v)]
  | (k', v') :: rest => if k' = k then (k', v) :: rest else (k', v') :: dictSet k v rest

/-- `d.update(e)` -/
def dictUpdate {κ ν} [DecidableEq κ] (d e : List (κ × ν)) : List (κ × ν) :=
  e.foldl (fun acc kv => dictSet kv.1 kv.2 acc) d

def differs (b o : Bind) : Bool := o.key = b.key && o.id ≠ b.id

/-- `add_x_to_sym_table`: append the symbol; record the key as conflicting when some symbol stored under the
same key (in any of the three tables) names a different identifier. -/
def AstMap.addBind (m : AstMap) (b : Bind) : AstMap :=
  let binds := m.binds ++ [b]
  { m with
    binds := binds
    conflicts := if !m.conflicts.contains b.key && binds.any (differs b) then m.conflicts ++ [b.key]
                 else m.conflicts }

def AstMap.hasConflicts (m : AstMap) : Bool := !m.conflicts.isEmpty

/-- `a.new_merged_map(b)`: a fresh map, `a` merged in, then `b`. -/
def AstMap.merged (a b : AstMap) : AstMap :=
  let base : AstMap := ⟨dictUpdate a.mappings b.mappings, dictUpdate a.exps b.exps, [], []⟩
  b.binds.foldl AstMap.addBind (a.binds.foldl AstMap.addBind base)

def pairMap (pp sp : Path) : AstMap := ⟨[(pp, sp)], [], [], []⟩

/-! ### shallow matching -/

/-- `metas_match`; `pf` is the field the pattern node currently carries (its own, or `"none"` while it is
the trimmed root) -/
def metasMatch (cm : Bool) (pf : String) (s : T) : Bool :=
  (cm && pf = s.field) || !cm || pf = "none"

/-- a non-list value is wrapped in a list; the student's `None` becomes `[None]` -/
def FVal.items : FVal → List Item
  | .none => [.prim pyNone]
  | .one i => [i]
  | .many l => l

def Item.isPrim : Item → Bool
  | .prim _ => true
  | .node => false

/-- the comparison made for one zipped pair of sub-values -/
def itemOk : Item → Item → Bool
  | .prim a, .prim b => a = b
  | .prim _, .node => false
  | .node, _ => true

def zipAll {α β} (f : α → β → Bool) : List α → List β → Bool
  | a :: as, b :: bs => f a b && zipAll f as bs
  | _, _ => true

/-- one iteration of the field loop of `shallow_match_main` -/
def fieldOk (ignores : List String) (fi fs : Fld) : Bool :=
  match fi.val with
  | .none => true
  | v =>
    let ign := ignores.contains fi.name
    (fi.name = fs.name || ign) &&
    (ign ||
      (let I := v.items
       let S := fs.val.items
       !(!I.isEmpty && I.length ≠ S.length && (I ++ S).all Item.isPrim) && zipAll itemOk I S))

def shallowMainB (cm : Bool) (pf : String) (ignores : List String) (p s : T) : Bool :=
  p.flds.length = s.flds.length && p.kind = s.kind && metasMatch cm pf s &&
    zipAll (fieldOk ignores) p.flds s.flds

/-- `shallow_match_main` -/
def shallowMain (cm : Bool) (pf : String) (ignores : List String) (pp : Path) (p : T) (sp : Path) (s : T) :
    Option AstMap :=
  if shallowMainB cm pf ignores p s then some (pairMap pp sp) else none

/-- `shallow_symbol_handler` -/
def symbolHandler (cm : Bool) (pf : String) (idVal : String) (pp : Path) (p : T) (sp : Path) (s : T) :
    Option AstMap :=
  let name := p.strAttr idVal
  let mm := metasMatch cm pf s
  match nameClass name with
  | .var =>
    if mm && s.kind = p.kind then
      let sid := s.strAttr idVal
      if s.field = "func" && pf ≠ "none" then
        some ((pairMap pp sp).addBind ⟨.func, name, sid, sp.dropLast⟩)
      else
        some ((pairMap pp sp).addBind ⟨.var, name, sid, sp⟩)
    else shallowMain cm pf ["ctx"] pp p sp s
  | .exp =>
    if mm && idVal = "id" then some { pairMap pp sp with exps := [(name, sp)] }
    else shallowMain cm pf ["ctx"] pp p sp s
  | .wild =>
    if mm then some (pairMap pp sp) else shallowMain cm pf ["ctx"] pp p sp s
  | .plain => shallowMain cm pf ["ctx"] pp p sp s

/-- `shallow_match_FunctionDef` / `shallow_match_ClassDef` with `shallow_match_xDef` -/
def shallowDef (cm : Bool) (pf : String) (tbl : Tbl) (ignores : List String) (pp : Path) (p : T) (sp : Path)
    (s : T) : Option AstMap :=
  let mm := metasMatch cm pf s
  match shallowMain cm pf ignores pp p sp s with
  | none => none
  | some m =>
    if p.kind = s.kind && mm then
      let name := p.strAttr "name"
      match nameClass name with
      | .var => some (m.addBind ⟨tbl, name, s.strAttr "name", sp⟩)
      | .wild => some m
      | _ => if name = s.strAttr "name" then some m else none
    else none

/-- `shallow_match`: dispatch on the kind of the pattern node -/
def shallowMatch (cm : Bool) (pf : String) (pp : Path) (p : T) (sp : Path) (s : T) : Option AstMap :=
  if p.kind = "Module" then
    if s.kind = "Module" || s.field = "body" then some (pairMap pp sp) else none
  else if p.kind = "arg" then symbolHandler cm pf "arg" pp p sp s
  else if p.kind = "Attribute" then
    if pf = "func" && s.kind = "Attribute" then
      if s.field = "func" then symbolHandler cm pf "attr" pp p sp s else shallowMain cm pf [] pp p sp s
    else if s.kind = "Attribute" then symbolHandler cm pf "attr" pp p sp s
    else shallowMain cm pf [] pp p sp s
  else if p.kind = "Name" then symbolHandler cm pf "id" pp p sp s
  else if p.kind = "Pass" || p.kind = "Expr" then
    if metasMatch cm pf s then some (pairMap pp sp) else none
  else if p.kind = "FunctionDef" then shallowDef cm pf .func ["name", "args"] pp p sp s
  else if p.kind = "ClassDef" then shallowDef cm pf .cls ["name"] pp p sp s
  else shallowMain cm pf [] pp p sp s

/-! ### deep matching -/

/-- What `deep_find_match` decides before it looks at children. -/
inductive Dispatch where
  | done (r : List AstMap)
  | generic (ignores : List String)
  | binflex
  deriving Repr

def kidKind (ks : List T) (i : Nat) : String :=
  match ks[i]? with
  | some k => k.kind
  | none => ""

/-- `deep_find_match` + the non-recursive part of `deep_find_match_Name/_BinOp/_Expr` -/
def deepPre (cm : Bool) (pf : String) (pp : Path) (p : T) (sp : Path) (s : T) : Dispatch :=
  let mm := metasMatch cm pf s
  if p.kind = "Name" then
    let name := p.strAttr "id"
    match nameClass name with
    | .exp => if mm then .done [{ pairMap pp sp with exps := [(name, sp)] }] else .generic ["ctx"]
    | .wild => if mm then .done [pairMap pp sp] else .generic ["ctx"]
    | _ => .generic ["ctx"]
  else if p.kind = "BinOp" then
    let op := kidKind p.kids 1
    if op = "Mult" || op = "Add" then .binflex else .generic []
  else if p.kind = "Expr" then
    if !mm then .done []
    else
      match p.kids.head? with
      | some v =>
        if v.kind = "Name" then
          let name := v.strAttr "id"
          if isExpChars name.toList then .done [{ pairMap pp sp with exps := [(name, sp)] }]
          else if isWildChars name.toList then .done [pairMap pp sp]
          else .generic []
        else .generic []
      | none => .generic []
  else .generic []

/-- the student children from index `ys` on for which `f` finds something, with their index -/
def candsFrom (f : Nat → T → List AstMap) (ys : Nat) : Nat → List T → List (Nat × List AstMap)
  | _, [] => []
  | j, s :: ss =>
    (if j < ys then [] else
      let r := f j s
      if r.isEmpty then [] else [(j, r)]) ++ candsFrom f ys (j + 1) ss

/-- extensions of one base map (whose last used sibling index + 1 is `minNext`) by the candidates -/
def extendOne (b : AstMap) (minNext : Nat) (cands : List (Nat × List AstMap)) : List (AstMap × Nat) :=
  cands.flatMap fun c =>
    if c.1 ≥ minNext then
      c.2.filterMap fun r =>
        let nm := b.merged r
        if nm.hasConflicts then none else some (nm, c.1 + 1)
    else []

/-- `map_merge`; `none` is Python's `None` -/
def mapMerge (st : List (AstMap × Nat)) (cands : List (Nat × List AstMap)) : Option (List (AstMap × Nat) × Nat) :=
  match cands with
  | [] => none
  | c :: _ =>
    let new := st.flatMap fun b => extendOne b.1 b.2 cands
    if new.isEmpty then none else some (new, c.1 + 1)

/-- the two `binflex_helper` loops -/
def binflexHelper (base : AstMap) (L R : List AstMap) : List AstMap :=
  L.flatMap fun l =>
    let nm := base.merged l
    R.filterMap fun r =>
      let both := nm.merged r
      if both.hasConflicts then none else some both

mutual
/-- `deep_find_match(ins_node, std_node, check_meta)`; `pf` = the field `ins_node` carries at this moment -/
def deep (cm : Bool) (pf : String) (pp : Path) (p : T) (sp : Path) (s : T) : List AstMap :=
  match p with
  | .mk kind field flds kids =>
    match deepPre cm pf pp (.mk kind field flds kids) sp s with
    | .done r => r
    | .generic ignores =>
      match shallowMatch cm pf pp (.mk kind field flds kids) sp s with
      | none => []
      | some b => deepKids cm ignores pp 0 kids sp s [(b, 0)] 0
    | .binflex =>
      match kids with
      | [l, op, r] =>
        -- `deep_find_match_BinOp` calls `deep_find_match_binflex(ins, std, False)`: from a `+` / `*` node
        -- downwards (the node itself and everything below both operands) no AST field is compared
        match shallowMatch false pf pp (.mk kind field flds [l, op, r]) sp s with
        | none => []
        | some b =>
          match s.kids with
          | [sl, sop, sr] =>
            match shallowMatch true op.field (pp ++ [1]) op (sp ++ [1]) sop with
            | none => []
            | some o =>
              let base := b.merged o
              binflexHelper base (deep false l.field (pp ++ [0]) l (sp ++ [0]) sl) (deep false r.field (pp ++ [2]) r (sp ++ [2]) sr)
              ++ binflexHelper base (deep false l.field (pp ++ [0]) l (sp ++ [2]) sr) (deep false r.field (pp ++ [2]) r (sp ++ [0]) sl)
          | _ => []
      | _ => []

/-- the child loop of `deep_find_match_generic`: `st` pairs every base map with (last used sibling + 1) -/
def deepKids (cm : Bool) (ignores : List String) (pp : Path) (i : Nat) (kids : List T) (sp : Path) (s : T)
    (st : List (AstMap × Nat)) (youngest : Nat) : List AstMap :=
  match kids with
  | [] => st.map (·.1)
  | pc :: rest =>
    if ignores.contains pc.field then deepKids cm ignores pp (i + 1) rest sp s st youngest
    else
      match mapMerge st (candsFrom (fun j sj => deep cm pc.field (pp ++ [i]) pc (sp ++ [j]) sj) youngest 0 s.kids) with
      | none => []
      | some (st', y') => deepKids cm ignores pp (i + 1) rest sp s st' y'
end

mutual
/-- `any_node_match` -/
def anyNode (pf : String) (pp : Path) (p : T) (sp : Path) (s : T) : List AstMap :=
  match s with
  | .mk k f fl kids => deep true pf pp p sp (.mk k f fl kids) ++ anyKids pf pp p sp 0 kids
def anyKids (pf : String) (pp : Path) (p : T) (sp : Path) (j : Nat) (kids : List T) : List AstMap :=
  match kids with
  | [] => []
  | c :: cs => anyNode pf pp p (sp ++ [j]) c ++ anyKids pf pp p sp (j + 1) cs
end

/-- root trimming of `find_matches`: descend through single-child `Module` / `Expr` nodes; the node
reached has its field replaced by `"none"` while matching runs. -/
def trimGo : T → Path → T × Path
  | .mk k f fl [c], path =>
    if k = "Expr" || k = "Module" then trimGo c (path ++ [0]) else (.mk k f fl [c], path)
  | t, path => (t, path)

def trimRoot (t : T) : T × Path :=
  let r := trimGo t []
  if r.2.isEmpty then r else (r.1.setField "none", r.2)

/-- the field the (trimmed) pattern root carries during matching -/
def rootField (p : T) : String :=
  if (trimGo p []).2.isEmpty then p.field else "none"

/-- `find_matches(pattern, code)`: every match with its `match_root`. -/
def findMatches (p s : T) : List (AstMap × Option Path) :=
  let pr := trimGo p []
  let sr := trimRoot s
  (anyNode (rootField p) pr.2 pr.1 sr.2 sr.1).map fun m => (m, dictGet pr.2 m.mappings)

end Pedal.Cait

import PedalModel.Wire
import PedalModel.Gen.SandboxIOGen
/-
C15 — executable model of the sandbox's output / input bookkeeping.

Anchors (pedal/sandbox/sandbox.py): `_execute` + `_start_mocking` / `_stop_mocking`
(a fresh StringIO per execution, appended on stop), `append_output`, `clear_output`,
`set_input` / `clear_input` (+ `commands.queue_input` = `set_input(tuple, clear=False)`,
the `inputs=` argument of `run` / `call` = `set_input(inputs)` before executing),
`_track_inputs._input_tracker`, `SandboxContext.output / .inputs` (pedal/sandbox/data.py).

Strings are `List Char` so every statement is a `List` statement; `rstrip`, `splitNL` and
`isPySpace` are my own definitions and are compared with `str.rstrip`, `str.split("\n")`
and `str.isspace` (the latter over every code point) by the correspondence.

A student execution is abstracted to the trace of what it did to standard I/O:
`write text` (print in any form, sys.stdout.write — `text` is exactly what reached the
stream), `read prompt` (a call of `input`) and `readKept prompt` (a call of an `input` that an
earlier execution handed out and student code kept).  The condition under which `append_output` touches the
line view (a boolean expression, `GuardExpr`), the end of the queue the mocked `input`
pops, the default input and WHEN the mocked `input` resolves the queue (at each call / when
it is created) are read from the source - and measured on a fresh sandbox -
by harness/translate_sandboxio.py (`PedalModel/Gen/SandboxIOGen.lean`).
-/
namespace Pedal.SandboxIO
open Pedal.Gen.SandboxIO

abbrev Str := List Char

/-- `str.isspace` for one code point (CPython 3.12's `_PyUnicode_IsWhitespace`). -/
def isPySpace (c : Char) : Bool :=
  let n := c.toNat
  (9 ≤ n && n ≤ 13) || (28 ≤ n && n ≤ 32) || n == 0x85 || n == 0xa0 || n == 0x1680 ||
  (0x2000 ≤ n && n ≤ 0x200a) || n == 0x2028 || n == 0x2029 || n == 0x202f || n == 0x205f ||
  n == 0x3000

/-- `str.rstrip()` -/
def rstrip (s : Str) : Str := (s.reverse.dropWhile isPySpace).reverse

/-- `str.split("\n")` (never returns the empty list). -/
def splitNL : Str → List Str
  | [] => [[]]
  | c :: cs =>
    if c = '\n' then [] :: splitNL cs
    else match splitNL cs with
      | [] => [[c]]
      | l :: ls => (c :: l) :: ls

/-- the entries one execution's text contributes to the line view -/
def linesOf (text : Str) : List Str := (splitNL (rstrip text)).map rstrip

/-- What student code does to standard I/O, in order.  Student code can keep what an execution
gave it and use it in a later one (`ask = input`, a helper module imported by an earlier execution,
a generator created in one execution and advanced in the next): `readKept` is a call of `input`
through such a reference, i.e. of the tracker function an EARLIER execution installed.  (A kept
`print` is CPython's own `print`, which looks `sys.stdout` up when it is called: it is a `write`.) -/
inductive Event where
  | write (text : Str)
  | read (prompt : Str)
  | readKept (prompt : Str)
  deriving Repr

/-- The callables the harness installs with `set_input(callable)`. -/
inductive Callable where
  | prefixC   -- lambda prompt: "C" + prompt
  | constK    -- lambda prompt: "k"
  deriving Repr, DecidableEq

def Callable.apply : Callable → Str → Str
  | .prefixC, p => 'C' :: p
  | .constK, _ => ['k']

/-- `Sandbox.inputs`: a list, or whatever non-list object `set_input` was given. -/
inductive InputSrc where
  | queue (q : List Str)
  | callable (f : Callable)
  deriving Repr

def InputSrc.isCallable : InputSrc → Bool
  | .queue _ => false
  | .callable _ => true

/-- The `inputs` argument of `set_input` (ints/floats/bools arrive as their `str`). -/
inductive InputArg where
  | none
  | one (s : Str)
  | many (l : List Str)
  | callable (f : Callable)
  deriving Repr

/-- `Sandbox.set_input(inputs, clear)`; `none` = it raises (AttributeError: the installed
callable has no `clear` / `append` / `extend`) before changing anything. -/
def setInput (src : InputSrc) (a : InputArg) (clear : Bool) : Option InputSrc :=
  -- `if inputs is None: self.inputs = []`
  let src1 := match a with
    | .none => InputSrc.queue []
    | _ => src
  -- `if clear: self.inputs.clear()`
  let src2 : Option InputSrc :=
    if clear then
      match src1 with
      | .queue _ => some (.queue [])
      | .callable _ => Option.none
    else some src1
  match src2 with
  | Option.none => Option.none
  | some src2 =>
    match a, src2 with
    | .none, s => some s
    | .one x, .queue q => some (.queue (q ++ [x]))
    | .one _, .callable _ => Option.none
    | .many l, .queue q => some (.queue (q ++ l))
    | .many _, .callable _ => Option.none
    | .callable f, _ => some (.callable f)

/-- Result of letting student code run: the input source afterwards, what its StringIO
holds, and the values `input()` returned (flag: popped from the queue). -/
structure Res where
  src : InputSrc
  buf : Str
  got : List (Str × Bool)
  deriving Repr

def Res.out (t : Str) (r : Res) : Res := { r with buf := t ++ r.buf }
def Res.inp (v : Str × Bool) (r : Res) : Res := { r with got := v :: r.got }

def defaultStr : Str :=
  if defaultKnown then defaultInput.toList else "\x00<unknown default>".toList

/-- pop according to the translated end of the queue -/
def popQueue : List Str → Option (Str × List Str)
  | [] => Option.none
  | x :: q =>
    match popEnd with
    | .front => some (x, q)
    | .back => ((x :: q).getLast?).map fun y => (y, (x :: q).dropLast)
    | .unknown => Option.none

/-- what a tracker that does NOT look the queue up at call time serves: some object the model does not
follow (the obligation `lookup_at_call` rules this case out; the sentinel makes the correspondence
disagree on every kept read if it is ever executed) -/
def staleStr : Str := "\x00<value from a stale queue object>".toList

/-- a tracker kept from an earlier execution behaves exactly like the one installed now iff it resolves
the sandbox's queue at each call (translated + measured fact `queueLookup`) -/
def keptIsLive : Bool :=
  match queueLookup with
  | .atCall => true
  | _ => false

/-- `_input_tracker` for every `read` / `readKept`, `StringIO.write` for every `write`. -/
def runEvents : InputSrc → List Event → Res
  | src, [] => { src := src, buf := [], got := [] }
  | src, .write t :: es => (runEvents src es).out t
  | .callable f, .readKept p :: es =>
    if keptIsLive then (runEvents (.callable f) es).inp (f.apply p, false)
    else ((runEvents (.callable f) es).inp (staleStr, false)).out (p ++ ['\n'])
  | .queue q, .readKept p :: es =>
    if keptIsLive then
      match popQueue q with
      | some (x, q') => ((runEvents (.queue q') es).inp (x, true)).out (p ++ ['\n'])
      | Option.none => ((runEvents (.queue q) es).inp (defaultStr, false)).out (p ++ ['\n'])
    else ((runEvents (.queue q) es).inp (staleStr, false)).out (p ++ ['\n'])
  | .callable f, .read p :: es => (runEvents (.callable f) es).inp (f.apply p, false)
  | .queue q, .read p :: es =>
    match popQueue q with
    | some (x, q') => ((runEvents (.queue q') es).inp (x, true)).out (p ++ ['\n'])
    | Option.none => ((runEvents (.queue q) es).inp (defaultStr, false)).out (p ++ ['\n'])

structure Ctx where
  output : Str
  inputs : List Str
  deriving Repr

structure St where
  raw : Str
  lines : List Str
  inputs : InputSrc
  contexts : List Ctx
  deriving Repr

def init : St := { raw := [], lines := [], inputs := .queue [], contexts := [] }

/-- Value of the translated guard expression on one call of `append_output`:
`prior` / `own` = the raw output before the call / the text of this execution is non-empty
(`acc`, the raw output after `+=`, is non-empty iff one of them is).  `none`: the expression
contains something the translator did not understand. -/
def evalGuard : GuardExpr → Bool → Bool → Option Bool
  | .own, _, o => some o
  | .prior, p, _ => some p
  | .acc, p, o => some (p || o)
  | .const b, _, _ => some b
  | .not e, p, o => (evalGuard e p o).map (!·)
  | .and a b, p, o =>
    match evalGuard a p o, evalGuard b p o with
    | some x, some y => some (x && y)
    | _, _ => Option.none
  | .or a b, p, o =>
    match evalGuard a p o, evalGuard b p o with
    | some x, some y => some (x || y)
    | _, _ => Option.none
  | .unknown, _, _ => Option.none

/-- does `append_output` touch the line view (raw output so far `prior`, this execution's text `own`) -/
def guardHolds (prior own : Str) : Bool :=
  (evalGuard appendGuard (!prior.isEmpty) (!own.isEmpty)).getD false

/-- `Sandbox.append_output(raw_output, context)` (the context is created by `_execute`). -/
def appendOutput (s : St) (text : Str) (got : List Str) : St :=
  { s with
    raw := s.raw ++ text
    contexts := s.contexts ++ [{ output := text, inputs := got }]
    lines := if guardHolds s.raw text then s.lines ++ linesOf text else s.lines }

inductive Op where
  | exec (pre : Option InputArg) (trace : List Event)   -- run / call / evaluate (`inputs=` argument)
  | clearOutput
  | setInput (a : InputArg) (clear : Bool)
  | queueInput (vs : List Str)
  | clearInput
  deriving Repr

/-- the input source in force when the student code of an `exec` starts (`none`: the
`inputs=` argument made `set_input` raise, nothing is executed) -/
def execSrc (src : InputSrc) : Option InputArg → Option InputSrc
  | Option.none => some src
  | some a => setInput src a true

/-- One operation; `none` = the operation raised and changed nothing. -/
def stepE (s : St) : Op → Option St
  | .exec pre tr =>
    match execSrc s.inputs pre with
    | Option.none => Option.none
    | some src =>
      let r := runEvents src tr
      some (appendOutput { s with inputs := r.src } r.buf (r.got.map Prod.fst))
  | .clearOutput => some { s with raw := [], lines := [] }
  | .setInput a clear => (setInput s.inputs a clear).map fun i => { s with inputs := i }
  | .queueInput vs => (setInput s.inputs (.many vs) false).map fun i => { s with inputs := i }
  | .clearInput => (setInput s.inputs .none true).map fun i => { s with inputs := i }

def step (s : St) (op : Op) : St := (stepE s op).getD s

def run (s : St) (ops : List Op) : St := ops.foldl step s

/-! ### line protocol -/
open Pedal.Wire

def decS (tok : String) : Option Str := (decStr tok).map String.toList
def encS (s : Str) : String := encStr (String.ofList s)

def parseStrs (n : Nat) (ts : List String) : Option (List Str × List String) :=
  takeN (fun ts => match ts with
    | t :: ts => (decS t).map (·, ts)
    | [] => Option.none) n ts

def parseCallable (t : String) : Option Callable :=
  if t = "0" then some .prefixC else if t = "1" then some .constK else Option.none

/-- `n` | `o <str>` | `m <k> <str>*k` | `c <id>` -/
def parseArg : List String → Option (InputArg × List String)
  | "n" :: ts => some (.none, ts)
  | "o" :: t :: ts => (decS t).map (InputArg.one ·, ts)
  | "m" :: k :: ts => do
    let k ← k.toNat?
    let (l, ts) ← parseStrs k ts
    pure (.many l, ts)
  | "c" :: t :: ts => (parseCallable t).map (InputArg.callable ·, ts)
  | _ => Option.none

def parseEvent : List String → Option (Event × List String)
  | "w" :: t :: ts => (decS t).map (Event.write ·, ts)
  | "r" :: t :: ts => (decS t).map (Event.read ·, ts)
  | "rk" :: t :: ts => (decS t).map (Event.readKept ·, ts)
  | _ => Option.none

/-- `E (-|<arg>) <nev> ev*` | `C` | `S <0/1> <arg>` | `Q <k> str*` | `I` -/
def parseOp : List String → Option (Op × List String)
  | "E" :: "-" :: n :: ts => do
    let n ← n.toNat?
    let (evs, ts) ← takeN parseEvent n ts
    pure (.exec Option.none evs, ts)
  | "E" :: ts => do
    let (a, ts) ← parseArg ts
    match ts with
    | n :: ts =>
      let n ← n.toNat?
      let (evs, ts) ← takeN parseEvent n ts
      pure (.exec (some a) evs, ts)
    | [] => Option.none
  | "C" :: ts => some (.clearOutput, ts)
  | "S" :: c :: ts => do
    let c ← decBool c
    let (a, ts) ← parseArg ts
    pure (.setInput a c, ts)
  | "Q" :: k :: ts => do
    let k ← k.toNat?
    let (l, ts) ← parseStrs k ts
    pure (.queueInput l, ts)
  | "I" :: ts => some (.clearInput, ts)
  | _ => Option.none

def encList (l : List Str) : String := ",".intercalate (l.map encS)

def encSrc : InputSrc → String
  | .queue q => "q:" ++ encList q
  | .callable .prefixC => "c:0"
  | .callable .constK => "c:1"

/-- observation after one op: `err;raw;lines;inputs;nctx;lastOutput;lastInputs` -/
def encObs (err : Bool) (s : St) : String :=
  let last := s.contexts.getLast?
  ";".intercalate [encBool err, encS s.raw, encList s.lines, encSrc s.inputs, toString s.contexts.length,
    (last.map fun c => encS c.output).getD "-", (last.map fun c => encList c.inputs).getD "-"]

def observe : St → List Op → List String
  | _, [] => []
  | s, op :: ops =>
    let s' := step s op
    encObs (stepE s op).isNone s' :: observe s' ops

/-- `hist <nops> op*` → one observation per op, then every context (`out/in,in`) of the final state. -/
def handleHist (ts : List String) : String :=
  match ts with
  | n :: ts =>
    match (do
      let n ← n.toNat?
      let (ops, ts) ← takeN parseOp n ts
      if ts.isEmpty then pure ops else Option.none) with
    | some ops =>
      let fin := run init ops
      "ok " ++ " ".intercalate (observe init ops) ++ " | " ++
        " ".intercalate (fin.contexts.map fun c => encS c.output ++ "/" ++ encList c.inputs)
    | Option.none => "bad-request"
  | _ => "bad-request"

/-- `lines <str>` → `linesOf`; `rstrip <str>`; `split <str>` -/
def handleLines : List String → String
  | [t] => match decS t with
    | some s => "ok " ++ encList (linesOf s)
    | Option.none => "bad-request"
  | _ => "bad-request"

def handleRstrip : List String → String
  | [t] => match decS t with
    | some s => "ok " ++ encS (rstrip s)
    | Option.none => "bad-request"
  | _ => "bad-request"

def handleSplit : List String → String
  | [t] => match decS t with
    | some s => "ok " ++ encList (splitNL s)
    | Option.none => "bad-request"
  | _ => "bad-request"

/-- `spaces <lo> <hi>` → the code points in [lo, hi) the model treats as whitespace -/
def handleSpaces : List String → String
  | [lo, hi] => match lo.toNat?, hi.toNat? with
    | some lo, some hi =>
      "ok " ++ ",".intercalate (((List.range (hi - lo)).map (· + lo)).filterMap fun n =>
        if Nat.isValidChar n ∧ isPySpace (Char.ofNat n) then some (toString n) else Option.none)
    | _, _ => "bad-request"
  | _ => "bad-request"

end Pedal.SandboxIO

import PedalModel.Sections
import PedalModel.Gen.SectionsProgram
/-
`next_section` with its arithmetic taken from the program that `harness/translate_sections.py` regenerates from
pedal/source/sections.py on every run (`Pedal.Gen.Sections.program`).  `runG` is what the driver executes;
`PedalProofs/SectionsIRLemmas.lean` proves `nextG program s = some (step s .next)` for every state, so the C17
theorems (stated about `step` / `run`) are theorems about the translated code.
-/
namespace Pedal.Sections
open Pedal.SectionsIR

/-- `section_number` / `found`: `_calculate_section_number(<arg>)` evaluated through the translated program. -/
def numberVia (p : Program) (arg : AExp) (env : Env) : Option Int :=
  (arg.eval env).bind fun a => p.numberOf.eval { env with param := a }

/-- The existence test `if <left> <cmp> <right>:`. -/
def guardVia (p : Program) (env : Env) : Option Bool :=
  (p.guardLeft.eval env).bind fun l => (p.guardRight.eval env).bind fun r => p.guardCmp.eval l r

/-- `next_section` over a translated program.  Outer `none`: the program was not understood;
    inner `none`: the real code raises (IndexError on an empty substitution stack). -/
def nextG (p : Program) (s : St) : Option (Option St) :=
  if !(p.shapeOk && p.restoresMainFirst) then none else
  match s.subs.getLast? with
  | none => some none
  | some old =>
    let env0 : Env := { idx := s.idx, len := s.sections.length, nl := 0, number := 0, found := 0, param := 0 }
    (p.increment.eval env0).bind fun inc =>
    let env1 : Env := { env0 with idx := (s.idx : Int) + inc }
    (numberVia p p.numberArg env1).bind fun number =>
    (numberVia p p.foundArg env1).bind fun found =>
    let env2 : Env := { env1 with number := number, found := found }
    (guardVia p env2).bind fun exists_ =>
    if exists_ then
      if s.independent then
        (p.indepIndex.eval env2).bind fun i =>
        (p.indepOldStop.eval env2).bind fun stop =>
        (p.indepOffset.eval { env2 with nl := countNL (concat (s.sections.take stop.toNat)) }).bind fun off =>
        some (some { s with idx := env2.idx.toNat, main := (s.sections[i.toNat]?).getD [], offset := off.toNat })
      else
        (p.cumulStop.eval env2).bind fun stop =>
        some (some { s with idx := env2.idx.toNat, main := concat (s.sections.take stop.toNat) })
    else
      (p.notEnoughFirst.eval env2).bind fun a =>
      (p.notEnoughSecond.eval env2).bind fun b =>
      some (some { s with idx := env2.idx.toNat, main := old, notEnough := s.notEnough ++ [(a.toNat, b.toNat)] })

/-- What a translated program must satisfy to be the hand model's `.next` step: every extracted expression,
    evaluated on an ARBITRARY environment of non-negative values, has the closed form the model uses.  Each field
    is discharged for the generated program by `simp` + `omega` (for all indices and lengths), so equivalent
    rewrites of the arithmetic still satisfy it. -/
structure Agrees (p : Program) : Prop where
  shape : p.shapeOk = true ∧ p.restoresMainFirst = true
  inc : ∀ env : Env, p.increment.eval env = some 2
  number : ∀ env : Env, 0 ≤ env.idx → numberVia p p.numberArg env = some ((env.idx + 1) / 2)
  found : ∀ env : Env, 0 ≤ env.len → numberVia p p.foundArg env = some (env.len / 2)
  guard : ∀ env : Env, guardVia p env = some (decide (env.number ≤ env.found))
  indepIndex : ∀ env : Env, p.indepIndex.eval env = some env.idx
  indepOldStop : ∀ env : Env, p.indepOldStop.eval env = some env.idx
  indepOffset : ∀ env : Env, p.indepOffset.eval env = some env.nl
  cumulStop : ∀ env : Env, p.cumulStop.eval env = some (env.idx + 1)
  notEnoughFirst : ∀ env : Env, p.notEnoughFirst.eval env = some env.number
  notEnoughSecond : ∀ env : Env, p.notEnoughSecond.eval env = some env.found

/-- One API call over the translated program; outer `none` = not understood. -/
def stepG (s : St) : Op → Option (Option St)
  | .next => nextG Gen.Sections.program s
  | op => some (step s op)

def runG (s : St) : List Op → Option (Option St)
  | [] => some (some s)
  | op :: ops =>
    match stepG s op with
    | none => none
    | some none => some none
    | some (some s') => runG s' ops

open Pedal.Wire in
def handleG : List String → String
  | text :: ops =>
    match decStr text, ops.mapM parseOp with
    | some t, some ops =>
      match runG { main := t.toList } ops with
      | some (some s) => encSt s
      | some none => "raise"
      | none => "unmodelled-next-section"
    | _, _ => "bad-request"
  | _ => "bad-request"

end Pedal.Sections

import PedalModel.Wire
import PedalModel.Gen.ResolverTables
/-
Executable model of pedal's default resolver:
  pedal/resolvers/simple.py  (by_priority, priority_offset, resolve)
  pedal/core/final_feedback.py (FinalFeedback.merge / finalize, set_correct_no_errors)
  pedal/core/report.py (Report.suppress)
  pedal/core/scoring.py (Score.parse, add_to_current, combine_scores) for the `+ - %` grammar.

Core Lean only (no Mathlib) so that the driver links as a native executable.
The rank table, aliases, offsets and constants come from `PedalModel.Gen.ResolverTables`,
regenerated from the source tree on every run.
-/
namespace Pedal.Resolver
open Pedal.Gen.Resolver

/-- What the resolver reads of a `Feedback` object, after `_handle_condition`. -/
structure Fb where
  uid : Nat                       -- creation index (reporting only)
  label : String
  category : Option String
  priority : Option String
  kind : Option String
  muted : Bool                    -- truthiness of `muted`
  unscored : Bool                 -- truthiness of `unscored`
  triggered : Bool                -- `bool(feedback)`
  elseMsg : Bool                  -- truthiness of `else_message`
  message : Option String
  title : Option String
  correct : Bool                  -- truthiness of `correct`
  negative : Bool                 -- `valence == NEGATIVE_VALENCE`
  score : Option String           -- `f"{score}"` when `score is not None`
  fields : List (String × String) -- field name ↦ canonical encoding of the value
  deriving Repr, BEq, DecidableEq

/-- One call `report.suppress(category, label, fields)`; `label = none` is `True`. -/
structure Sup where
  category : Option String
  label : Option String
  fields : List (String × String)
  deriving Repr, BEq, DecidableEq

def lookupAlias (p : String) : String :=
  match aliases.lookup p with
  | some q => q
  | none => p

def rankOf (s : String) : Option Nat :=
  let i := categoryPriority.idxOf s
  if i < categoryPriority.length then some i else none

def offset (p : String) : Nat :=
  if p = "low" then offLow
  else if p = "medium" then offMedium
  else if p = "high" then offHigh
  else offOther

/-- Lower-cased category as both `by_priority` and `merge` compute it (None ↦ uncategorized). -/
def Fb.cat (f : Fb) : String :=
  match f.category with
  | none => unknownCategory
  | some c => c.toLower

/-- Rank of the feedback's own category (unknown categories rank after the table). -/
def catRank (f : Fb) : Nat :=
  match rankOf f.cat with
  | some i => i
  | none => categoryPriority.length

/-- The priority string `by_priority` works with (default medium, lower-cased, aliased). -/
def Fb.prio (f : Fb) : String :=
  match f.priority with
  | none => "medium"
  | some p => lookupAlias p.toLower

/-- `by_priority`, times ten (offsets are tenths). -/
def key (f : Fb) : Nat :=
  match rankOf f.prio with
  | some i => i * 10 + offset "medium"
  | none => catRank f * 10 + offset f.prio

/-- `Report.suppress` normalisation of one call. -/
def Sup.norm (s : Sup) : Sup :=
  match s.category with
  | none => s
  | some c => { category := some (lookupAlias c.toLower), label := s.label.map String.toLower, fields := s.fields }

/-- Every wanted (field, value) is present with an equal value. -/
def fieldsMatch (want have_ : List (String × String)) : Bool :=
  want.all fun kv => have_.lookup kv.1 == some kv.2

/-- First suppression block of `merge` (category, category+label(+fields)); `sups` normalised. -/
def catSuppressed (sups : List Sup) (f : Fb) : Bool :=
  let mine := sups.filter fun s => s.category == some f.cat
  if mine.any (fun s => s.label.isNone) then true
  else mine.any fun s => s.label == some f.label.toLower && fieldsMatch s.fields f.fields

/-- Second suppression block (label(+fields), exact label). -/
def labelSuppressed (sups : List Sup) (f : Fb) : Bool :=
  sups.any fun s => s.category.isNone && s.label == some f.label && fieldsMatch s.fields f.fields

def suppressed (sups : List Sup) (f : Fb) : Bool :=
  catSuppressed sups f || labelSuppressed sups f

/-- `feedback.title or feedback.label`. -/
def Fb.shownTitle (f : Fb) : String :=
  match f.title with
  | some t => if t.isEmpty then f.label else t
  | none => f.label

/-! ### Scores -/

inductive ScoreOp | plus | minus | times | divide
  deriving Repr, BEq, DecidableEq

/-- Parsed score: inversion, operator, value = mant / 10^decimals (after the percent division). -/
structure ScoreTok where
  invert : Bool
  op : ScoreOp
  mant : Nat
  decimals : Nat
  deriving Repr, BEq, DecidableEq

def isDigitOrDot (c : Char) : Bool := c.isDigit || c == '.'

def digitsVal (cs : List Char) : Nat :=
  cs.foldl (fun acc c => acc * 10 + (c.toNat - '0'.toNat)) 0

/-- `float(text)` for a run of digits and dots; `none` = ValueError. -/
def parseDecimal (cs : List Char) : Option (Nat × Nat) :=
  let ip := cs.takeWhile Char.isDigit
  let rest := cs.dropWhile Char.isDigit
  match rest with
  | [] => if ip.isEmpty then none else some (digitsVal ip, 0)
  | '.' :: fr =>
    if fr.all Char.isDigit && !(ip.isEmpty && fr.isEmpty) then some (digitsVal (ip ++ fr), fr.length) else none
  | _ => none

/-- `Score.parse` on SCORE_PATTERN (bangs, optional operator out of plus minus slash star,
    a run of digits and dots, optional percent sign, leftovers); `none` = ValueError. -/
def parseScore (s : String) : Option ScoreTok :=
  let cs := s.toList
  let bangs := cs.takeWhile (· == '!')
  let cs := cs.dropWhile (· == '!')
  let (op, cs) := match cs with
    | '+' :: r => (ScoreOp.plus, r)
    | '-' :: r => (ScoreOp.minus, r)
    | '*' :: r => (ScoreOp.times, r)
    | '/' :: r => (ScoreOp.divide, r)
    | r => (ScoreOp.plus, r)
  let num := cs.takeWhile isDigitOrDot
  let rest := cs.dropWhile isDigitOrDot
  if num.isEmpty then none else
  match parseDecimal num with
  | none => none
  | some (m, d) =>
    let pct := match rest with | '%' :: _ => true | _ => false
    some { invert := bangs.length % 2 == 1, op := op, mant := m, decimals := if pct then d + 2 else d }

/-- Scale of exact score arithmetic: millionths. -/
def scaleDigits : Nat := 6

/-- Contribution of one token in millionths; `none` when outside the modelled grammar
    (`*`, `/`, or more than six decimals). -/
def ScoreTok.contrib (t : ScoreTok) : Option Int :=
  if t.decimals > scaleDigits then none else
  let v : Int := (t.mant * 10 ^ (scaleDigits - t.decimals) : Nat)
  match t.op with
  | .plus => some (if t.invert then 0 else v)
  | .minus => some (if t.invert then 0 else -v)
  | _ => none

/-- Outcome of `round(total, 2)`, in hundredths. `tie` = exactly between two hundredths
    (Python's answer then depends on the binary expansion; not modelled). -/
inductive Rounded | exact (h : Int) | nearest (h : Int) | tie
  deriving Repr, BEq, DecidableEq

def roundHundredths (total : Int) : Rounded :=
  let q := total / 10000      -- `Int` `/` and `%` are Euclidean: 0 ≤ r < 10000
  let r := total % 10000
  if r = 0 then .exact q
  else if r = 5000 then .tie
  else if r < 5000 then .nearest q else .nearest (q + 1)

/-! ### merge / finalize / resolve -/

structure Final where
  correct : Bool := true
  message : Option String := none
  title : Option String := none
  category : Option String := some completeCategory
  label : String := defaultLabel
  used : Option Fb := none
  scores : List (Bool × String) := []   -- (inverted?, text) in merge order
  positives : List Nat := []
  deriving Repr

/-- `invert_logic = ((valence != NEGATIVE) == (not feedback))`. -/
def invertLogic (f : Fb) : Bool := (!f.negative) == (!f.triggered)

/-- Does `merge` append this feedback's score (given it was not suppressed)? -/
def scored (f : Fb) : Bool := !f.unscored && f.score.isSome

/-- `FinalFeedback.merge`, minus the `Score.parse` failure which `resolve` checks up front. -/
def merge (sups : List Sup) (st : Final) (f : Fb) : Final :=
  if suppressed sups f then st else
  let st := if scored f then { st with scores := st.scores ++ [(invertLogic f, f.score.getD "")] } else st
  if !f.triggered && f.elseMsg then { st with positives := st.positives ++ [f.uid] } else
  if !f.triggered || f.muted then st else
  if f.kind == some complimentKind then { st with positives := st.positives ++ [f.uid] } else
  let st := { st with correct := f.correct && st.correct }
  match f.message, st.message with
  | some m, none =>
    { st with message := some m, title := some f.shownTitle, category := f.category, label := f.label, used := some f }
  | _, _ => st

structure Result where
  label : String
  title : String
  message : String
  category : Option String
  correct : Bool
  score : Option Rounded      -- `none`: a score outside the modelled grammar
  used : Option Fb
  positives : List Nat
  isDefault : Bool            -- the "complete" branch of finalize was taken
  deriving Repr

def scoreText (p : Bool × String) : String := (if p.1 then "!" else "") ++ p.2

def combine (scores : List (Bool × String)) : Option Rounded :=
  let toks := scores.map fun p => (parseScore (scoreText p)).bind ScoreTok.contrib
  if toks.all Option.isSome then
    some (roundHundredths ((toks.map fun o => o.getD 0).foldl (· + ·) 0))
  else none

/-- `suppressions.get('correct', suppressions.get('success', False))`, truthiness. -/
def hideCorrectness (sups : List Sup) : Bool :=
  sups.any fun s => s.category == some "correct" || s.category == some "success"

def finalize (sups : List Sup) (st : Final) : Result :=
  let title := match st.message with | none => noFeedbackTitle | some _ => st.title.getD ""
  let message := st.message.getD noFeedbackMessage
  if !hideCorrectness sups && st.label == defaultLabel && st.category == some completeCategory
      && st.used.isNone then
    { label := st.label, title := completeTitle, message := completeMessage, category := st.category,
      correct := true, score := some (.exact 100), used := st.used, positives := st.positives, isDefault := true }
  else
    { label := st.label, title := title, message := message, category := st.category,
      correct := st.correct, score := combine st.scores, used := st.used, positives := st.positives,
      isDefault := false }

/-- `feedbacks = report.feedback + report.ignored_feedback; feedbacks.sort(key=by_priority)`. -/
def ordered (fs : List Fb) : List Fb :=
  (fs.filter (·.triggered) ++ fs.filter (!·.triggered)).mergeSort fun a b => key a ≤ key b

/-- Does `Score.parse` raise for some feedback whose score `merge` reads? -/
def badScore (sups : List Sup) (fs : List Fb) : Bool :=
  fs.any fun f => !suppressed sups f && scored f &&
    (parseScore (scoreText (invertLogic f, f.score.getD ""))).isNone

/-- `pedal.resolvers.simple.resolve`; `sups` are the raw `suppress` calls. -/
def resolve (fs : List Fb) (rawSups : List Sup) : Except String Result :=
  let sups := rawSups.map Sup.norm
  if badScore sups fs then .error "ValueError" else
  .ok (finalize sups ((ordered fs).foldl (merge sups) {}))

/-! ### Wire format -/
open Pedal.Wire

def parseFields : List String → Option (List (String × String) × List String)
  | n :: ts => do
    let n ← n.toNat?
    takeN (fun ts => match ts with
      | k :: v :: r => do pure ((← decStr k, ← decStr v), r)
      | _ => none) n ts
  | _ => none

def parseFb : List String → Option (Fb × List String)
  | uid :: label :: cat :: prio :: kind :: muted :: unscored :: trig :: els :: msg :: title :: correct :: neg :: score :: ts => do
    let (fields, ts) ← parseFields ts
    pure ({ uid := ← uid.toNat?, label := ← decStr label, category := ← decOptStr cat, priority := ← decOptStr prio,
            kind := ← decOptStr kind, muted := ← decBool muted, unscored := ← decBool unscored,
            triggered := ← decBool trig, elseMsg := ← decBool els, message := ← decOptStr msg,
            title := ← decOptStr title, correct := ← decBool correct, negative := ← decBool neg,
            score := ← decOptStr score, fields := fields }, ts)
  | _ => none

def parseSup : List String → Option (Sup × List String)
  | cat :: label :: ts => do
    let (fields, ts) ← parseFields ts
    let label ← if label = "T" then some none else (decStr label).map some
    pure ({ category := ← decOptStr cat, label := label, fields := fields }, ts)
  | _ => none

def encRounded : Option Rounded → String
  | none => "unmodelled"
  | some (.exact h) => s!"e{h}"
  | some (.nearest h) => s!"n{h}"
  | some .tie => "tie"

def encResult : Except String Result → String
  | .error e => s!"err kind={e}"
  | .ok r =>
    let used := match r.used with | some f => toString f.uid | none => "-"
    let pos := String.intercalate "," (r.positives.map toString)
    s!"ok label={encStr r.label} title={encStr r.title} message={encStr r.message} category={encOptStr r.category} correct={encBool r.correct} score={encRounded r.score} used={used} positives=[{pos}] default={encBool r.isDefault}"

/-- Request: `<nFb> <nSup> fb… sup…`. -/
def handle (ts : List String) : String :=
  match ts with
  | nf :: ns :: ts =>
    match (do
      let nf ← nf.toNat?
      let ns ← ns.toNat?
      let (fs, ts) ← takeN parseFb nf ts
      let (ss, ts) ← takeN parseSup ns ts
      if ts.isEmpty then pure (fs, ss) else none) with
    | some (fs, ss) => encResult (resolve fs ss)
    | none => "bad-request"
  | _ => "bad-request"

/-- `key` alone: `<fb>` → decimal key. -/
def handleKey (ts : List String) : String :=
  match parseFb ts with
  | some (f, []) => toString (key f)
  | _ => "bad-request"

/-- `Score.parse` alone: `<x-string>` → token. -/
def handleScore (ts : List String) : String :=
  match ts with
  | [s] => match decStr s with
    | some s => match parseScore s with
      | none => "err"
      | some t => s!"ok invert={encBool t.invert} op={repr t.op} mant={t.mant} dec={t.decimals}"
    | none => "bad-request"
  | _ => "bad-request"

end Pedal.Resolver

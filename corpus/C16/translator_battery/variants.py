from vbase import variant, rep
import re

# ---------------- harmless ----------------
@variant
def h_generic_binary_helper(s):
    """all forward arithmetic dunders go through one private method taking an operator function"""
    s = rep(s, "import math\n", "import math\nimport operator\n")
    s = rep(s, "ASSIGNABLE_ATTRS = ['value', '_actual_context_id', '_actual_sandbox',\n                        '_clone_this_result']",
            "ASSIGNABLE_ATTRS = ['value', '_actual_context_id', '_actual_sandbox',\n                        '_clone_this_result', '_forward', '_reflect']")
    s = rep(s, "    def __repr__(self):", '''    def _forward(self, operation, other):
        mine, theirs = _unwrap_value_pair(self, other)
        return self._clone_this_result(operation(mine, theirs))

    def _reflect(self, operation, other):
        mine, theirs = _unwrap_value_pair(self, other)
        answer = operation(theirs, mine)
        return self._clone_this_result(answer)

    def __repr__(self):''')
    for d, op in [("add", "add"), ("sub", "sub"), ("mul", "mul"), ("truediv", "truediv"), ("and", "and_"), ("or", "or_"), ("lshift", "lshift")]:
        s = re.sub(r"(    def __%s__\(self, other\):\n)        left, right = _unwrap_value_pair\(self, other\)\n        return .*\n" % d,
                   r"\1        return self._forward(operator.%s, other)\n" % op, s)
        s = re.sub(r"(    def __r%s__\(self, other\):\n)        left, right = _unwrap_value_pair\(self, other\)\n        return .*\n" % d,
                   r"\1        return self._reflect(operator.%s, other)\n" % op, s)
    return s

@variant
def h_lambda_helper(s):
    """module-level helper taking a lambda"""
    s = rep(s, "def is_sandbox_result(value) -> bool:", '''def _apply(proxy, other, fn):
    a, b = _unwrap_value_pair(proxy, other)
    return proxy._clone_this_result(fn(a, b))


def is_sandbox_result(value) -> bool:''')
    s = rep(s, "        left, right = _unwrap_value_pair(self, other)\n        return self._clone_this_result(left - right)",
            "        return _apply(self, other, lambda x, y: x - y)")
    s = rep(s, "        left, right = _unwrap_value_pair(self, other)\n        return self._clone_this_result(right - left)",
            "        return _apply(self, other, lambda x, y: y - x)")
    return s

@variant
def h_cmp_ifexp(s):
    """comparisons with a conditional expression and unwrap_value"""
    s = rep(s, "        if isinstance(other, SandboxResult):\n            return self.value < other.value\n        return self.value < other",
            "        rhs = other.value if isinstance(other, SandboxResult) else other\n        return self.value < rhs")
    s = rep(s, "        if isinstance(other, SandboxResult):\n            return self.value <= other.value\n        return self.value <= other",
            "        return self.value <= unwrap_value(other)")
    s = rep(s, "        if isinstance(other, SandboxResult):\n            return self.value > other.value\n        return self.value > other",
            "        if not isinstance(other, SandboxResult):\n            return self.value > other\n        else:\n            return self.value > other._actual_value")
    s = rep(s, "        if isinstance(other, SandboxResult):\n            return self.value >= other.value\n        return self.value >= other",
            "        mine, theirs = _unwrap_value_pair(self, other)\n        outcome = mine >= theirs\n        return outcome")
    return s

@variant
def h_inline_ctor(s):
    """wrap by calling the constructor directly; unwrap inline"""
    s = rep(s, "        left, right = _unwrap_value_pair(self, other)\n        return self._clone_this_result(left * right)",
            "        left = self.value\n        right = other._actual_value if is_sandbox_result(other) else other\n        product = left * right\n        return SandboxResult(product, context_id=self._actual_context_id, sandbox=self._actual_sandbox)")
    return s

@variant
def h_pow_default_none(s):
    """__pow__ with modulo=None and explicit branches"""
    s = rep(s, "    def __pow__(self, other, *modulo):\n        left, right = _unwrap_value_pair(self, other)\n        return self._clone_this_result(pow(left, right, *[unwrap_value(m) for m in modulo]))",
            "    def __pow__(self, other, modulo=None):\n        left, right = _unwrap_value_pair(self, other)\n        if modulo is None:\n            return self._clone_this_result(left ** right)\n        return self._clone_this_result(pow(left, right, unwrap_value(modulo)))")
    return s

@variant
def h_pow_tuple_gen(s):
    s = rep(s, "pow(left, right, *[unwrap_value(m) for m in modulo])", "pow(left, right, *tuple(unwrap_value(m) for m in modulo))")
    return s

@variant
def h_unary_builtin_ops(s):
    """-x instead of x.__neg__(); operator.index; abs()"""
    s = rep(s, "self._clone_this_result(self.value.__neg__())", "self._clone_this_result(-self.value)")
    s = rep(s, "self._clone_this_result(self.value.__abs__())", "self._clone_this_result(abs(self.value))")
    return s

@variant
def h_unwrap_pair_rewrite(s):
    s = rep(s, "    left = left.value\n    if is_sandbox_result(right):\n        right = right.value\n    return left, right",
            "    return (unwrap_value(left), unwrap_value(right))")
    return s

@variant
def h_is_sandbox_result_type(s):
    s = rep(s, '    if hasattr(value, "__actual_class__"):\n        if value.__actual_class__ == SandboxResult:\n            return True\n    return False',
            '    return type(value) is SandboxResult')
    return s

@variant
def h_is_sandbox_result_getattr(s):
    s = rep(s, '    if hasattr(value, "__actual_class__"):\n        if value.__actual_class__ == SandboxResult:\n            return True\n    return False',
            '    return hasattr(value, "__actual_class__") and value.__actual_class__ is SandboxResult')
    return s

@variant
def h_contains_getitem_locals(s):
    s = rep(s, "        return unwrap_value(item) in self.value", "        needle = unwrap_value(item)\n        container = self.value\n        found = needle in container\n        return found")
    s = rep(s, "        return self._clone_this_result(self.value[key])", "        element = self.value[key]\n        return self._clone_this_result(element)")
    return s

@variant
def h_conv_locals(s):
    s = rep(s, "        return int(self.value)", "        whole = int(self.value)\n        return whole")
    s = rep(s, "        return self._clone_this_result(self.value.__round__(*ndigits))", "        rounded = self.value.__round__(*ndigits)\n        return self._clone_this_result(rounded)")
    s = rep(s, "        return format(self.value, format_spec)", "        text = format(self.value, format_spec)\n        return text")
    return s

@variant
def h_try_finally(s):
    """a construct outside the subset (try) -> must be probed"""
    s = rep(s, "        left, right = _unwrap_value_pair(self, other)\n        return self._clone_this_result(left + right)",
            "        left, right = _unwrap_value_pair(self, other)\n        try:\n            total = left + right\n        finally:\n            pass\n        return self._clone_this_result(total)")
    return s

@variant
def h_while_pow(s):
    s = rep(s, "        return self._clone_this_result(pow(left, right, *[unwrap_value(m) for m in modulo]))",
            "        mods = list(modulo)\n        i = 0\n        while i < len(mods):\n            mods[i] = unwrap_value(mods[i])\n            i += 1\n        return self._clone_this_result(pow(left, right, *mods))")
    return s

@variant
def h_len_fn_ifexp(s):
    s = rep(s, "    if is_sandbox_result(s):\n        return s._clone_this_result(_original_len(s.value))\n    return _original_len(s)",
            "    return s._clone_this_result(_original_len(s.value)) if is_sandbox_result(s) else _original_len(s)")
    return s

@variant
def h_getattribute_dict(s):
    """__class__ spoof via a different shape"""
    s = rep(s, '        if name == "__class__":\n            return v.__class__\n', '        if name == "__class__":\n            return type(v)\n')
    return s

# ---------------- mutants ----------------
@variant
def m_swap_rsub(s):
    return rep(s, "return self._clone_this_result(right - left)", "return self._clone_this_result(left - right)")

@variant
def m_wrong_op(s):
    return rep(s, "return self._clone_this_result(left // right)", "return self._clone_this_result(left / right)")

@variant
def m_no_unwrap_other(s):
    return rep(s, "        left, right = _unwrap_value_pair(self, other)\n        return self._clone_this_result(left & right)",
               "        left = self.value\n        right = other\n        return self._clone_this_result(left & right)")

@variant
def m_unwrapped_result(s):
    return rep(s, "return self._clone_this_result(left ^ right)", "return left ^ right")

@variant
def m_drop_modulo(s):
    return rep(s, "pow(left, right, *[unwrap_value(m) for m in modulo])", "pow(left, right)")

@variant
def m_modulo_not_unwrapped(s):
    return rep(s, "pow(left, right, *[unwrap_value(m) for m in modulo])", "pow(left, right, *modulo)")

@variant
def m_rmod_unless_str(s):
    return rep(s, "return self._clone_this_result(right % left)", "return self._clone_this_result(right % left if isinstance(right, str) else left % right)")

@variant
def m_by_hand(s):
    return rep(s, "return self._clone_this_result(right - left)", "return self._clone_this_result(right.__sub__(left))")

@variant
def m_by_hand_fallback(s):
    return rep(s, "        return self._clone_this_result(left * right)", "        result = left.__mul__(right)\n        if result == NotImplemented:\n            result = right.__rmul__(left)\n        return self._clone_this_result(result)")

@variant
def m_print(s):
    return rep(s, "        return self._clone_this_result(left * right)", "        result = left * right\n        print('RMUL', left, right, result)\n        return self._clone_this_result(result)")

@variant
def m_eq_is(s):
    return rep(s, "            return self.value == other.value\n        return self.value == other", "            return self.value is other.value\n        return self.value is other")

@variant
def m_hash_id(s):
    return rep(s, "return hash(self.value)", "return hash(id(self))")

@variant
def m_no_spoof(s):
    return rep(s, '            return v.__class__\n', '            return object.__getattribute__(self, "__class__")\n')

@variant
def m_round_drops(s):
    return rep(s, "self.value.__round__(*ndigits)", "self.value.__round__()")

@variant
def m_len_fn_recurse(s):
    return rep(s, "    return _original_len(s)\n", "    return len(s)\n")

@variant
def m_float_wrapped(s):
    return rep(s, "        return float(self.value)", "        return self._clone_this_result(float(self.value))")

@variant
def m_trunc_missing(s):
    return rep(s, "math.trunc(self.value)", "math.truncate(self.value)")

@variant
def m_contains_dunder(s):
    return rep(s, "unwrap_value(item) in self.value", "self.value.__contains__(item)")

@variant
def m_helper_swaps(s):
    """harmless-looking helper that swaps the pair"""
    return rep(s, "    return left, right\n", "    return right, left\n")

@variant
def m_helper_comparison_operand_wrong(s):
    """H1 shape, but the helper unwraps wrongly (returns the proxy for proxies)"""
    s = rep(s, "        if isinstance(other, SandboxResult):\n            return self.value >= other.value\n        return self.value >= other",
            "        return self.value >= _comparison_operand(other)")
    s = rep(s, "def is_sandbox_result(value) -> bool:", "def _comparison_operand(other):\n    if isinstance(other, SandboxResult):\n        return other\n    return other.value\n\n\ndef is_sandbox_result(value) -> bool:")
    return s

@variant
def m_ge_plain_branch(s):
    return rep(s, "        return self.value >= other\n", "        return self.value > other\n")

@variant
def m_floor_by_hand(s):
    return rep(s, "math.floor(self.value)", "self.value.__floor__()")

@variant
def m_is_sandbox_result_broken(s):
    return rep(s, "        if value.__actual_class__ == SandboxResult:\n            return True\n    return False", "        if value.__actual_class__ == SandboxResult:\n            return False\n    return False")

@variant
def m_value_dependent_hidden_in_try(s):
    """value-dependent swap inside a construct the reader cannot follow: only the search can see it"""
    return rep(s, "        return self._clone_this_result(right | left)", "        try:\n            out = left | right if isinstance(left, dict) else right | left\n        finally:\n            pass\n        return self._clone_this_result(out)")

# ---------------- more harmless: structure ----------------
@variant
def h_factory_assign(s):
    """reflected operators made by a factory and bound with class-level assignments"""
    s = rep(s, "import math\n", "import math\nimport operator\n")
    s = rep(s, "class SandboxResult", '''def _reflected(operation):
    def method(self, other):
        own, theirs = _unwrap_value_pair(self, other)
        return self._clone_this_result(operation(theirs, own))
    return method


class SandboxResult''')
    for d, op in [("add", "add"), ("sub", "sub"), ("mul", "mul"), ("and", "and_"), ("or", "or_"), ("xor", "xor")]:
        s = re.sub(r"    def __r%s__\(self, other\):\n        left, right = _unwrap_value_pair\(self, other\)\n        return .*\n" % d,
                   "    __r%s__ = _reflected(operator.%s)\n" % (d, op), s)
    return s

@variant
def h_decorator(s):
    """a decorator does the unwrapping and the wrapping"""
    s = rep(s, "import math\n", "import math\nimport functools\n")
    s = rep(s, "class SandboxResult:", '''def _on_values(compute):
    @functools.wraps(compute)
    def method(self, other):
        own, theirs = _unwrap_value_pair(self, other)
        return self._clone_this_result(compute(own, theirs))
    return method


class SandboxResult:''')
    for d, sym in [("add", "+"), ("sub", "-"), ("mul", "*"), ("mod", "%")]:
        s = re.sub(r"    def __%s__\(self, other\):\n        left, right = _unwrap_value_pair\(self, other\)\n        return self._clone_this_result\(left . right\)\n" % d,
                   "    @_on_values\n    def __%s__(left, right):\n        return left %s right\n" % (d, sym), s)
        s = re.sub(r"    def __r%s__\(self, other\):\n        left, right = _unwrap_value_pair\(self, other\)\n        return self._clone_this_result\(right . left\)\n" % d,
                   "    @_on_values\n    def __r%s__(left, right):\n        return right %s left\n" % (d, sym), s)
    return s

@variant
def h_base_class(s):
    """comparison methods moved to a mixin base class"""
    m = re.search(r"    def __eq__\(self, other\):.*?(?=    # Numeric Operations)", s, re.S)
    block = m.group(0)
    s = s.replace(block, "")
    s = rep(s, "class SandboxResult:", "class _Comparisons:\n" + block + "\nclass SandboxResult(_Comparisons):")
    return s

@variant
def h_setattr_loop(s):
    """unary operators bound dynamically after the class statement (only measurable)"""
    m = re.search(r"    def __neg__\(self\):.*?(?=    def __complex__)", s, re.S)
    s = s.replace(m.group(0), "")
    s = rep(s, "def is_sandbox_result(value) -> bool:", '''def _make_unary(dunder):
    def method(self):
        return self._clone_this_result(getattr(self.value, dunder)())
    method.__name__ = dunder
    return method


for _dunder in ("__neg__", "__pos__", "__abs__", "__invert__"):
    setattr(SandboxResult, _dunder, _make_unary(_dunder))
del _dunder


def is_sandbox_result(value) -> bool:''')
    return s

@variant
def h_bool_ifexp(s):
    return rep(s, "        return bool(self.value)", "        return True if self.value else False")

@variant
def h_bool_if(s):
    return rep(s, "        return bool(self.value)", "        if self.value:\n            return True\n        return False")

@variant
def h_unwrap_getattr_default(s):
    return rep(s, "    if is_sandbox_result(value):\n        return value._actual_value\n    else:\n        return value", '    return getattr(value, "_actual_value", value)')

@variant
def m_factory_swapped(s):
    s = h_factory_assign(s)
    return rep(s, "operation(theirs, own)", "operation(own, theirs)")

@variant
def m_decorator_nowrap(s):
    s = h_decorator(s)
    return rep(s, "return self._clone_this_result(compute(own, theirs))", "return compute(own, theirs)")

@variant
def m_setattr_wrong(s):
    s = h_setattr_loop(s)
    return rep(s, 'setattr(SandboxResult, _dunder, _make_unary(_dunder))', 'setattr(SandboxResult, _dunder, _make_unary("__pos__"))')

@variant
def m_bool_not(s):
    return rep(s, "        return bool(self.value)", "        return False if self.value else True")

@variant
def h_dead_ni_branch(s):
    return rep(s, "        return self._clone_this_result(left + right)", "        total = left + right\n        if total is NotImplemented:\n            total = right + left\n        return self._clone_this_result(total)")

@variant
def x3_structure(s):
    """mixin base class for comparisons + factory-made reflected operators + unary operators bound after the class"""
    return h_setattr_loop(h_factory_assign(h_base_class(s)))

@variant
def x4_spellings(s):
    return h_bool_if(h_cmp_ifexp(h_unwrap_getattr_default(h_inline_ctor(h_pow_default_none(h_contains_getitem_locals(h_len_fn_ifexp(s)))))))

@variant
def h_cmp_table(s):
    s = rep(s, "import math\n", "import math\nimport operator\n\n_COMPARE = {'lt': operator.lt, 'ge': operator.ge}\n")
    s = rep(s, "        if isinstance(other, SandboxResult):\n            return self.value < other.value\n        return self.value < other",
            "        return _COMPARE['lt'](self.value, unwrap_value(other))")
    s = rep(s, "        if isinstance(other, SandboxResult):\n            return self.value >= other.value\n        return self.value >= other",
            "        return _COMPARE['ge'](self.value, unwrap_value(other))")
    return s

@variant
def h_kwargs_renamed(s):
    s = rep(s, "    def __add__(self, other):\n        left, right = _unwrap_value_pair(self, other)\n        return self._clone_this_result(left + right)",
            "    def __add__(this, rhs: object) -> 'SandboxResult':\n        pair = _unwrap_value_pair(right=rhs, left=this)\n        return this._clone_this_result(new_value=pair[0] + pair[1])")
    return s

@variant
def h_walrus(s):
    return rep(s, "        left, right = _unwrap_value_pair(self, other)\n        return self._clone_this_result(left - right)",
               "        if (pair := _unwrap_value_pair(self, other)) is not None:\n            return self._clone_this_result(pair[0] - pair[1])")

@variant
def h_try_except_unwrap(s):
    return rep(s, "        return unwrap_value(item) in self.value", "        try:\n            item = item._actual_value\n        except AttributeError:\n            pass\n        return item in self.value")

@variant
def h_operator_contains(s):
    s = rep(s, "import math\n", "import math\nimport operator\n")
    return rep(s, "        return unwrap_value(item) in self.value", "        return operator.contains(self.value, unwrap_value(item))")

@variant
def h_staticmethod_helper(s):
    s = rep(s, "    def __repr__(self):", "    @staticmethod\n    def _plain(x):\n        return x._actual_value if isinstance(x, SandboxResult) else x\n\n    def __repr__(self):")
    s = rep(s, "        if isinstance(other, SandboxResult):\n            return self.value < other.value\n        return self.value < other",
            "        return self.value < SandboxResult._plain(other)")
    return s

@variant
def h_class_level_if(s):
    s = rep(s, "import math\n", "import math\nimport sys\n")
    return rep(s, "    def __matmul__(self, other):\n        left, right = _unwrap_value_pair(self, other)\n        return self._clone_this_result(left @ right)",
               "    if sys.version_info >= (3, 5):\n        def __matmul__(self, other):\n            left, right = _unwrap_value_pair(self, other)\n            return self._clone_this_result(left @ right)")

@variant
def h_actual_value_alias(s):
    s = rep(s, "        return hash(self.value)", "        return hash(self._actual_value)")
    s = s + "\n\n_SR = SandboxResult\n"
    s = rep(s, "        if isinstance(other, SandboxResult):\n            return self.value != other.value\n        return self.value != other",
            "        if isinstance(other, _SR):\n            other = other._actual_value\n        return self.value != other")
    return s

@variant
def m_cmp_table_wrong(s):
    s = h_cmp_table(s)
    return rep(s, "'ge': operator.ge", "'ge': operator.gt")

@variant
def m_staticmethod_wrong(s):
    s = h_staticmethod_helper(s)
    return rep(s, "return x._actual_value if isinstance(x, SandboxResult) else x", "return x if isinstance(x, SandboxResult) else x")

import subprocess, sys, os, json, re
sys.path.insert(0, os.path.dirname(os.path.abspath(__file__)))
from vbase import V
import variants  # noqa
WT = "/tmp/wt_rb_c16"
P = WT + "/pedal/sandbox/result.py"
BASE = subprocess.run(["git", "-C", "/repo", "show", "HEAD:pedal/sandbox/result.py"], capture_output=True, text=True).stdout
for name in sys.argv[1:]:
    open(P, "w").write(V[name](BASE))
    r = subprocess.run(["./check", "C16", "--tier", "quick"], cwd="/verif", env=dict(os.environ, VERIF_REPO=WT), capture_output=True, text=True)
    out = r.stdout + r.stderr
    viol = [l for l in out.split("\n") if l.startswith("VIOLATION")]
    nf = [l for l in viol if "no-failing-input-found" in l]
    summ = [l for l in out.split("\n") if l.startswith("C16 tier=")]
    ev = json.load(open("/verif/evidence/C16.json"))
    txt = json.dumps(ev)
    broken = re.findall(r'"(proof-build|model-build|translator|correspondence)[^"]*"', txt)
    print("== %s rc=%d violations=%d (no-failing-input: %d) broken=%s\n   %s" % (name, r.returncode, len(viol), len(nf), sorted(set(broken)), summ[0] if summ else out[-300:]))
    subprocess.run(["git", "-C", WT, "checkout", "-q", "--", "."])

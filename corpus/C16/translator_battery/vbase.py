V = {}
def variant(f):
    V[f.__name__] = f
    return f
def rep(src, old, new, count=1):
    assert src.count(old) >= 1, old
    return src.replace(old, new, count)

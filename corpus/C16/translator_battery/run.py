# Translator regression battery for C16 (harmless variants h_*/x* must give HEAD's plans, mutants m_* must not).
# Needs a scratch worktree: git -C /repo worktree add /tmp/wt_rb_c16 HEAD ; and /tmp/c16_base.lean = plans of HEAD
# (cd /verif/harness && python translate_proxy.py --dry | sed -n "/^import/,/^end/p" > /tmp/c16_base.lean). Then: python run.py [names]
"""usage: run.py <variant-name>...   each variant = function src->src ; writes to scratch worktree, dry-runs translator"""
import subprocess, sys, re, os
WT = "/tmp/wt_rb_c16"
P = WT + "/pedal/sandbox/result.py"
BASE = subprocess.run(["git", "-C", "/repo", "show", "HEAD:pedal/sandbox/result.py"], capture_output=True, text=True).stdout

sys.path.insert(0, os.path.dirname(os.path.abspath(__file__)))
from vbase import V
import variants   # noqa

def run(name):
    src = V[name](BASE)
    open(P, "w").write(src)
    r = subprocess.run(["/venv/bin/python", "translate_proxy.py", "--dry"], cwd="/verif/harness",
                       env=dict(os.environ, VERIF_REPO=WT), capture_output=True, text=True)
    out = r.stdout + r.stderr
    lean = [l for l in out.split("\n")]
    try:
        i, j = lean.index("import PedalModel.Proxy"), lean.index("end Pedal.Gen.Proxy")
    except ValueError:
        print("==", name, "TRANSLATOR CRASHED"); print(out[-1500:]); return
    body = [l for l in lean[i:j] if not l.startswith("--")]
    base = [l for l in open("/tmp/c16_base.lean").read().split("\n") if not l.startswith("--")][:len(body)]
    diffs = [(a, b) for a, b in zip(base, body) if a != b]
    notes = [l for l in lean[i:j] if l.startswith("-- opaque") or l.startswith("-- probed")]
    print("==", name, "SAME" if not diffs else "DIFFER")
    for a, b in diffs:
        print("   -", a.strip()); print("   +", b.strip())
    for n in notes:
        print("   ", n[:400])

if __name__ == "__main__":
    names = sys.argv[1:] or list(V)
    for n in names:
        run(n)
    subprocess.run(["git", "-C", WT, "checkout", "-q", "--", "."])
